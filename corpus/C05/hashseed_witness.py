def f0(p, q):
    p.a0
    f1(q, p)
    f0(p.x, p)

def f1(p, q):
    p.a1

def f2(p, q):
    q.a2
    f2(p.x, q)
    f2(p.x, p)
    f0(p, q.y)
