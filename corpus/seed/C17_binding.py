def u(a, e):
    try:
        pass
    except ValueError as exc:
        print(exc.args)
    del a.b
    a.c
    match e:
        case [x, y]:
            return x
