def callee(p):
    return p.attr

def caller(q):
    f(q.a)
    f(q.b)
    return callee(q)
