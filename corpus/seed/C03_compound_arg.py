def leaf(p):
    return p.leafattr

def mid(m):
    return leaf(m.inner)

def top(t):
    return mid(t.outer)
