def f(a, x, i):
    a[x.y] = 1
    return a.b(x.z).c()

def g(o, v, d):
    setattr(o, "attr", v.w)
    return getattr(o, "q", d.e)
