def root(a, b):
    f(a)
    h(b)

def g(x):
    return x.gattr

def f(x):
    return g(x)

def h(x):
    return g(x)
