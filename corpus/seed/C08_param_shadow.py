def wrapper(cb, x):
    return cb(x)

def cb(y):
    return y.secret
