"""Shared run for the properties that rest on the result-generation model (C03, C14, C05)."""
from __future__ import annotations

import hashlib
import itertools
import os
import pickle
import random
import sys
import warnings
from pathlib import Path

import common as C
import diaglib as D
import res_lib as R
import rt

MODEL_FILES = ["model/Base.v", "model/ModNames.v", "model/Str.v", "model/PyAst.v", "model/Naming.v", "model/Context.v",
               "model/CallSwaps.v", "model/FuncAn.v", "model/Results.v", "spec/PyBind.v", "spec/FaCheck.v", "spec/ResCheck.v",
               "spec/Closure.v", "spec/ResSpecCheck.v"]
HDR = ("From RattrV Require Import Base Str Context CallSwaps FuncAn FaCheck Results ResCheck Closure ResSpecCheck.\n"
       "Open Scope string_scope.\nOpen Scope list_scope.\n")


def repo_key(tier: str) -> str:
    h = hashlib.sha256()
    for p in sorted((C.REPO / "rattr").rglob("*.py")):
        h.update(p.read_bytes())
    for p in sorted((C.VERIF / "coq").rglob("*.v")):
        if "/gen/" not in str(p):
            h.update(p.read_bytes())
    for p in ("res_run.py", "res_lib.py", "fa_lib.py"):
        h.update((C.VERIF / "harness" / p).read_bytes())
    h.update(f"{tier}:{C.SEED}".encode())
    return h.hexdigest()[:20]


def ir_by_function(snap) -> dict:
    """The IR of the analysis phase (before result generation), order-free: id -> accesses and call records with targets."""
    return {e["id"]: {"gets": e["gets"], "sets": e["sets"], "dels": e["dels"], "calls": sorted(repr(c) for c in e["calls"])} for e in snap}


def graphs(rng: random.Random, tier: str):
    n_rand, n_tree = (60, 70) if tier == "quick" else (1500, 1500)
    out = [(nm, defs, "fixed") for nm, defs in R.FIXED_GRAPHS.items()]
    out += [(f"tree{i}", R.gen_tree_graph(rng, rng.randint(2, 6)), "tree") for i in range(n_tree)]
    out += [(f"rand{i}", R.gen_graph(rng, rng.randint(2, 5), 2), "random") for i in range(n_rand)]
    return out


def run(tier: str) -> dict:
    warnings.simplefilter("ignore")
    cache_dir = C.VERIF / ".cache"
    cache_dir.mkdir(exist_ok=True)
    cpath = cache_dir / f"res_{repo_key(tier)}.pkl"
    if cpath.exists():
        try:
            return pickle.loads(cpath.read_bytes())
        except Exception:  # noqa: BLE001
            pass
    T = C.Timer()
    rng = random.Random(C.SEED)
    old_path0, old_cwd = sys.path[0], os.getcwd()
    cases, metas = [], []
    perm_groups = []     # for C05: (program name, [(variant label, results dict)], differing?)
    with D.Scratch() as scratch:
        sys.path[0] = str(scratch)
        os.chdir(scratch)
        try:
            for gi, (name, defs, kind) in enumerate(graphs(rng, tier)):
                if rt.HANGS[0] >= 3:
                    break
                n = len(defs)
                perms = [tuple(range(n))]
                if n <= 3:
                    perms = list(itertools.permutations(range(n)))
                else:
                    perms += [tuple(reversed(range(n)))] + [tuple(rng.sample(range(n), n)) for _ in range(2)]
                variants = []
                for pi, order in enumerate(dict.fromkeys(perms)):
                    src = R.module_source(defs, order)
                    run_ = R.run_generation(scratch / "m.py", src, twice=True)
                    if run_ is None:
                        continue
                    cases.append(R.c_case(run_))
                    metas.append({"program": name, "kind": kind, "variant": f"order {order}", "source": src,
                                  "results": run_["results"], "results_second_generation": run_["results2"],
                                  "ir_before": [{k: e[k] for k in ("id", "gets", "sets", "dels")} for e in run_["before"]],
                                  "ir_after": [{k: e[k] for k in ("id", "gets", "sets", "dels")} for e in run_["after"]],
                                  "raised": run_["raised"], "diagnostics": run_["simplification_diagnostics"]})
                    variants.append((f"order {order}", run_["results"], run_["results2"], ir_by_function(run_["before"])))
                # unrelated definitions: functions nobody in the program calls (they may call into it)
                extra = [("unrel1", f"def unrel1(z):\n    z.unrelated\n    {defs[0][0]}(z)\n"), ("unrel2", "def unrel2(w):\n    return w.other\n")]
                for label, defs2 in (("with unrelated definitions appended", defs + extra), ("with unrelated definitions first", extra + defs)):
                    run_ = R.run_generation(scratch / "m.py", R.module_source(defs2), twice=False)
                    if run_ is None:
                        continue
                    cases.append(R.c_case(run_))
                    metas.append({"program": name, "kind": kind, "variant": label, "source": R.module_source(defs2),
                                  "results": run_["results"], "results_second_generation": None,
                                  "ir_before": [], "ir_after": [], "raised": run_["raised"], "diagnostics": run_["simplification_diagnostics"]})
                    variants.append((label, run_["results"], None, ir_by_function(run_["before"])))
                perm_groups.append({"program": name, "kind": kind, "definitions": [d[1] for d in defs], "variants": variants})
        finally:
            sys.path[0] = old_path0
            os.chdir(old_cwd)
            rt.clear_caches()
    codes = C.coq_eval_codes("res", HDR, "res_case", "res_spec_code", cases, shard=40, timeout=1800)
    res = {"cases": list(zip(codes, metas)), "groups": perm_groups, "wall_s": T.s}
    try:
        for old in cache_dir.glob("res_*.pkl"):
            old.unlink()
        cpath.write_bytes(pickle.dumps(res))
    except Exception:  # noqa: BLE001
        pass
    return res
