"""A user plugin for the C19 histories (variant b): a custom analyser for calls to `plugin_marker`."""
import ast

from rattr.analyser.base import CustomFunctionAnalyser
from rattr.analyser.types import FunctionIr
from rattr.models.symbol import Name

MARK = "marker_b"


class MarkerAnalyser(CustomFunctionAnalyser):
    @property
    def name(self):
        return "direct.df"

    @property
    def qualified_name(self):
        return "direct.df"

    def on_def(self, name, node, ctx):
        return FunctionIr.the_empty_ir()

    def on_call(self, name, node, ctx):
        return FunctionIr.new(gets={Name(MARK)})


ANALYSERS = [MarkerAnalyser()]
