"""The root-context suite: model/RootCtx.v against compile_root_context on generated modules placed in a small project
(top level, inside a package, inside a nested package, as a package __init__)."""
from __future__ import annotations

import ast
import hashlib
import os
import pickle
import random
import sys
import warnings

import common as C
import diaglib as D
import imp_lib as I
import root_lib as R
import rt

MODEL_FILES = ["model/Base.v", "model/Str.v", "model/ModNames.v", "model/Context.v", "model/RootCtx.v", "spec/RootCheck.v", "spec/RootSpec.v"]
HDR = "From RattrV Require Import Base Str ModNames Context RootCtx RootCheck RootSpec.\nOpen Scope string_scope.\nOpen Scope list_scope.\n"


def repo_key(tier: str) -> str:
    h = hashlib.sha256()
    for p in sorted((C.REPO / "rattr").rglob("*.py")):
        h.update(p.read_bytes())
    for p in MODEL_FILES:
        h.update((C.VERIF / "coq" / p).read_bytes())
    for p in ("root_run.py", "root_lib.py"):
        h.update((C.VERIF / "harness" / p).read_bytes())
    h.update(f"{tier}:{C.SEED}".encode())
    return h.hexdigest()[:20]


def qualified_names(tree: ast.Module, base: str, is_init: bool) -> set[tuple[str, str]]:
    """(qualified name, module name) of every import symbol the module could create (for the oracles)."""
    out = set()
    for node in ast.walk(tree):
        if isinstance(node, ast.Import):
            for a in node.names:
                out.add((a.name, a.name))
        elif isinstance(node, ast.ImportFrom):
            if node.level == 0:
                mod = node.module
            else:
                lvl = node.level - (1 if is_init else 0)
                b = ".".join(base.split(".")[:-lvl]) if lvl > 0 else base
                mod = f"{b}.{node.module}" if node.module is not None else b
            if mod is None:
                continue
            for a in node.names:
                out.add((mod if a.name == "*" else f"{mod}.{a.name}", mod))
    return out


def encode_observed(init, syms):
    """observed table = (init without `removed`) ++ tail."""
    kept, i = [], 0
    for s in syms:
        while i < len(init) and init[i] != s:
            i += 1
        if i < len(init):
            kept.append(s)
            i += 1
        else:
            break
    tail = syms[len(kept):]
    kept_names = {R.sym_term(s) for s in kept}
    removed = [s.id for s in init if R.sym_term(s) not in kept_names]
    return removed, tail


def run(tier: str) -> dict:
    warnings.simplefilter("ignore")
    cache_dir = C.VERIF / ".cache"
    cache_dir.mkdir(exist_ok=True)
    cpath = cache_dir / f"root_{repo_key(tier)}.pkl"
    if cpath.exists():
        try:
            return pickle.loads(cpath.read_bytes())
        except Exception:  # noqa: BLE001
            pass
    T = C.Timer()
    rng = random.Random(C.SEED)
    mods = [("fixed", m) for m in R.fixed_modules()]
    mods += [("random", R.gen_module(rng)) for _ in range(300 if tier == "quick" else 6000)]
    terms, metas, skipped = [], [], []
    old_path0, old_cwd = sys.path[0], os.getcwd()
    with D.Scratch() as root:
        I.materialise(root, R.PROJECT)
        sys.path[0] = str(root)
        os.chdir(root)
        try:
            from rattr.models.symbol import Import
            from rattr.module_locator.util import derive_module_name_from_path, is_in_import_blacklist
            status, init, _ = R.observe(root / "empty_probe.py", "")
            assert status == "ok"
            init_term = C.clist(R.sym_term(s) for s in init)
            for mi, (kind, src) in enumerate(mods):
                try:
                    tree = ast.parse(src)
                    stmts = R.module_term(src)
                except (R.Unsupported, SyntaxError) as e:
                    skipped.append({"source": src, "why": str(e)})
                    continue
                places = R.PLACES if kind == "fixed" or any(isinstance(n, ast.ImportFrom) and n.level for n in ast.walk(tree)) else [R.PLACES[mi % 2]]
                for place in places:
                    path = root / place
                    original = path.read_text() if path.exists() else None
                    try:
                        status, syms, stderr = R.observe(path, src)
                        base = derive_module_name_from_path(path) or ""
                        is_init = path.name == "__init__.py"
                        qs = qualified_names(tree, base, is_init)
                        with rt.capture_stderr():
                            loc = sorted(q for q, _ in qs if Import(name="probe", qualified_name=q).origin is not None)
                            black = sorted({m for _, m in qs if is_in_import_blacklist(m)})
                    finally:
                        if original is None:
                            path.unlink(missing_ok=True)
                        else:
                            path.write_text(original)
                        rt.clear_caches()
                    meta = {"kind": kind, "place": place, "source": src, "outcome": status, "module_name_of_file": base,
                            "stderr": rt.strip_ansi(stderr)[-400:]}
                    if status == "raise":
                        meta["raised"] = syms
                        metas.append(meta)
                        terms.append(None)
                        continue
                    if status == "ok":
                        removed, tail = encode_observed(init, syms)
                        meta["registered"] = [R.sym_term(s) for s in tail]
                        meta["removed_initial_names"] = removed
                        obs = f"false {C.cstrs(removed)} {C.clist(R.sym_term(s) for s in tail)}"
                    else:
                        obs = "true [] []"
                    terms.append(f"(mkRootCtxCase init_scope {C.cstrs(loc)} {C.cstrs(black)} {C.cstr(base)} {C.cbool(is_init)} {stmts} {obs})")
                    metas.append(meta)
        finally:
            sys.path[0] = old_path0
            os.chdir(old_cwd)
            rt.clear_caches()
    hdr = HDR + f"Definition init_scope : scope := {init_term}.\n"
    live = [t for t in terms if t is not None]
    codes_live = C.coq_eval_codes("rootctx", hdr, "root_ctx_case", "rootsuite_code", live, shard=150, timeout=900)
    it = iter(codes_live)
    codes = [next(it) if t is not None else 1 for t in terms]
    # the order theorem, observed: modules that meet its premises, with their top-level statements reversed / shuffled
    order_runs = []
    cand = [(c, m) for c, m in zip(codes, metas) if (c & 8) and not (c & 1) and m["outcome"] == "ok" and len(ast.parse(m["source"]).body) > 1]
    rng2 = random.Random(C.SEED + 17)
    if len(cand) > (60 if tier == "quick" else 1200):
        cand = rng2.sample(cand, 60 if tier == "quick" else 1200)
    with D.Scratch() as root:
        I.materialise(root, R.PROJECT)
        sys.path[0] = str(root)
        os.chdir(root)
        try:
            for c, m in cand:
                body = ast.parse(m["source"]).body
                base_syms = None
                for label, order in (("as written", list(range(len(body)))), ("reversed", list(reversed(range(len(body))))),
                                     ("shuffled", rng2.sample(range(len(body)), len(body)))):
                    src = "\n".join(ast.unparse(body[i]) for i in order) + "\n"
                    path = root / m["place"]
                    original = path.read_text() if path.exists() else None
                    try:
                        status, syms, _ = R.observe(path, src)
                    finally:
                        if original is None:
                            path.unlink(missing_ok=True)
                        else:
                            path.write_text(original)
                        rt.clear_caches()
                    table = None if status != "ok" else sorted(R.sym_term(s) for s in syms)
                    if label == "as written":
                        base_syms = table
                    else:
                        order_runs.append({"source": m["source"], "place": m["place"], "variant": label, "variant_source": src,
                                           "same": table == base_syms, "outcome": status})
        finally:
            sys.path[0] = old_path0
            os.chdir(old_cwd)
            rt.clear_caches()
    res = {"cases": list(zip(codes, metas)), "skipped": skipped, "order_runs": order_runs, "wall_s": T.s}
    try:
        for old in cache_dir.glob("root_*.pkl"):
            old.unlink()
        cpath.write_bytes(pickle.dumps(res))
    except Exception:  # noqa: BLE001
        pass
    return res


if __name__ == "__main__":
    r = run(sys.argv[1] if len(sys.argv) > 1 else "quick")
    bad = [m for c, m in r["cases"] if c & 1]
    print("spec failures", sum(1 for c, m in r["cases"] if c & 2), "of which outside the class", sum(1 for c, m in r["cases"] if (c & 2) and not (c & 4)))
    for c, m in r["cases"]:
        if (c & 2) and not (c & 4):
            print("SPEC", m["place"], repr(m["source"]), m.get("registered"))
    print("order runs", len(r["order_runs"]), "differing", sum(1 for o in r["order_runs"] if not o["same"]))
    print(len(r["cases"]), "cases", len(bad), "disagreements", len(r["skipped"]), "skipped", round(r["wall_s"], 1), "s")
    import collections
    print(collections.Counter(m["outcome"] for _, m in r["cases"]))
    for m in bad[:12]:
        print("----", m["place"], m["outcome"], m.get("raised"))
        print(m["source"])
        print(m.get("registered"), m.get("removed_initial_names"))
        print(m["stderr"][-200:])
    print(collections.Counter(s["why"] for s in r["skipped"]).most_common(8))
