"""C19 - a cache hit is declared only when a fresh run would give the cached results.

Proof: coq/props/C19.v - for every history of edits, option / version / plugin changes, outside interference
       with the cache file, runs and forced refreshes, every run reports what a from-scratch analysis of the
       world at that moment gives (induction over the history), under hash injectivity and the FRAME
       hypothesis (the analysis depends only on what the cache records); the document layer
       (model/CacheJson.v) reads back what it writes and never trusts what is not an object / has a
       wrongly typed field; refutations for documents no run wrote and for unrecorded dependencies.
Tie:   (1) scripted histories of REAL runs (`rattr -C cache [-r]` as subprocesses, files edited, options,
           version and plugin set changed, cache file truncated / mutated / deleted / restored in between):
           the model's hit flags and cache documents are compared with the observed ones, and the cache file
           after every run with the from-scratch document of that moment (this tests FRAME);
       (2) the real target_cache_file_is_up_to_date on every truncation of a real cache file and every
           type-level mutation of every field, against the model's structuring + predicate.
"""
from __future__ import annotations

import copy
import hashlib
import json
import random
import subprocess
import os
from pathlib import Path

import common as C
import diaglib as D
from props.c18 import c_json

PROP = "C19"
HEADER = "From RattrV Require Import Base Str Json Cache CacheJson C18Check C19Check.\nOpen Scope string_scope.\nOpen Scope list_scope.\n"
MODEL_FILES = ["model/Base.v", "model/Str.v", "model/Json.v", "model/Cache.v", "model/CacheJson.v", "spec/C18Check.v", "spec/C19Check.v"]
PROOF_FILES = ["proofs/C19Proofs.v", "proofs/C19Json.v", "props/C19.v"]
PROBE = str((C.VERIF / "harness") / "cache_probe.py")
PLUGIN = {"a": str((C.VERIF / "harness") / "plugins" / "extra_a.py"), "b": str((C.VERIF / "harness") / "plugins" / "extra_b.py")}
EMPTY_MD5 = hashlib.md5(b"").hexdigest()

# ---- projects: file -> list of variants (variant 0 is the initial content) -------------------
PROJECTS = {
    "chain": {
        "target.py": [
            "import os\nfrom direct import df\n\ndef top(a):\n    df(a.x)\n    return os.getcwd()\n",
            "import os\nfrom direct import df, dg\n\ndef top(a):\n    df(a.x)\n    dg(a.y)\n    return os.getcwd()\n\ndef second(b):\n    return b.s\n",
            "def top(a):\n    return a.alone\n",
        ],
        "direct.py": [
            "from trans import tf\n\ndef df(p):\n    return tf(p.d)\n\ndef dg(p):\n    return p.g\n",
            "from trans import tf\n\ndef df(p):\n    return tf(p.changed)\n\ndef dg(p):\n    p.g2 = 1\n",
            "def df(p):\n    return p.no_more_trans\n\ndef dg(p):\n    return p.g\n",
        ],
        "trans.py": ["def tf(q):\n    return q.t\n", "def tf(q):\n    return q.t_changed.deeper\n"],
        "unrelated.py": ["def u(x):\n    return x.u\n", "def u(x):\n    return x.u_changed\n"],
    },
    "package": {
        "target.py": [
            "import pkg.mod as m\nfrom pkg import top_level\n\ndef top(a):\n    m.mf(a.x)\n    return top_level(a.y)\n",
            "import pkg.mod as m\n\ndef top(a):\n    return m.mf(a.other)\n",
        ],
        "pkg/__init__.py": ["from .sib import sf as top_level\n", "from .sib import sf2 as top_level\n"],
        "pkg/mod.py": ["from .sib import sf\n\ndef mf(p):\n    return sf(p.m)\n", "from .sib import sf\n\ndef mf(p):\n    return sf(p.m_changed)\n"],
        "pkg/sib.py": ["def sf(q):\n    return q.s\n\ndef sf2(q):\n    return q.s2\n", "def sf(q):\n    return q.s_changed\n\ndef sf2(q):\n    return q.s2\n"],
        "unrelated.py": ["x = 1\n", "x = 2\n"],
    },
    "star": {
        "target.py": [
            "from starred import *\nimport direct\n\ndef top(a):\n    only(a.x)\n    return direct.df(a.y)\n",
            "from starred import *\nimport direct\n\ndef top(a):\n    only(a.x2)\n    return direct.df(a.y)\n",
        ],
        "starred.py": ["from trans import tf\n\ndef only(s):\n    return tf(s.star)\n", "def only(s):\n    return s.star_changed\n"],
        "direct.py": ["def df(p):\n    return p.d\n", "def df(p):\n    return p.d_changed\n"],
        "trans.py": ["def tf(q):\n    return q.t\n", "def tf(q):\n    return q.t_changed\n"],
    },
}
PROJECTS["reexport"] = {
    "target.py": ["from a import helper\n\ndef main(x):\n    return helper(x)\n", "from a import helper\n\ndef main(x):\n    return helper(x.deeper)\n"],
    "a.py": ["from c import helper\n", "def helper(z):\n    return z.in_a\n"],
    "c.py": ["def helper(z):\n    return z.in_c\n", "def helper(z):\n    return z.in_c_changed\n"],
}
# a starred import of a module that lives in a site-packages directory (not followed below -f 2, but star-expanded
# at every level: what it exports decides which module a later starred import's names come from), then a local one
VENDOR_DIR = "vendor/site-packages"
PROJECTS["vendor"] = {
    "target.py": ["from vendorlib import *\nfrom mylocal import *\n\ndef run(x):\n    return process(x)\n",
                  "from vendorlib import *\nfrom mylocal import *\n\ndef run(x):\n    return process(x.inner)\n"],
    "mylocal.py": ["def process(item):\n    return item.price * item.quantity\n", "def process(item):\n    return item.price_changed\n"],
    VENDOR_DIR + "/vendorlib.py": ["def helper(a):\n    return a.h\n", "def helper(a):\n    return a.h\n\ndef process(a):\n    return a.vendor\n"],
}
# histories run in full for their project besides the random ones
_VL = VENDOR_DIR + "/vendorlib.py"
SCRIPTED = [
    ("vendor", [("run",), ("edit", _VL, 1), ("run",), ("edit", _VL, 0), ("run",), ("edit", "mylocal.py", 1), ("run",), ("edit", _VL, 1), ("run",), ("run",)]),
    # the same with the starred module excluded by -F: it is not analysed, its exports still decide the binding
    ("vendor", [("opts", 8), ("run",), ("edit", _VL, 1), ("run",), ("edit", _VL, 0), ("run",), ("opts", 0), ("run",), ("opts", 8), ("edit", _VL, 1), ("run",), ("run",)]),
]
SCRIPTED_PROJECTS = {p for p, _ in SCRIPTED}
PROJECTS["unicode"] = {
    "target.py": ["from m\u00f6dul import gr\u00f6\u00dfe\n\ndef fl\u00e4che(x):\n    return gr\u00f6\u00dfe(x.h\u00f6he)\n",
                  "from m\u00f6dul import gr\u00f6\u00dfe\n\ndef fl\u00e4che(x):\n    return gr\u00f6\u00dfe(x.breite)\n"],
    "m\u00f6dul.py": ["def gr\u00f6\u00dfe(y):\n    return y.l\u00e4nge\n", "def gr\u00f6\u00dfe(y):\n    return y.l\u00e4nge.tiefe\n"],
}
OPTS = [[], ["-f", "0"], ["-x", "top.*"], ["-F", "direct"], ["-F", "trans"], ["-f", "2"], ["-x", "df"], ["-F", "pkg.*"], ["-F", "vendorlib"]]
N_RANDOM_OPTS = 8        # the option sets random histories draw from; the later ones belong to scripted histories
VERSIONS = [None, "9.9.9"]
PLUGINS = [None, "a", "b"]
MUT_VALUES = [None, 3, True, "s", "", [], [1], {}, {"a": 1}]
TOP_FIELDS = ["version", "arguments_hash", "plugins_hash", "filepath", "filehash", "imports", "results"]


def optstr(opts) -> str:
    return " ".join(opts) if opts else "default"


def md5(b: bytes) -> str:
    return hashlib.md5(b).hexdigest()


def env_for(version, plugin) -> dict:
    e = {}
    if version:
        e["RATTR_VERIF_FAKE_VERSION"] = version
    if plugin:
        e["RATTR_VERIF_EXTRA_PLUGIN"] = PLUGIN[plugin]
    return e


_global_env_for = env_for


# ---- Coq terms -----------------------------------------------------------------------------
class HashMaps:
    """md5 of the option set / plugin set (as real rattr computed it in from-scratch runs) -> the harness's
    own injective spelling, which is what the model's world carries."""

    def __init__(self):
        self.args: dict[str, set[str]] = {}
        self.plugins: dict[str, set[str]] = {}

    def learn(self, doc: dict, ostr: str, pstr: str) -> None:
        self.args.setdefault(doc["arguments_hash"], set()).add(ostr)
        self.plugins.setdefault(doc["plugins_hash"], set()).add(pstr)

    def collisions(self):
        return [("options", sorted(v)) for v in self.args.values() if len(v) > 1] + \
               [("plugins", sorted(v)) for v in self.plugins.values() if len(v) > 1]

    def map_doc(self, j):
        if not isinstance(j, dict):
            return j
        j = dict(j)
        for key, table in (("arguments_hash", self.args), ("plugins_hash", self.plugins)):
            v = j.get(key)
            if isinstance(v, str) and v in table:
                j[key] = sorted(table[v])[0]
        return j


def asciify(j):
    """Injective ASCII spelling of the strings of a JSON value (Coq literals here are printable ASCII)."""
    if isinstance(j, str):
        return "".join(ch if 32 <= ord(ch) < 127 and ch != "\\" else f"\\u{ord(ch):04x}" for ch in j)
    if isinstance(j, list):
        return [asciify(x) for x in j]
    if isinstance(j, dict):
        return {asciify(k): asciify(v) for k, v in j.items()}
    return j


def has_float(j) -> bool:
    if isinstance(j, float):
        return True
    if isinstance(j, list):
        return any(has_float(x) for x in j)
    if isinstance(j, dict):
        return any(has_float(x) for x in j.values())
    return False


def c_disk(data: bytes | None, maps: HashMaps) -> str:
    if data is None:
        return "DAbsent"
    try:
        j = json.loads(data.decode("utf-8"))
    except Exception:  # noqa: BLE001
        return "DNotJson"
    if has_float(j):
        raise ValueError("float in cache document")
    return f"(DJson {c_json(asciify(maps.map_doc(j)))})"


# ---- one history -----------------------------------------------------------------------------
def gen_ops(rng: random.Random, project: str, n: int) -> list[tuple]:
    files = PROJECTS[project]
    ops: list[tuple] = [("run",)]
    kinds = ["run"] * 7 + ["refresh"] + ["edit"] * 6 + ["opts"] * 2 + ["version", "plugin", "remove"] + ["overwrite"] * 3
    while len(ops) < n:
        k = rng.choice(kinds)
        if k == "edit":
            f = rng.choice(sorted(files))
            ops.append(("edit", f, rng.randrange(len(files[f]))))
        elif k == "opts":
            ops.append(("opts", rng.randrange(N_RANDOM_OPTS)))
        elif k == "version":
            ops.append(("version", rng.choice(VERSIONS)))
        elif k == "plugin":
            ops.append(("plugin", rng.choice(PLUGINS)))
        elif k == "overwrite":
            ops.append(("overwrite", rng.choice(["truncate", "garbage", "whole", "field", "delete", "import_field", "restore", "emptied"]), rng.randrange(1 << 30)))
        else:
            ops.append((k,))
        if k not in ("run", "refresh") and rng.random() < 0.7:
            ops.append(("run",))
    return ops[:n] + [("run",)]


def mutate(kind: str, seed: int, current: bytes | None, written: list[bytes]) -> tuple[bytes, str]:
    """The bytes an outside actor leaves in the cache file, and a label."""
    r = random.Random(seed)
    doc = None
    if current is not None:
        try:
            doc = json.loads(current)
        except Exception:  # noqa: BLE001
            doc = None
    if kind == "restore" and written:
        return r.choice(written), "restore an older document"
    if kind == "truncate" and current:
        k = r.randrange(len(current))
        return current[:k], f"truncate at byte {k} of {len(current)}"
    if kind == "whole":
        v = r.choice(MUT_VALUES)
        return json.dumps(v).encode(), f"document := {v!r}"
    if not isinstance(doc, dict) or kind == "garbage":
        g = r.choice([b"", b"\x00\xff\xfe", b"not json", b"{", b"[1, 2", b'{"version": '])
        return g, f"garbage {g!r}"
    doc = copy.deepcopy(doc)
    if kind == "field":
        f = r.choice(TOP_FIELDS)
        v = r.choice([x for x in MUT_VALUES if jtype(x) != jtype(doc.get(f))])
        doc[f] = v
        label = f"{f} := {v!r}"
    elif kind == "delete":
        f = r.choice(TOP_FIELDS)
        doc.pop(f, None)
        label = f"delete {f}"
    elif kind == "emptied":
        f, v = r.choice([("imports", {}), ("imports", ""), ("imports", None), ("results", None)])
        if v is None:
            doc.pop(f, None)
            label = f"delete {f}"
        else:
            doc[f] = v
            label = f"{f} := {v!r}"
    else:  # import_field
        if isinstance(doc.get("imports"), list) and doc["imports"]:
            i = r.randrange(len(doc["imports"]))
            f = r.choice(["filepath", "filehash", None])
            v = r.choice([x for x in MUT_VALUES if jtype(x) not in ("dict" if f is None else "str",)])
            if f is None:
                doc["imports"][i] = v
                label = f"imports[{i}] := {v!r}"
            elif isinstance(doc["imports"][i], dict):
                doc["imports"][i][f] = v
                label = f"imports[{i}].{f} := {v!r}"
            else:
                label = "unchanged"
        else:
            label = "unchanged"
    return json.dumps(doc, indent=4).encode(), label


def is_emptied(label: str) -> bool:
    return label in ("delete imports", "delete results", "imports := {}", "imports := ''") or (label.startswith("delete imports[") and label.endswith(".filepath"))


def doc_is_emptied(data: bytes) -> bool:
    """Finding class KF_C19_2, judged on what the cache file holds: an object that lacks (or has emptied) imports or
    results, or an import entry without filepath."""
    try:
        d = json.loads(data)
    except Exception:  # noqa: BLE001
        return False
    if not isinstance(d, dict):
        return False
    if "imports" not in d or "results" not in d or d["imports"] in ({}, "") :
        return True
    if isinstance(d["imports"], list) and any(isinstance(i, dict) and "filepath" not in i for i in d["imports"]):
        return True
    return False


def jtype(v) -> str:
    return "null" if v is None else "bool" if isinstance(v, bool) else type(v).__name__


def lookup(doc, path):
    for k in path:
        doc = doc[k]
    return doc


def damaged(original: dict, label: str) -> bool:
    """Is this mutation one the property quantifies over?  Truncation, garbage, deletion of a key, or a
    value replaced by one of another JSON type; same-type value edits (tampering) are not."""
    if label in ("original", "extra key", "unchanged", "absent") or label.startswith("restore"):
        return False
    if " := " not in label:
        return True
    where, val = label.split(" := ", 1)
    v = eval(val, {"__builtins__": {}}, {})  # noqa: S307 - our own repr of a JSON literal
    if where == "document":
        return jtype(v) != "dict"
    path = []
    for part in where.replace("]", "").replace("[", ".").split("."):
        path.append(int(part) if part.isdigit() else part)
    try:
        return jtype(lookup(original, path)) != jtype(v)
    except (KeyError, IndexError, TypeError):
        return True


def run_history(job) -> dict:
    hid, project, ops, root = job
    root = Path(root)
    root.mkdir(parents=True)
    files = PROJECTS[project]
    state = {f: 0 for f in files}
    for f, variants in files.items():
        p = root / f
        p.parent.mkdir(parents=True, exist_ok=True)
        p.write_text(variants[0])
    cache = root / "cache.json"
    opts, version, plugin = 0, None, None
    search_path = {"PYTHONPATH": os.pathsep.join([str(C.REPO), str(root / VENDOR_DIR)])} if (root / VENDOR_DIR).is_dir() else {}

    def env_for(version, plugin):      # the project's own site-packages directory is on the module search path
        return {**_global_env_for(version, plugin), **search_path}

    fresh: dict[tuple, dict] = {}
    written: list[bytes] = []
    log, runs = [], []

    def world_key():
        return (tuple(sorted(state.items())), opts, version, plugin)

    def fresh_doc():
        k = world_key()
        if k not in fresh:
            r = D.run_rattr(root, ["-w", "none", "-o", "cacheable", *OPTS[opts], "target.py"], extra_env=env_for(version, plugin))
            try:
                doc = json.loads(r["stdout"])
            except Exception:  # noqa: BLE001
                doc = None
            fresh[k] = {"doc": doc, "stdout": r["stdout"], "exit": r["exit"], "stderr": r["stderr"][-600:]}
        return fresh[k]

    for op in ops:
        if op[0] == "edit":
            state[op[1]] = op[2]
            (root / op[1]).write_text(files[op[1]][op[2]])
            log.append({"op": "edit", "file": op[1], "variant": op[2], "md5": md5(files[op[1]][op[2]].encode())})
        elif op[0] == "opts":
            opts = op[1]
            log.append({"op": "opts", "opts": OPTS[opts]})
        elif op[0] == "version":
            version = op[1]
            log.append({"op": "version", "version": version})
        elif op[0] == "plugin":
            plugin = op[1]
            log.append({"op": "plugin", "plugin": plugin})
        elif op[0] == "remove":
            cache.unlink(missing_ok=True)
            log.append({"op": "remove"})
        elif op[0] == "overwrite":
            cur = cache.read_bytes() if cache.exists() else None
            data, label = mutate(op[1], op[2], cur, written)
            cache.write_bytes(data)
            log.append({"op": "overwrite", "label": label, "hex": data.hex()})
        else:
            refresh = op[0] == "refresh"
            args = ["-w", "none", "-o", "silent", "-C", "cache.json", *(["-r"] if refresh else []), *OPTS[opts], "target.py"]
            r = D.run_rattr(root, args, extra_env=env_for(version, plugin))
            events = (r["trace"] or {}).get("events", [])
            hit = any("cache is up-to-date" in e["message"] for e in events)
            after = cache.read_bytes() if cache.exists() else None
            fd = fresh_doc()
            if after is not None and after not in written:
                written.append(after)
            entry = {"op": "refresh" if refresh else "run", "args": args, "env": env_for(version, plugin), "exit": r["exit"],
                     "exception": (r["trace"] or {}).get("outcome", {}).get("exception"), "hit": hit,
                     "after_hex": None if after is None else after.hex(), "world": [list(x) for x in world_key()[0]],
                     "opts": OPTS[opts], "version": version, "plugin": plugin, "fresh": fd,
                     "stderr": r["stderr"][-400:] if r["exit"] != 0 else ""}
            log.append(entry)
            runs.append(entry)
    return {"id": hid, "project": project, "root": str(root), "log": log}


def history_term(h: dict, maps: HashMaps, real_version: str):
    """Coq hist_case for one executed history (None if it cannot be expressed)."""
    root = Path(h["root"])
    files = PROJECTS[h["project"]]
    proj_paths = sorted(str(root / f) for f in files)
    paths = ["target.py"] + proj_paths
    init = {"target.py": md5(files["target.py"][0].encode())}
    for f in files:
        init[str(root / f)] = md5(files[f][0].encode())
    # external origins mentioned in any document keep their content during the history
    externals = set()
    for e in h["log"]:
        docs = []
        if e["op"] in ("run", "refresh"):
            docs.append((e["fresh"] or {}).get("doc"))
            if e["after_hex"]:
                try:
                    docs.append(json.loads(bytes.fromhex(e["after_hex"])))
                except Exception:  # noqa: BLE001
                    pass
        for d in docs:
            if isinstance(d, dict) and isinstance(d.get("imports"), list):
                for i in d["imports"]:
                    if isinstance(i, dict) and isinstance(i.get("filepath"), str):
                        externals.add(i["filepath"])
    for p in externals:
        if p not in init and os.path.isfile(p):
            init[p] = md5(Path(p).read_bytes())
    cur = dict(init)
    cur_opts, cur_version, cur_plugin = "default", real_version, "none"
    ops, obs, oracle = [], [], {}
    for e in h["log"]:
        if e["op"] == "edit":
            p = str(root / e["file"])
            ops.append(f"(HEdit {C.cstr(asciify(p))} {C.cstr(e['md5'])})")
            cur[p] = e["md5"]
            if e["file"] == "target.py":
                ops.append(f"(HEdit \"target.py\" {C.cstr(e['md5'])})")
                cur["target.py"] = e["md5"]
        elif e["op"] == "opts":
            cur_opts = optstr(e["opts"])
            ops.append(f"(HArgs {C.cstr(cur_opts)})")
        elif e["op"] == "version":
            cur_version = e["version"] or real_version
            ops.append(f"(HVersion {C.cstr(cur_version)})")
        elif e["op"] == "plugin":
            cur_plugin = e["plugin"] or "none"
            ops.append(f"(HPlugins {C.cstr(cur_plugin)})")
        elif e["op"] == "remove":
            ops.append("HRemove")
        elif e["op"] == "overwrite":
            ops.append(f"(HOverwrite {c_disk(bytes.fromhex(e['hex']), maps)})")
        else:
            ops.append("HRefresh" if e["op"] == "refresh" else "HRun")
            after = None if e["after_hex"] is None else bytes.fromhex(e["after_hex"])
            obs.append(f"({C.cbool(e['hit'])}, {c_disk(after, maps)})")
            fd = e["fresh"]["doc"]
            if not isinstance(fd, dict):
                return None
            fp = "|".join([cur_version, cur_opts, cur_plugin, "target.py"] + [cur.get(p, EMPTY_MD5) for p in paths])
            oracle[fp] = (C.cstrs([asciify(i["filepath"]) for i in fd["imports"]]), c_json(asciify(fd["results"])))
    orc = C.clist(f"({C.cstr(k)}, ({v[0]}, {v[1]}))" for k, v in oracle.items())
    return (f"(mkHist \"target.py\" {C.cdict({asciify(k): v for k, v in init.items()})} {C.cstr(EMPTY_MD5)} \"default\" \"none\" {C.cstr(real_version)} "
            f"{C.cstrs([asciify(p) for p in paths])} {orc} {C.clist(ops)} {C.clist(obs)})")


# ---- mutation suite ---------------------------------------------------------------------------
def all_mutations(original: bytes) -> list[tuple[str, bytes | None]]:
    doc = json.loads(original)
    out: list[tuple[str, bytes | None]] = [("original", original), ("absent", None)]
    for k in range(len(original)):
        out.append((f"truncate at byte {k}", original[:k]))
    for g in (b"\x00\xff\xfe", b"not json", b"{", b"[1, 2", b"\xef\xbb\xbf{}"):
        out.append((f"garbage {g!r}", g))
    for v in MUT_VALUES:
        out.append((f"document := {v!r}", json.dumps(v).encode()))

    def emit(label, d):
        out.append((label, json.dumps(d, indent=4).encode()))
    for f in TOP_FIELDS:
        for v in MUT_VALUES:
            d = copy.deepcopy(doc)
            d[f] = v
            emit(f"{f} := {v!r}", d)
        d = copy.deepcopy(doc)
        del d[f]
        emit(f"delete {f}", d)
    for i in range(len(doc["imports"])):
        for v in MUT_VALUES:
            d = copy.deepcopy(doc)
            d["imports"][i] = v
            emit(f"imports[{i}] := {v!r}", d)
            for f in ("filepath", "filehash"):
                d = copy.deepcopy(doc)
                d["imports"][i][f] = v
                emit(f"imports[{i}].{f} := {v!r}", d)
        for f in ("filepath", "filehash"):
            d = copy.deepcopy(doc)
            del d["imports"][i][f]
            emit(f"delete imports[{i}].{f}", d)
    for fn in list(doc["results"])[:2]:
        for v in MUT_VALUES:
            d = copy.deepcopy(doc)
            d["results"][fn] = v
            emit(f"results.{fn} := {v!r}", d)
            d = copy.deepcopy(doc)
            d["results"][fn]["gets"] = v
            emit(f"results.{fn}.gets := {v!r}", d)
        d = copy.deepcopy(doc)
        del d["results"][fn]["calls"]
        emit(f"delete results.{fn}.calls", d)
    d = copy.deepcopy(doc)
    d["extra_key"] = 1
    emit("extra key", d)
    return out


def probe(root: Path, cases: list[bytes | None], opts, version=None) -> list[dict]:
    cp, op = root / "probe_cases.json", root / "probe_out.json"
    cp.write_text(json.dumps([{"hex": None if c is None else c.hex()} for c in cases]))
    env = dict(os.environ)
    env.update({"PYTHONPATH": str(C.REPO), "RATTR_REPO": str(C.REPO), "PYTHONHASHSEED": "0", "PYTHONDONTWRITEBYTECODE": "1"})
    env.pop("RATTR_VERIF_FAKE_VERSION", None)
    if version:
        env["RATTR_VERIF_FAKE_VERSION"] = version
    p = subprocess.run([C.PY, PROBE, str(cp), str(op), "--", "-w", "none", "-C", "cache.json", *opts, "target.py"],
                       cwd=root, env=env, capture_output=True, text=True, timeout=600)
    if not op.exists():
        raise RuntimeError("cache probe failed: " + p.stderr[-800:])
    return json.loads(op.read_text())


def mutation_suite(job) -> dict:
    mid, project, opts, root, stride = job
    root = Path(root)
    root.mkdir(parents=True)
    files = PROJECTS[project]
    for f, variants in files.items():
        p = root / f
        p.parent.mkdir(parents=True, exist_ok=True)
        p.write_text(variants[0])
    r = D.run_rattr(root, ["-w", "none", "-o", "silent", "-C", "cache.json", *opts, "target.py"])
    original = (root / "cache.json").read_bytes()
    muts = all_mutations(original)
    if stride > 1:   # quick tier: every stride-th truncation offset (plus the first and last 40)
        n = len(original)
        muts = [m for i, m in enumerate(muts) if not m[0].startswith("truncate") or (i - 2) % stride == 0 or (i - 2) < 40 or (i - 2) > n - 40]
    res = probe(root, [m[1] for m in muts], opts)
    rows = [{"label": l, "hex": None if b is None else b.hex(), "world_changed": False, "change": None, **x} for (l, b), x in zip(muts, res)]
    # the world changes after the cache was written: the original and the emptied documents
    doc = json.loads(original)
    emptied = []
    for f, v in (("imports", None), ("imports", {}), ("results", None)):
        d = copy.deepcopy(doc)
        if v is None:
            del d[f]
        else:
            d[f] = v
        emptied.append((f"delete {f}" if v is None else f"{f} := {v!r}", json.dumps(d, indent=4).encode()))
    second = [("original", original)] + emptied
    changes = [f for f in files if f != "unrelated.py" and len(files[f]) > 1]
    recorded = {i["filepath"] for i in doc["imports"]}
    for f in changes:
        (root / f).write_text(files[f][1])
        res = probe(root, [b for _, b in second], opts)
        # the edit matters to the cache only if the file is the target or one of the recorded origins (at -f 0 a transitive
        # import is neither analysed nor recorded: it did not feed the cached results)
        relevant = f == "target.py" or str(root / f) in recorded
        rows += [{"label": l, "hex": b.hex(), "world_changed": relevant, "change": f"{f} edited" + ("" if relevant else " (not among the recorded origins)"), "md5s": {f: md5(files[f][1].encode())}, **x}
                 for (l, b), x in zip(second, res)]
        (root / f).write_text(files[f][0])
    other = ["-f", "0"] if opts != ["-f", "0"] else []
    res = probe(root, [b for _, b in second], other)
    rows += [{"label": l, "hex": b.hex(), "world_changed": True, "change": f"options {other}", "opts": other, **x} for (l, b), x in zip(second, res)]
    res = probe(root, [b for _, b in second], opts, version="9.9.9")
    rows += [{"label": l, "hex": b.hex(), "world_changed": True, "change": "version 9.9.9", "version": "9.9.9", **x} for (l, b), x in zip(second, res)]
    return {"id": mid, "project": project, "opts": opts, "root": str(root), "original_hex": original.hex(), "rows": rows, "first_run_exit": r["exit"]}


def main(tier: str) -> int:
    T = C.Timer()
    rng = random.Random(C.SEED)
    V = C.Verdict(PROP)
    build = C.coq_build(MODEL_FILES + PROOF_FILES)
    if any(t in build.failed for t in MODEL_FILES):
        raise SystemExit("internal error: model/spec files do not compile:\n" + build.log)
    n_obl, n_done, broken = C.obligations_from(build, PROOF_FILES)

    n_hist, n_ops = (20, 12) if tier == "quick" else (160, 18)
    stride = 7 if tier == "quick" else 1
    projects = sorted(PROJECTS)
    with D.Scratch() as scratch:
        jobs = [(i, projects[i % len(projects)], gen_ops(rng, projects[i % len(projects)], n_ops), str(scratch / f"h{i}")) for i in range(n_hist)]
        jobs += [(n_hist + j, p, ops, str(scratch / f"s{j}")) for j, (p, ops) in enumerate(SCRIPTED)]
        mjobs = [(i, p, o, str(scratch / f"m{i}"), stride) for i, (p, o) in enumerate(
            [("chain", []), ("package", []), ("star", ["-x", "top.*"]), ("reexport", []), ("unicode", [])] if tier == "quick"
            else [(p, o) for p in projects if p not in SCRIPTED_PROJECTS for o in ([], ["-f", "0"], ["-x", "top.*"], ["-f", "2"])])]
        hists = D.pmap(run_history, jobs)
        msuites = D.pmap(mutation_suite, mjobs)

    # -- real version, hash tables ----------------------------------------------------------
    maps = HashMaps()
    real_version = None
    for h in hists:
        for e in h["log"]:
            if e["op"] in ("run", "refresh") and isinstance(e["fresh"]["doc"], dict):
                fd = e["fresh"]["doc"]
                maps.learn(fd, optstr(e["opts"]), e["plugin"] or "none")
                if e["version"] is None:
                    real_version = fd["version"]
    for m in msuites:
        maps.learn(json.loads(bytes.fromhex(m["original_hex"])), optstr(m["opts"]), "none")
        real_version = real_version or json.loads(bytes.fromhex(m["original_hex"]))["version"]
    for what, group in maps.collisions():
        V.violation({"property": PROP, "why": f"two different analysis-relevant {what} have the same hash in the cache document: a change between them cannot invalidate the cache",
                     "colliding": group})

    # -- python-side: crashes, cache after run == fresh document -----------------------------------
    n_runs = n_hits = 0
    crashes, stale = [], []
    kf_hist = set()
    op_hist = {}
    for h in hists:
        emptied_seen = False     # the cache file currently holds a document of the finding class, untouched since
        for i, e in enumerate(h["log"]):
            op_hist[e["op"]] = op_hist.get(e["op"], 0) + 1
            if e["op"] in ("overwrite", "remove"):
                emptied_seen = e["op"] == "overwrite" and doc_is_emptied(bytes.fromhex(e["hex"]))
            if e["op"] not in ("run", "refresh"):
                continue
            n_runs += 1
            n_hits += e["hit"]
            if e["exit"] != 0 or e["exception"]:
                crashes.append({"history": h["id"], "project": h["project"], "step": i, "exit": e["exit"], "exception": e["exception"], "stderr": e["stderr"], "log": strip(h["log"][: i + 1])})
            fresh_out = e["fresh"]["stdout"].rstrip("\n")
            after = None if e["after_hex"] is None else bytes.fromhex(e["after_hex"]).decode("utf-8", "replace")
            if after != fresh_out:
                stale.append({"history": h["id"], "project": h["project"], "step": i, "hit": e["hit"], "emptied_document_in_history": emptied_seen,
                              "log": strip(h["log"][: i + 1]), "cache_after": after, "fresh": fresh_out})
                if emptied_seen:
                    kf_hist.add(h["id"])
            if not e["hit"]:
                emptied_seen = False     # the run rewrote the file

    # -- Coq judgement of the histories -----------------------------------------------------------
    hcases, hmeta = [], []
    for h in hists:
        t = history_term(h, maps, real_version)
        if t is not None:
            hcases.append(t)
            hmeta.append(h)
    hcodes = C.coq_eval_codes("c19h", HEADER, "hist_case", "hist_code", hcases, shard=8)
    h_corr = [m for c, m in zip(hcodes, hmeta) if c & 1]
    h_spec = [m for c, m in zip(hcodes, hmeta) if c & 2]
    h_oracle = [m for c, m in zip(hcodes, hmeta) if c & 4]
    if h_oracle:
        raise SystemExit(f"internal error: oracle table incomplete for history {h_oracle[0]['id']}")

    # -- Coq judgement of the mutation suites -------------------------------------------------------
    defs, mcases, mmeta = [], [], []
    for m in msuites:
        root = Path(m["root"])
        files = PROJECTS[m["project"]]
        original = json.loads(bytes.fromhex(m["original_hex"]))
        base = {"target.py": md5(files["target.py"][0].encode())}
        for f in files:
            base[str(root / f)] = md5(files[f][0].encode())
        for i in original["imports"]:
            p = i["filepath"]
            if p not in base and os.path.isfile(p):
                base[p] = md5(Path(p).read_bytes())
        defs.append(f"Definition orig{m['id']} : json := {c_json(asciify(maps.map_doc(original)))}.")
        for row in m["rows"]:
            fl = dict(base)
            for f, h5 in row.get("md5s", {}).items():
                fl[str(root / f)] = h5
                if f == "target.py":
                    fl["target.py"] = h5
            o = optstr(row.get("opts", m["opts"]))
            ver = row.get("version") or real_version
            data = None if row["hex"] is None else bytes.fromhex(row["hex"])
            mcases.append(f"(mkMut \"target.py\" {C.cdict({asciify(k): v for k, v in fl.items()})} {C.cstr(EMPTY_MD5)} {C.cstr(o)} \"none\" {C.cstr(ver)} orig{m['id']} "
                          f"{c_disk(data, maps)} {C.cbool(row['world_changed'])} {C.cbool(damaged(original, row['label']))} {C.cbool(row['hit'])})")
            mmeta.append({"suite": m["id"], "project": m["project"], "opts": m["opts"], "mutation": row["label"], "change": row["change"],
                          "hit": row["hit"], "exception": row["exception"], "cache_file_hex": row["hex"] if row["hex"] is None or len(row["hex"]) < 6000 else row["hex"][:6000] + "..."})
    mcodes = C.coq_eval_codes("c19m", HEADER + "\n".join(defs) + "\n", "mut_case", "mut_code", mcases, shard=400)
    m_corr = [x for c, x in zip(mcodes, mmeta) if c & 1]
    m_spec_new = [x for c, x in zip(mcodes, mmeta) if (c & 2) and not ((c & 4) and not (c & 1))]
    m_spec_known = [x for c, x in zip(mcodes, mmeta) if (c & 2) and (c & 4) and not (c & 1)]
    m_crash = [x for x in mmeta if x["exception"]]

    # -- verdict ---------------------------------------------------------------------------------------
    for c in crashes[:3]:
        V.violation({"property": PROP, "why": "a run with a cache file crashed / exited non-zero", **c})
    for c in m_crash[:3]:
        V.violation({"property": PROP, "why": "target_cache_file_is_up_to_date raised on a damaged cache file instead of treating it as stale", **c})
    corr_ids = {m["id"] for m in h_corr}
    new_stale = [s for s in stale if not (s["emptied_document_in_history"] and s["history"] not in corr_ids)]
    for s in new_stale[:3]:
        V.violation({"property": PROP, "why": "after a run the cache file differs from a from-scratch run in the same world"
                     + (" - the run declared the cache up to date" if s["hit"] else ""), **s})
    for x in m_spec_new[:3]:
        V.violation({"property": PROP, "why": "the cache was declared up to date although the file no longer holds the written document / the world changed", **x})
    spec_ids = {s["history"] for s in stale}
    for m in h_spec:
        if m["id"] not in spec_ids and m["id"] not in corr_ids:
            V.violation({"property": PROP, "why": "the cache document after a run is not the from-scratch document of that world (model-side comparison)", "history": m["id"], "log": strip(m["log"])})
    if not V.violations:
        if h_corr or m_corr:
            V.violation({"property": PROP, "broken": "correspondence suites c19h / c19m (model/Cache.v, model/CacheJson.v vs real runs)",
                         "history_disagreements": len(h_corr), "predicate_disagreements": len(m_corr),
                         "first": (m_corr[0] if m_corr else {"history": h_corr[0]["id"], "log": strip(h_corr[0]["log"])})}, failing_input=False)
        elif broken:
            V.violation({"property": PROP, "broken": broken, "errors": build.failed, "why": "proof obligation no longer checks"}, failing_input=False)
    for f in C.known_findings(PROP):
        if m_spec_known or kf_hist:
            V.known(f"{f['id']}: {f['what']}")
        else:
            V.notes.append(f"listed finding {f['id']} did not reproduce in this run")
    pa = C.print_assumptions("props/C19.v") if "props/C19.v" in build.ok_targets else ""
    labels = {}
    for x in mmeta:
        k = x["mutation"].split(" at byte")[0].split(" := ")[0]
        labels[k] = labels.get(k, 0) + 1
    C.write_evidence(PROP, coverage={
        "obligations": max(n_obl, 1), "discharged": n_done, "checker_cmd": "cd /verif/coq && make props/C19.vo",
        "trusted_base": C.TRUSTED_BASE_COMMON + [
            "theorem parameters (Section variables, not axioms): file contents and hash with hash_injective (md5 collisions are outside the model); the analysis as a function of the world with the FRAME hypothesis - tested on every run of every history here (cache file after the run = from-scratch document)",
            "cattrs structuring is modelled at the level that decides hit / no hit (model/CacheJson.v), compared on every mutation listed under mutation_kinds; Python's json decides what is JSON",
            "version and plugin-set changes are arranged by the harness driver (module attribute patched / user analyser registered through rattr's public API), not by editing /repo"],
        "evaluations": n_runs + len(mcases), "distinct_nontrivial": len(set(hcases)) + len(set(mcases)),
        "rule": "histories: random sequences over {edit target | direct | transitive | package __init__ | star-imported | unrelated file (to any of its variants, reverts included), change -f / -F / -x, change version, change plugin set, delete cache, overwrite cache (truncate, garbage, non-object document, type mutation / deletion of a field, of an import entry, emptied imports / results, restore an older document), run, run -r} on three projects, every run a real subprocess; "
                "predicate: every truncation offset (thorough; every 7th + both ends in quick) and every type-level mutation (9 values) / deletion of every top-level field, every import entry and entry field, results entries, on real cache files, then the original and emptied documents after each relevant world change",
        "histories": len(hists), "history_ops": op_hist, "runs": n_runs, "hits_declared": n_hits, "fresh_runs": sum(len({json.dumps(e['world']) + str(e['opts']) + str(e['version']) + str(e['plugin']) for e in h['log'] if e['op'] in ('run', 'refresh')}) for h in hists),
        "predicate_cases": len(mcases), "mutation_kinds": labels,
        "traces_validated_against_impl": len(hcases) + len(mcases), "disagreements_checked": len(h_corr) + len(m_corr),
        "crashes": len(crashes) + len(m_crash), "stale_cache_after_run_new": len(new_stale), "stale_cache_after_run_known_class": len(stale) - len(new_stale),
        "hit_on_changed_or_damaged_new": len(m_spec_new), "hit_on_emptied_document_known_class": len(m_spec_known),
        "print_assumptions": pa, "broken_obligation_files": broken,
        "samples": [strip(hists[0]["log"])[:6] if hists else None]},
        wall_s=T.s, assumptions=["md5 treated as injective", "paths printable ASCII", "default badness threshold (a run that exceeds the threshold exits before writing the cache and is outside the model)"],
        violations=len(V.violations))
    return V.finish()


def strip(log: list[dict]) -> list[dict]:
    out = []
    for e in log:
        e = {k: v for k, v in e.items() if k not in ("fresh", "after_hex")}
        if "hex" in e and len(e["hex"]) > 4000:
            e["hex"] = e["hex"][:4000] + "..."
        out.append(e)
    return out
