"""C05 - results are deterministic and independent of definition order and unrelated code."""
import hashlib
import random

import common as C
import diaglib as D
import res_lib as R
import res_run
import root_run


def hashseed_runs(programs, seeds):
    """Real `python -m rattr -o results` subprocesses under several PYTHONHASHSEED values."""
    out = []
    with D.Scratch() as root:
        jobs = []
        for i, (name, src) in enumerate(programs):
            d = root / f"h{i}"
            d.mkdir()
            (d / "target.py").write_text(src)
            for s in seeds:
                jobs.append((name, src, d, s))
        runs = D.pmap(lambda j: D.run_rattr(j[2], ["-w", "none", "-o", "results", "target.py"], hashseed=j[3]), jobs)
        by = {}
        for (name, src, d, s), r in zip(jobs, runs):
            by.setdefault(name, {"source": src, "outs": {}})["outs"][s] = (r["exit"], r["stdout"])
        for name, v in by.items():
            distinct = {hashlib.sha256(repr(o).encode()).hexdigest()[:10] for o in v["outs"].values()}
            out.append({"program": name, "source": v["source"], "distinct_outputs": len(distinct),
                        "exits": sorted({o[0] for o in v["outs"].values()})})
    return out


def multi_module_runs(tier: str):
    """Fixed multi-module scenarios as real subprocesses: every reordering of the listed files' top-level
    definitions x hash seeds; each function's results must be identical in all runs and equal to the expectation."""
    import ast
    import itertools
    import json

    import multi_scen
    seeds = [0, 1, 2] if tier == "quick" else list(range(6))
    jobs, out = [], []
    with D.Scratch() as root:
        for name, sc in multi_scen.SCENARIOS.items():
            variants = [("as written", dict(sc["files"]))]
            for f in sc["reorder"]:
                tree = ast.parse(sc["files"][f])
                heads = [ast.get_source_segment(sc["files"][f], n) for n in tree.body if isinstance(n, (ast.Import, ast.ImportFrom))]
                defs = [ast.get_source_segment(sc["files"][f], n) for n in tree.body if not isinstance(n, (ast.Import, ast.ImportFrom))]
                perms = list(itertools.permutations(range(len(defs))))[1:4]
                for pi, perm in enumerate(perms):
                    files = dict(sc["files"])
                    files[f] = "\n".join(heads) + "\n\n" + "\n\n".join(defs[i] for i in perm) + "\n"
                    variants.append((f"{f} definitions in order {perm}", files))
                files = dict(sc["files"])
                files[f] = files[f] + "\n\ndef unrelated_extra(q):\n    return q.unrelated\n"
                variants.append((f"{f} with an unrelated definition", files))
                # unrelated definitions the scenario names itself (e.g. spelled like a helper that is private to an imported module)
                for ui, extra in enumerate(sc.get("unrelated", {}).get(f, [])):
                    files = dict(sc["files"])
                    files[f] = files[f] + "\n\n" + extra
                    variants.append((f"{f} with the unrelated definition #{ui}", files))
            for vi, (label, files) in enumerate(variants):
                d = root / f"{name}_{vi}"
                d.mkdir()
                for fn, src in files.items():
                    (d / fn).parent.mkdir(parents=True, exist_ok=True)
                    (d / fn).write_text(src)
                for s in seeds:
                    jobs.append((name, label, files, d, s))
        runs = D.pmap(lambda j: D.run_rattr(j[3], ["-w", "none", "-o", "results", "target.py"], hashseed=j[4]), jobs)
    by = {}
    for (name, label, files, d, s), r in zip(jobs, runs):
        try:
            doc = json.loads(r["stdout"]) if r["exit"] == 0 else None
        except Exception:  # noqa: BLE001
            doc = None
        by.setdefault(name, []).append({"variant": label, "seed": s, "files": files, "exit": r["exit"], "doc": doc, "stderr": r["stderr"][-300:]})
    for name, rs in by.items():
        exp = multi_scen.SCENARIOS[name]["expect"]
        for fn, want in exp.items():
            seen = {}
            for r in rs:
                got = None if r["doc"] is None else r["doc"].get(fn)
                key = json.dumps(got, sort_keys=True)
                seen.setdefault(key, r)
                if got is None or any(got[k] != want[k] for k in ("gets", "sets", "dels")):
                    out.append({"scenario": name, "function": fn, "why": "results differ from what the program does", "expected": want, "got": got,
                                "variant": r["variant"], "PYTHONHASHSEED": r["seed"], "files": r["files"], "exit": r["exit"], "stderr": r["stderr"]})
                    break
            if len(seen) > 1:
                a, b = list(seen.values())[:2]
                out.append({"scenario": name, "function": fn, "why": "results differ between runs (definition order / unrelated definition / hash seed)",
                            "run_a": {"variant": a["variant"], "PYTHONHASHSEED": a["seed"], "results": None if a["doc"] is None else a["doc"].get(fn)},
                            "run_b": {"variant": b["variant"], "PYTHONHASHSEED": b["seed"], "results": None if b["doc"] is None else b["doc"].get(fn)},
                            "files_a": a["files"], "files_b": b["files"]})
    return out, len(jobs)


def main(tier: str) -> int:
    prop = "C05"
    T = C.Timer()
    V = C.Verdict(prop)
    proof_files = ["proofs/ResProofs.v", "proofs/RootProofs.v", "props/C05.v"]
    build = C.coq_build(res_run.MODEL_FILES + root_run.MODEL_FILES + proof_files)
    if any(t in build.failed for t in res_run.MODEL_FILES):
        raise SystemExit("internal error: model/spec files do not compile:\n" + build.log)
    n_obl, n_done, broken = C.obligations_from(build, proof_files)
    res = res_run.run(tier)
    code_of = {(m["program"], m["variant"]): c for c, m in res["cases"]}
    corr_fail = [m for c, m in res["cases"] if c & 1]

    new, known, known_static = [], [], []
    n_variants = 0
    for g in res["groups"]:
        base_label, base, _, base_ir = g["variants"][0] if g["variants"] else (None, None, None, None)
        if base is None:
            continue
        own_fns = [k for k in base]
        diffs = []
        ir_diffs = []         # the analysis phase itself (IR before result generation) depends on the variant
        for label, r, r2, ir0 in g["variants"]:
            n_variants += 1
            for fn in own_fns:
                if ir0.get(fn) != base_ir.get(fn):
                    ir_diffs.append({"function": fn, "variant_a": base_label, "variant_b": label, "ir_a": base_ir.get(fn), "ir_b": ir0.get(fn)})
            if r is None:
                continue
            for fn in own_fns:
                if r.get(fn) != base.get(fn):
                    diffs.append({"function": fn, "variant_a": base_label, "variant_b": label, "results_a": base.get(fn), "results_b": r.get(fn)})
            if r2 is not None and r2 != r:
                diffs.append({"function": "*", "variant_a": label, "variant_b": label + " (second generation in the same process)",
                              "results_a": r, "results_b": r2})
        if not diffs and not ir_diffs:
            continue
        codes = [code_of.get((g["program"], lab), 0) for lab, _, _, _ in g["variants"]]
        predicted = not any(c & 1 for c in codes)          # the model reproduces every variant exactly
        in_class = any(c & 32 for c in codes) or any(c & 16 for c in codes)
        info = {"program": g["program"], "definitions": g["definitions"], "first_difference": (ir_diffs or diffs)[0], "differences": len(diffs) + len(ir_diffs)}
        if predicted and _calls_static_method(g["definitions"]):
            known_static.append(info)
        elif ir_diffs:
            # KF_C05_1 is about result generation (the fold mutating shared IR): it cannot explain an IR that differs
            # before any result was generated
            new.append({**info, "phase": "the per-function IR of the analysis phase (before result generation) already differs"})
        else:
            (known if (predicted and in_class) else new).append(info)

    rng = random.Random(C.SEED)
    progs = [("hashseed_witness", (C.VERIF / "corpus/C05/hashseed_witness.py").read_text())]
    sample = rng.sample(res["groups"], min(len(res["groups"]), 10 if tier == "quick" else 120))
    progs += [(g["program"], "\n".join(g["definitions"])) for g in sample]
    seeds = [0, 1, 2, 3] if tier == "quick" else list(range(8))
    hs = hashseed_runs(progs, seeds)
    hs_diff = [h for h in hs if h["distinct_outputs"] > 1]
    hs_known = [h for h in hs_diff if _same_named_calls_and_recursion(h["source"])]
    hs_new = [h for h in hs_diff if h not in hs_known]

    mm_bad, mm_runs = multi_module_runs(tier)
    # the analysis phase: root contexts of modules that meet the premises of C05_root_context_independent_of_statement_order
    root = root_run.run(tier)
    order_bad = [o for o in root["order_runs"] if not o["same"]]
    for o in order_bad[:3]:
        V.violation({"property": prop, "why": "the root context (which symbol each module-level name has) changed when the top-level statements were reordered, "
                                               "in a module that binds every name once and deletes nothing", **o})
    for m in mm_bad[:3]:
        V.violation({"property": prop, **m})
    for m in new[:4]:
        V.violation({"property": prop, "why": "results differ between definition orders / with unrelated definitions / on a second generation, outside the listed finding class or beyond what the model predicts", **m})
    for h in hs_new[:3]:
        V.violation({"property": prop, "why": "`-o results` bytes differ between PYTHONHASHSEED values", **h})
    if not new and not hs_new and not mm_bad and not order_bad:
        if corr_fail:
            V.violation({"property": prop, "broken": "correspondence suite res (model/Results.v vs generate_results_from_ir)",
                         "disagreements": len(corr_fail), "first": corr_fail[0]}, failing_input=False)
        elif broken:
            V.violation({"property": prop, "broken": broken, "errors": build.failed, "why": "proof obligation no longer checks"}, failing_input=False)
    for f in C.known_findings(prop):
        hit = {"KF_C05_1": bool(known), "KF_C05_2": bool(hs_known), "KF_C05_3": bool(known_static)}.get(f["class"], False)
        if hit:
            V.known(f"{f['id']}: {f['what']}")
        else:
            V.notes.append(f"listed finding {f['id']} did not reproduce")
    pa = C.print_assumptions("props/C05.v") if "props/C05.v" in build.ok_targets else ""
    C.write_evidence(prop, coverage={
        "obligations": max(n_obl, 1), "discharged": n_done, "checker_cmd": "cd /verif/coq && make props/C05.vo",
        "trusted_base": C.TRUSTED_BASE_COMMON + ["PYTHONHASHSEED as the only source of set-iteration nondeterminism"],
        "evaluations": n_variants + len(hs) * len(seeds), "distinct_nontrivial": len(res["groups"]),
        "rule": "C03 graph suite: every program under all (<=3 definitions) or 4 sampled permutations of its top-level definitions, with unrelated definitions appended / prepended, "
                "a second generation in the same process; a sample + the corpus witness as real subprocesses under several PYTHONHASHSEED values; non-trivial = distinct programs",
        "programs": len(res["groups"]), "traces_validated_against_impl": len(res["cases"]), "disagreements_checked": len(corr_fail),
        "order_dependent_programs_known_class": len(known), "order_dependent_static_method_known_class": len(known_static), "order_dependent_programs_new": len(new),
        "root_context_reorderings": len(root["order_runs"]), "root_context_reorderings_differing": len(order_bad), "multi_module_runs": mm_runs, "multi_module_differences": len(mm_bad), "hashseed_programs": len(hs), "hashseed_dependent_known": len(hs_known), "hashseed_dependent_new": len(hs_new),
        "print_assumptions": pa, "broken_obligation_files": broken, "samples": [known[0] if known else {"program": res["groups"][0]["program"]}]},
        wall_s=T.s, assumptions=["single-file programs for the permutation suite; four fixed multi-module scenarios (imported callee called twice, same-named private helpers, ignored imported callee, diamond) under reorderings x hash seeds"], violations=len(V.violations))
    return V.finish()


def _calls_static_method(defs) -> bool:
    """Finding class KF_C05_3: the program defines a class with a static method and some function calls `Class.method(...)`."""
    import ast
    statics, calls = set(), set()
    for src in defs:
        for node in ast.walk(ast.parse(src)):
            if isinstance(node, ast.ClassDef):
                for m in node.body:
                    if isinstance(m, (ast.FunctionDef, ast.AsyncFunctionDef)) and any(isinstance(d, ast.Name) and d.id == "staticmethod" for d in m.decorator_list):
                        statics.add(f"{node.name}.{m.name}")
            if isinstance(node, ast.Call) and isinstance(node.func, ast.Attribute) and isinstance(node.func.value, ast.Name):
                calls.add(f"{node.func.value.id}.{node.func.attr}")
    return bool(statics & calls)


def _same_named_calls_and_recursion(src: str) -> bool:
    """Finding class KF_C05_2: some function makes two calls with the same callee name (a tie in sorted(calls, key=name))."""
    import ast
    for fn in ast.parse(src).body:
        if isinstance(fn, ast.FunctionDef):
            names = [c.func.id for c in ast.walk(fn) if isinstance(c, ast.Call) and isinstance(c.func, ast.Name)]
            if len(names) != len(set(names)):
                return True
    return False
