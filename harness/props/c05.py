"""C05 - results are deterministic and independent of definition order and unrelated code."""
import hashlib
import random

import common as C
import diaglib as D
import res_lib as R
import res_run


def hashseed_runs(programs, seeds):
    """Real `python -m rattr -o results` subprocesses under several PYTHONHASHSEED values."""
    out = []
    with D.Scratch() as root:
        jobs = []
        for i, (name, src) in enumerate(programs):
            d = root / f"h{i}"
            d.mkdir()
            (d / "target.py").write_text(src)
            for s in seeds:
                jobs.append((name, src, d, s))
        runs = D.pmap(lambda j: D.run_rattr(j[2], ["-w", "none", "-o", "results", "target.py"], hashseed=j[3]), jobs)
        by = {}
        for (name, src, d, s), r in zip(jobs, runs):
            by.setdefault(name, {"source": src, "outs": {}})["outs"][s] = (r["exit"], r["stdout"])
        for name, v in by.items():
            distinct = {hashlib.sha256(repr(o).encode()).hexdigest()[:10] for o in v["outs"].values()}
            out.append({"program": name, "source": v["source"], "distinct_outputs": len(distinct),
                        "exits": sorted({o[0] for o in v["outs"].values()})})
    return out


def main(tier: str) -> int:
    prop = "C05"
    T = C.Timer()
    V = C.Verdict(prop)
    proof_files = ["proofs/ResProofs.v", "props/C05.v"]
    build = C.coq_build(res_run.MODEL_FILES + proof_files)
    if any(t in build.failed for t in res_run.MODEL_FILES):
        raise SystemExit("internal error: model/spec files do not compile:\n" + build.log)
    n_obl, n_done, broken = C.obligations_from(build, proof_files)
    res = res_run.run(tier)
    code_of = {(m["program"], m["variant"]): c for c, m in res["cases"]}
    corr_fail = [m for c, m in res["cases"] if c & 1]

    new, known = [], []
    n_variants = 0
    for g in res["groups"]:
        base_label, base, _ = g["variants"][0] if g["variants"] else (None, None, None)
        if base is None:
            continue
        own_fns = [k for k in base]
        diffs = []
        for label, r, r2 in g["variants"]:
            n_variants += 1
            if r is None:
                continue
            for fn in own_fns:
                if r.get(fn) != base.get(fn):
                    diffs.append({"function": fn, "variant_a": base_label, "variant_b": label, "results_a": base.get(fn), "results_b": r.get(fn)})
            if r2 is not None and r2 != r:
                diffs.append({"function": "*", "variant_a": label, "variant_b": label + " (second generation in the same process)",
                              "results_a": r, "results_b": r2})
        if not diffs:
            continue
        codes = [code_of.get((g["program"], lab), 0) for lab, _, _ in g["variants"]]
        predicted = not any(c & 1 for c in codes)          # the model reproduces every variant exactly
        in_class = any(c & 32 for c in codes) or any(c & 16 for c in codes)
        info = {"program": g["program"], "definitions": g["definitions"], "first_difference": diffs[0], "differences": len(diffs)}
        (known if (predicted and in_class) else new).append(info)

    rng = random.Random(C.SEED)
    progs = [("hashseed_witness", (C.VERIF / "corpus/C05/hashseed_witness.py").read_text())]
    sample = rng.sample(res["groups"], min(len(res["groups"]), 10 if tier == "quick" else 120))
    progs += [(g["program"], "\n".join(g["definitions"])) for g in sample]
    seeds = [0, 1, 2, 3] if tier == "quick" else list(range(8))
    hs = hashseed_runs(progs, seeds)
    hs_diff = [h for h in hs if h["distinct_outputs"] > 1]
    hs_known = [h for h in hs_diff if _same_named_calls_and_recursion(h["source"])]
    hs_new = [h for h in hs_diff if h not in hs_known]

    for m in new[:4]:
        V.violation({"property": prop, "why": "results differ between definition orders / with unrelated definitions / on a second generation, outside the listed finding class or beyond what the model predicts", **m})
    for h in hs_new[:3]:
        V.violation({"property": prop, "why": "`-o results` bytes differ between PYTHONHASHSEED values", **h})
    if not new and not hs_new:
        if corr_fail:
            V.violation({"property": prop, "broken": "correspondence suite res (model/Results.v vs generate_results_from_ir)",
                         "disagreements": len(corr_fail), "first": corr_fail[0]}, failing_input=False)
        elif broken:
            V.violation({"property": prop, "broken": broken, "errors": build.failed, "why": "proof obligation no longer checks"}, failing_input=False)
    for f in C.known_findings(prop):
        hit = {"KF_C05_1": bool(known), "KF_C05_2": bool(hs_known)}.get(f["class"], False)
        if hit:
            V.known(f"{f['id']}: {f['what']}")
        else:
            V.notes.append(f"listed finding {f['id']} did not reproduce")
    pa = C.print_assumptions("props/C05.v") if "props/C05.v" in build.ok_targets else ""
    C.write_evidence(prop, coverage={
        "obligations": max(n_obl, 1), "discharged": n_done, "checker_cmd": "cd /verif/coq && make props/C05.vo",
        "trusted_base": C.TRUSTED_BASE_COMMON + ["PYTHONHASHSEED as the only source of set-iteration nondeterminism"],
        "evaluations": n_variants + len(hs) * len(seeds), "distinct_nontrivial": len(res["groups"]),
        "rule": "C03 graph suite: every program under all (<=3 definitions) or 4 sampled permutations of its top-level definitions, with unrelated definitions appended / prepended, "
                "a second generation in the same process; a sample + the corpus witness as real subprocesses under several PYTHONHASHSEED values; non-trivial = distinct programs",
        "programs": len(res["groups"]), "traces_validated_against_impl": len(res["cases"]), "disagreements_checked": len(corr_fail),
        "order_dependent_programs_known_class": len(known), "order_dependent_programs_new": len(new),
        "hashseed_programs": len(hs), "hashseed_dependent_known": len(hs_known), "hashseed_dependent_new": len(hs_new),
        "print_assumptions": pa, "broken_obligation_files": broken, "samples": [known[0] if known else {"program": res["groups"][0]["program"]}]},
        wall_s=T.s, assumptions=["single-file programs"], violations=len(V.violations))
    return V.finish()


def _same_named_calls_and_recursion(src: str) -> bool:
    """Finding class KF_C05_2: some function makes two calls with the same callee name (a tie in sorted(calls, key=name))."""
    import ast
    for fn in ast.parse(src).body:
        if isinstance(fn, ast.FunctionDef):
            names = [c.func.id for c in ast.walk(fn) if isinstance(c, ast.Call) and isinstance(c.func, ast.Name)]
            if len(names) != len(set(names)):
                return True
    return False
