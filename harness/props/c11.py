"""C11 - rattr_ignore, rattr_results and exclusion patterns are honoured everywhere.

Proof: coq/props/C11.v (no IR entry for ignored / excluded functions and classes, hence no result key and no
       contribution; a declaration is accepted iff well formed, otherwise fatal; a declared function's entry is the
       declaration; refutation for excluded lambdas / static methods).
Tie:   (1) decorator-argument values (well formed and every kind of ill-formed) through the real
           parse_rattr_results_from_annotation vs model/Annot.v;
       (2) files with annotated / excluded definitions through the real FileAnalyser: IR keys vs the model's entries;
       (3) the property itself, metamorphically on real end-to-end runs: a program with f ignored / excluded gives the
           other functions the results of the program with f's definition removed; a program with f declared by
           rattr_results gives every function the results of the program where f's body performs exactly the declared
           accesses and calls - in the target and across a followed import.
"""
from __future__ import annotations

import ast
import itertools
import json
import random

import common as C
import diaglib as D
import rt

PROP = "C11"
HEADER = "From RattrV Require Import Base Str Context CallSwaps FuncAn Results Annot C11Check.\nOpen Scope string_scope.\nOpen Scope list_scope.\n"
MODEL_FILES = ["model/Base.v", "model/ModNames.v", "model/Str.v", "model/PyAst.v", "model/Naming.v", "model/Context.v", "model/CallSwaps.v",
               "model/FuncAn.v", "model/Results.v", "model/Annot.v", "spec/C11Check.v"]
PROOF_FILES = ["proofs/C11Proofs.v", "props/C11.v"]

# ---- python values as tagged tuples ---------------------------------------------------------------
def S(s): return ("str", s)
def SET(*xs): return ("set", list(xs))
def LIST(*xs): return ("list", list(xs))
def TUP(*xs): return ("tuple", list(xs))
def DICT(*kvs): return ("dict", list(kvs))
NUM, BYTES, CONST = ("num",), ("bytes",), ("const",)
def BAD(src): return ("bad", src)
UNPACK = ("unpack",)


def src_of(v) -> str:
    t = v[0]
    if t == "str":
        return repr(v[1])
    if t == "num":
        return "7"
    if t == "bytes":
        return "b'x'"
    if t == "const":
        return "None"
    if t == "bad":
        return v[1]
    if t == "set":
        return "{" + ", ".join(src_of(x) for x in v[1]) + "}" if v[1] else "set()"
    if t == "list":
        return "[" + ", ".join(src_of(x) for x in v[1]) + "]"
    if t == "tuple":
        return "(" + ", ".join(src_of(x) for x in v[1]) + ("," if len(v[1]) == 1 else "") + ")"
    if t == "dict":
        return "{" + ", ".join(("**zz" if k == UNPACK else f"{src_of(k)}: {src_of(x)}") for k, x in v[1]) + "}"
    raise ValueError(t)


def coq_of(v) -> str:
    t = v[0]
    if t == "str":
        return f"(VStr {C.cstr(v[1])})"
    if t in ("num", "bytes", "const"):
        return {"num": "VNum", "bytes": "VBytes", "const": "VConst"}[t]
    if t == "bad":
        return "VBad"
    if t == "set":
        return f"(VSet {C.clist(coq_of(x) for x in v[1])})" if v[1] else "VBad"      # `set()` is a call expression
    if t == "list":
        return f"(VList {C.clist(coq_of(x) for x in v[1])})"
    if t == "tuple":
        return f"(VTuple {C.clist(coq_of(x) for x in v[1])})"
    if t == "dict":
        if any(k == UNPACK for k, _ in v[1]):
            return "VDictUnpack"
        return f"(VDict {C.clist('(' + coq_of(k) + ', ' + coq_of(x) + ')' for k, x in v[1])})"
    raise ValueError(t)


def strings_of(v, acc):
    if v[0] == "str":
        acc.add(v[1])
    elif v[0] in ("set", "list", "tuple"):
        for x in v[1]:
            strings_of(x, acc)
    elif v[0] == "dict":
        for k, x in v[1]:
            if k != UNPACK:
                strings_of(k, acc)
            strings_of(x, acc)


GOOD_CALL = TUP(S("leaf()"), TUP(LIST(S("p")), DICT((S("k"), S("q")))))
VALUE_POOL = [S("p.x"), S("q"), S("*p.star"), S("@Marker"), S("p.a.b"), S("a b"), S(""), S("9x"), S("p..x"), NUM, BYTES, CONST,
              LIST(S("p")), SET(S("p")), TUP(S("p")), DICT((S("k"), S("v"))), BAD("name_expr"), BAD("f'x'"), BAD("-1"), BAD("p.attr"), SET()]


def annotation_cases(rng: random.Random, tier: str):
    """(pos, kw) argument lists: the well formed ones and a sweep of ill-formed shapes."""
    out = []
    ok_sets = [SET(S("p.x")), SET(S("p.x"), S("q")), SET(S("*p.star"), S("@Marker")), SET(S("p.a.b"))]
    out.append(([], []))
    for g in ok_sets:
        out.append(([], [("gets", g)]))
        out.append(([], [("sets", g), ("dels", SET(S("q.d")))]))
    out.append(([], [("gets", SET(S("p.x"))), ("sets", SET(S("p.s"))), ("dels", SET(S("p.d"))), ("calls", LIST(GOOD_CALL))]))
    out.append(([], [("calls", LIST(GOOD_CALL, TUP(S("other"), TUP(LIST(), DICT()))))]))
    # every key x every value of the pool (wrong container, wrong element, unevaluable, ...)
    for key in ("gets", "sets", "dels", "calls"):
        for v in VALUE_POOL:
            out.append(([], [(key, v)]))
        for v in VALUE_POOL:
            out.append(([], [(key, SET(v) if key != "calls" else LIST(v))]))
            out.append(([], [(key, SET(S("p.ok"), v) if key != "calls" else LIST(GOOD_CALL, v))]))
    # call specs: every position of the nested shape replaced by every pool value
    for v in VALUE_POOL:
        out.append(([], [("calls", LIST(TUP(v, TUP(LIST(S("p")), DICT()))))]))
        out.append(([], [("calls", LIST(TUP(S("leaf"), v)))]))
        out.append(([], [("calls", LIST(TUP(S("leaf"), TUP(v, DICT()))))]))
        out.append(([], [("calls", LIST(TUP(S("leaf"), TUP(LIST(v), DICT()))))]))
        out.append(([], [("calls", LIST(TUP(S("leaf"), TUP(LIST(S("p")), v))))]))
        out.append(([], [("calls", LIST(TUP(S("leaf"), TUP(LIST(S("p")), DICT((v, S("q")))))))]))
        out.append(([], [("calls", LIST(TUP(S("leaf"), TUP(LIST(S("p")), DICT((S("k"), v))))))]))
        out.append(([v], []))
        out.append(([], [("reads", v)]))
    out.append(([], [("calls", LIST(TUP(S("leaf"))))]))
    out.append(([], [("calls", LIST(TUP(S("leaf"), TUP(LIST(S("p"))))))]))
    out.append(([], [("calls", LIST(TUP(S("leaf"), TUP(LIST(S("p")), DICT(), LIST()))))]))
    out.append(([], [("calls", LIST(TUP(S("leaf"), TUP(LIST(S("p")), DICT((UNPACK, S("zz")))))))]))
    out.append(([], [(None, DICT((S("gets"), SET(S("p")))))]))
    out.append(([SET(S("p"))], [("gets", SET(S("p")))]))
    out.append(([], [("gets", SET(S("p"))), ("extra", CONST)]))
    if tier != "quick":
        for _ in range(600):
            kw = []
            for key in rng.sample(["gets", "sets", "dels", "calls"], rng.randint(1, 4)):
                if key == "calls":
                    kw.append((key, LIST(*[rng.choice([GOOD_CALL, rng.choice(VALUE_POOL), TUP(S("f"), TUP(LIST(rng.choice(VALUE_POOL)), DICT((rng.choice(VALUE_POOL), rng.choice(VALUE_POOL)))))]) for _ in range(rng.randint(0, 2))])))
                else:
                    kw.append((key, rng.choice([SET(*[rng.choice(VALUE_POOL[:9]) for _ in range(rng.randint(0, 3))]), rng.choice(VALUE_POOL)])))
            out.append(([], kw))
    return out


def deco_src(pos, kw, bare=False) -> str:
    if bare:
        return "@rattr_results"
    args = [src_of(v) for v in pos] + [(f"**{src_of(v)}" if k is None else f"{k}={src_of(v)}") for k, v in kw]
    return "@rattr_results(" + ", ".join(args) + ")"


def run_annotation(pos, kw) -> dict:
    """The real parse_rattr_results_from_annotation on a function decorated with these arguments."""
    from rattr.analyser.util import is_name, parse_rattr_results_from_annotation
    from rattr.models.context import compile_root_context

    src = f"{deco_src(pos, kw)}\ndef f(p, q):\n    return p.real\n\ndef leaf(p, k=None):\n    return p.l\n\ndef other():\n    pass\n"
    try:
        tree = ast.parse(src)
    except SyntaxError:
        return {"skip": True}
    rt.set_config(target="target.py", current_file="target.py")
    names = set()
    for v in pos:
        strings_of(v, names)
    for _, v in kw:
        strings_of(v, names)
    ok = sorted(n for n in names if is_name(n))
    try:
        with rt.capture_stderr() as buf:
            ctx = compile_root_context(tree)
            ir = parse_rattr_results_from_annotation(tree.body[0], context=ctx)
        obs = ("accept", sorted(n.name for n in ir["gets"]), sorted(n.name for n in ir["sets"]), sorted(n.name for n in ir["dels"]),
               [(c.name, list(c.args.args), dict(c.args.kwargs)) for c in ir["calls"]])
    except SystemExit:
        obs = ("fatal",)
    except BaseException as e:  # noqa: BLE001
        obs = ("crash", f"{type(e).__name__}: {e}")
    return {"skip": False, "source": src, "names_ok": ok, "obs": obs, "stderr": rt.strip_ansi(buf.getvalue())[-300:]}


def c_obs(o) -> str:
    if o[0] == "accept":
        calls = C.clist(f"({C.cstr(n)}, {C.cstrs(a)}, {C.cdict(k)})" for n, a, k in o[4])
        return f"(OAccept {C.cstrs(o[1])} {C.cstrs(o[2])} {C.cstrs(o[3])} {calls})"
    return "OFatalDiag" if o[0] == "fatal" else "OCrash"


# ---- files with annotated / excluded definitions -------------------------------------------------------
OTHER_DECORATORS = ["@HOOKS['audit']", "@functools.wraps(len)", "@plain_deco", "@(lambda f: f)", "@registry.hooks[0].wrap", "@HOOKS['a'] | HOOKS['b']"]


def gen_file(rng: random.Random):
    """A module with functions, classes (with a static method), lambdas; random annotations; an exclusion pattern."""
    defs, lines = [], ["from rattr import rattr_ignore, rattr_results", ""]
    n = rng.randint(3, 7)
    for i in range(n):
        kind = rng.choice(["func", "func", "func", "class", "lambda"])
        tag = rng.choice(["plain", "plain", "hidden"])
        name = f"{kind[0]}{i}_{tag}"
        ignore = kind != "lambda" and rng.random() < 0.25
        results = None
        if kind != "lambda" and not ignore and rng.random() < 0.3:
            good = rng.random() < 0.75
            kw = [("gets", SET(S("p.declared_" + name)))] + ([("sets", SET(S("p.decl_set")))] if rng.random() < 0.5 else [])
            if not good:
                kw = rng.choice([[("gets", LIST(S("p.x")))], [("gets", SET(NUM))], [("calls", LIST(TUP(S("f"))))], [("reads", SET(S("p")))], [("gets", SET(BAD("name")))]])
            results = ([], kw)
        decos = (["@rattr_ignore"] if ignore else []) + ([deco_src(*results)] if results else [])
        # decorators that are not rattr annotations (not even nameable ones), above / between / below the annotations
        for _ in range(rng.choice([0, 0, 1, 1, 2])):
            decos.insert(rng.randint(0, len(decos)), rng.choice(OTHER_DECORATORS))
        # some definitions sit inside a module-level compound statement (conditionally defined callables)
        wrap = rng.choice([None, None, None, "if FLAG:", "try:", "with GUARD:", "for _i in (1,):"]) if kind != "lambda" else None

        def block(ls):
            if wrap is None:
                return ls
            body = ["    " + l if l else l for l in ls if l != ""]
            tail = ["except ImportError:", "    pass"] if wrap == "try:" else []
            return [wrap] + body + tail + [""]
        if kind == "func":
            lines += block(decos + [f"def {name}(p, q=None):", f"    return p.body_of_{name}", ""])
            defs.append((name, "DFunc", ignore, results))
        elif kind == "class":
            lines += block(decos + [f"class {name}:", "    def __init__(self, p):", f"        self.held = p.body_of_{name}", "    @staticmethod",
                                    f"    def sm_{tag}(v):", f"        return v.static_of_{name}", ""])
            defs.append((name, "DClass", ignore, results))
            defs.append((f"{name}.sm_{tag}", f"(DStatic {C.cstr(name)})", ignore, None))
        else:
            lines += [f"{name} = lambda p: p.body_of_{name}", ""]
            defs.append((name, "DLambda", False, None))
    callers = [d[0] for d in defs if not d[1].startswith("(DStatic")]
    lines += ["def caller(p, q):"] + [f"    {c}(p)" for c in callers] + ["    return p.caller_own", ""]
    defs.append(("caller", "DFunc", False, None))
    pattern = rng.choice([None, ".*hidden", ".*_hidden", "f.*", "c[0-9]_.*", ".*\\.sm_hidden"])
    return "\n".join(lines), defs, pattern


def run_file(src: str, pattern) -> dict:
    import re

    from rattr.analyser.file import FileAnalyser
    from rattr.analyser.util import is_name
    from rattr.models.context import compile_root_context
    tree = ast.parse(src)
    rt.clear_caches()
    rt.set_config(target="target.py", current_file="target.py", _excluded_names=[pattern] if pattern else None)
    out = {"fatal": False, "keys": [], "crash": None}
    try:
        with rt.capture_stderr() as buf:
            ctx = compile_root_context(tree)
            ir = FileAnalyser(tree, ctx).analyse()
        out["keys"] = [s.id for s in ir]
    except SystemExit:
        out["fatal"] = True
    except BaseException as e:  # noqa: BLE001
        out["crash"] = f"{type(e).__name__}: {e}"
    out["stderr"] = rt.strip_ansi(buf.getvalue())[-300:]
    return out


# ---- the property, end to end ---------------------------------------------------------------------------
def e2e_programs():
    """(label, variant files A, variant files B, options, functions to compare, finding class or None): results of A
    and B must agree on the listed functions."""
    out = []
    leaf = "def leaf(r, k=None):\n    r.leaf_get\n    r.leaf_set = 1\n    return k\n"
    top = "def top(a, b):\n    mid(a, b)\n    return a.top_own\n"
    body_real = "    p.real_get\n    p.real_set = 1\n    del p.real_del\n    leaf(q, k=p)\n    return p\n"
    decls = [
        ("gets_only", [("gets", SET(S("p.decl_get"), S("q")))], "    p.decl_get\n    q\n"),
        ("all_kinds", [("gets", SET(S("p.decl_get"), S("p"), S("q"))), ("sets", SET(S("p.decl_set"), S("q.other_set"))), ("dels", SET(S("q.decl_del"))),
                       ("calls", LIST(TUP(S("leaf()"), TUP(LIST(S("q")), DICT((S("k"), S("p")))))))],
         "    p.decl_get\n    p.decl_set = 1\n    q.other_set = 1\n    del q.decl_del\n    leaf(q, k=p)\n"),
        ("nothing", [], "    pass\n"),
        ("starred", [("gets", SET(S("*p.star")))], "    *p.star\n"),
    ]
    for where in ("target", "import"):
        def files(mid_src, extra_target=""):
            if where == "target":
                return {"target.py": "from rattr import rattr_ignore, rattr_results\n\n" + leaf + "\n" + mid_src + "\n" + top + extra_target}
            return {"target.py": "from lib import mid\n\n" + top + extra_target,
                    "lib.py": "from rattr import rattr_ignore, rattr_results\n\n" + leaf + "\n" + mid_src}
        mid_plain = "def mid(p, q):\n" + body_real
        removed = files("") if where == "target" else {"target.py": "from lib import mid\n\n" + top, "lib.py": leaf + "\nmid = None\n"}
        # rattr_ignore == definition removed
        out.append((f"ignore/{where}", files("@rattr_ignore\n" + mid_plain), files("MID_REMOVED = 1\n") if where == "target" else removed, [], ["top"], None))
        # --exclude == definition removed
        out.append((f"exclude/{where}", files(mid_plain), files("MID_REMOVED = 1\n") if where == "target" else removed, ["-x", "mi."], ["top"], None))
        for name, kw, equiv in decls:
            if name == "starred":
                continue
            ann = deco_src([], kw) + "\n" + mid_plain
            eq = "def mid(p, q):\n" + equiv
            out.append((f"results[{name}]/{where}", files(ann), files(eq), [], ["top"] + (["mid"] if where == "target" else []), None))
            if name == "all_kinds":
                # the same declaration under / above decorators that are no rattr annotations
                hooks = "HOOKS = {}\n\ndef plain_deco(f):\n    return f\n\n"
                for pos, ann2 in (("below a subscript decorator", "@HOOKS['audit']\n" + deco_src([], kw) + "\n" + mid_plain),
                                  ("above a name decorator", deco_src([], kw) + "\n@plain_deco\n" + mid_plain),
                                  ("between two decorators", "@HOOKS['a'] | HOOKS['b']\n" + deco_src([], kw) + "\n@plain_deco\n" + mid_plain)):
                    out.append((f"results[{name} {pos}]/{where}", files(hooks + ann2), files(hooks + eq), [], ["top"] + (["mid"] if where == "target" else []), None))
                out.append((f"ignore below a subscript decorator/{where}", files(hooks + "@HOOKS['audit']\n@rattr_ignore\n" + mid_plain),
                            files("MID_REMOVED = 1\n") if where == "target" else removed, [], ["top"], None))
        # a class declared by rattr_results / ignored
        cls_real = "class Box:\n    def __init__(self, p, q):\n        self.held = p.real_init\n"
        cls_user = "def top(a, b):\n    box = Box(a, b)\n    return a.top_own\n"
        if where == "target":
            out.append(("class ignore/target", {"target.py": "from rattr import rattr_ignore\n\n@rattr_ignore\n" + cls_real + "\n" + cls_user},
                        {"target.py": "BOX_REMOVED = 1\n\n" + cls_user}, [], ["top"], None))
            out.append(("class exclude/target", {"target.py": cls_real + "\n" + cls_user}, {"target.py": "BOX_REMOVED = 1\n\n" + cls_user}, ["-x", "Box"], ["top"], None))
    out.append(("class with static method ignore/target",
                {"target.py": "from rattr import rattr_ignore\n\n@rattr_ignore\nclass Helper:\n    def __init__(self, u):\n        self.h = u.i\n\n    @staticmethod\n    def peek(v):\n        return v.secret\n\ndef top(a):\n    Helper.peek(a)\n    return a.top_own\n"},
                {"target.py": "HELPER_REMOVED = 1\n\ndef top(a):\n    Helper.peek(a)\n    return a.top_own\n"}, [], ["top", "Helper.peek", "Helper"], None))
    # excluded lambda / static method: the caller is unaffected, but the definition stays a key (finding KF_C11_1)
    out.append(("exclude lambda/target", {"target.py": "lam_hidden = lambda x: x.lam_attr\n\ndef top(a):\n    lam_hidden(a)\n    return a.top_own\n"},
                {"target.py": "LAM_REMOVED = 1\n\ndef top(a):\n    lam_hidden(a)\n    return a.top_own\n"}, ["-x", ".*hidden"], ["top", "lam_hidden"], "KF_C11_1"))
    out.append(("exclude static method/target", {"target.py": "class K:\n    def __init__(self, u):\n        self.h = u.i\n\n    @staticmethod\n    def sm_hidden(v):\n        return v.static_attr\n\ndef top(a):\n    K.sm_hidden(a)\n    return a.top_own\n"},
                {"target.py": "class K:\n    def __init__(self, u):\n        self.h = u.i\n\ndef top(a):\n    K.sm_hidden(a)\n    return a.top_own\n"}, ["-x", ".*hidden"], ["top", "K.sm_hidden"], "KF_C11_1"))
    # an excluded static method behind a followed import: its body must not reach the caller either
    out.append(("exclude static method/import",
                {"target.py": "from lib import Store\n\ndef top(a):\n    Store.load_hidden(a)\n    return a.top_own\n",
                 "lib.py": "class Store:\n    def __init__(self, u):\n        self.h = u.i\n\n    @staticmethod\n    def load_hidden(v):\n        return v.static_attr\n"},
                {"target.py": "from lib import Store\n\ndef top(a):\n    Store.load_hidden(a)\n    return a.top_own\n",
                 "lib.py": "class Store:\n    def __init__(self, u):\n        self.h = u.i\n"}, ["-x", ".*hidden"], ["top"], None))
    return out


def main(tier: str) -> int:
    T = C.Timer()
    rng = random.Random(C.SEED)
    V = C.Verdict(PROP)
    build = C.coq_build(MODEL_FILES + PROOF_FILES)
    if any(t in build.failed for t in MODEL_FILES):
        raise SystemExit("internal error: model/spec files do not compile:\n" + build.log)
    n_obl, n_done, broken = C.obligations_from(build, PROOF_FILES)

    # (1) decorator arguments
    acases, ameta = [], []
    kinds = {"accept": 0, "fatal": 0, "crash": 0}
    for pos, kw in annotation_cases(rng, tier):
        r = run_annotation(pos, kw)
        if r["skip"]:
            continue
        kinds[r["obs"][0]] += 1
        kwt = C.clist(f"({'None' if k is None else '(Some ' + C.cstr(k) + ')'}, {coq_of(v)})" for k, v in kw)
        acases.append(f"(mkAnnotCase {C.cstrs(r['names_ok'])} {C.clist(coq_of(v) for v in pos)} {kwt} {c_obs(r['obs'])})")
        ameta.append({"decorator": deco_src(pos, kw), "outcome": r["obs"], "stderr": r["stderr"], "source": r["source"]})
    acodes = C.coq_eval_codes("c11a", HEADER, "annot_case", "annot_code", acases, shard=300)
    a_corr = [m for c, m in zip(acodes, ameta) if (c & 1) and not (c & 2)]
    a_crash = [m for c, m in zip(acodes, ameta) if c & 2]

    # (2) files
    fcases, fmeta = [], []
    n_files = 60 if tier == "quick" else 1500
    from rattr.analyser.util import is_name
    import re
    for _ in range(n_files):
        src, defs, pattern = gen_file(rng)
        r = run_file(src, pattern)
        names = set()
        for _n, _k, _i, res in defs:
            if res:
                for _kk, v in res[1]:
                    strings_of(v, names)
        ok = sorted(n for n in names if is_name(n))
        excl = [d[0] for d in defs if pattern and re.fullmatch(pattern, d[0])]
        dts = []
        for name, kind, ignore, res in defs:
            rs = "None" if res is None else "(Some (" + C.clist(coq_of(v) for v in res[0]) + ", " + C.clist(f"((Some {C.cstr(k)}), {coq_of(v)})" for k, v in res[1]) + "))"
            dts.append(f"(mkDef {C.cstr(name)} {kind} {C.cbool(ignore)} {rs})")
        fcases.append(f"(mkFileCase {C.cstrs(ok)} {C.cstrs(excl)} {C.clist(dts)} {C.cbool(r['fatal'])} {C.cstrs(r['keys'])})")
        fmeta.append({"source": src, "exclude": pattern, "ir_keys": r["keys"], "fatal": r["fatal"], "crash": r["crash"], "stderr": r["stderr"]})
    fcodes = C.coq_eval_codes("c11f", HEADER, "file_case", "file_code", fcases, shard=200)
    f_corr = [m for c, m in zip(fcodes, fmeta) if c & 1]
    f_spec = [m for c, m in zip(fcodes, fmeta) if c & 2]
    f_known = [m for c, m in zip(fcodes, fmeta) if (c & 4) and not (c & 1)]
    f_crash = [m for m in fmeta if m["crash"]]

    # (3) end to end
    progs = e2e_programs()
    jobs = []
    with D.Scratch() as root:
        for i, (label, fa, fb, opts, fns, kf) in enumerate(progs):
            for side, files in (("a", fa), ("b", fb)):
                d = root / f"e{i}{side}"
                d.mkdir()
                for fn, src in files.items():
                    (d / fn).write_text(src)
                jobs.append((i, side, d, [] if side == "b" and label.startswith("exclude") else opts))
        runs = D.pmap(lambda j: D.run_rattr(j[2], ["-w", "none", "-o", "results", *j[3], "target.py"]), jobs)
    by = {}
    for (i, side, d, opts), r in zip(jobs, runs):
        by[(i, side)] = r
    e_new, e_known = [], []
    for i, (label, fa, fb, opts, fns, kf) in enumerate(progs):
        ra, rb = by[(i, "a")], by[(i, "b")]
        prob = None
        docs = []
        for r in (ra, rb):
            try:
                docs.append(json.loads(r["stdout"]) if r["exit"] == 0 else None)
            except Exception:  # noqa: BLE001
                docs.append(None)
        if docs[0] is None or docs[1] is None:
            prob = f"a run failed (exit {ra['exit']} / {rb['exit']}): {(ra['stderr'] or rb['stderr'])[-300:]}"
        else:
            key_only = None      # the finding class KF_C11_1 covers ONE thing: the excluded lambda / static method stays a results key
            for fn in fns:
                ga, gb = docs[0].get(fn), docs[1].get(fn)
                strip = lambda g: None if g is None else {k: g[k] for k in ("gets", "sets", "dels", "calls")}
                if strip(ga) != strip(gb):
                    if kf and fn in ("lam_hidden", "K.sm_hidden") and gb is None:
                        key_only = f"{fn} is excluded but is a key of the results"
                        continue
                    prob = f"{fn}: with the annotation / exclusion {strip(ga)} != reference program {strip(gb)}"
                    break
            hidden = [k for k in docs[0] if ("ignore" in label or "exclude" in label) and k in ("mid", "Box", "Helper", "Helper.peek")]
            if not prob and hidden:
                prob = f"{hidden[0]} is ignored / excluded but is a key of the results"
            if not prob and key_only:
                e_known.append({"scenario": label, "why": key_only, "files": fa, "reference_files": fb, "options": opts})
        if prob:
            e_new.append({"scenario": label, "why": prob, "files": fa, "reference_files": fb, "options": opts})

    for m in a_corr[:3]:
        what = ("a malformed rattr_results declaration was accepted" if m["outcome"][0] == "accept" else
                "a well-formed rattr_results declaration was rejected" if m["outcome"][0] == "fatal" else "unexpected outcome")
        V.violation({"property": PROP, "why": what + " (well-formedness as defined by wf_annotation in coq/proofs/C11Proofs.v, or the declared names differ from the declaration)", **m})
    for m in a_crash[:3]:
        V.violation({"property": PROP, "why": "malformed rattr_results arguments end in a Python exception instead of the fatal diagnostic", **m})
    for m in f_crash[:2]:
        V.violation({"property": PROP, "why": "FileAnalyser raised on an annotated file", **m})
    # a file whose fate (fatal or not) differs from the specification's: wf_annotation decides which declarations are malformed
    f_accept = [m for c, m in zip(fcodes, fmeta) if (c & 1) and (c & 8) and not m["fatal"] and not m["crash"]]
    f_reject = [m for c, m in zip(fcodes, fmeta) if (c & 1) and not (c & 8) and m["fatal"]]
    for m in f_accept[:2]:
        V.violation({"property": PROP, "why": "a file with a malformed rattr_results declaration (wf_annotation in coq/proofs/C11Proofs.v) was analysed without the fatal diagnostic", **m})
    for m in f_reject[:2]:
        V.violation({"property": PROP, "why": "a file whose rattr_results declarations are all well formed ended in the fatal diagnostic", **m})
    for m in f_spec[:3]:
        V.violation({"property": PROP, "why": "an ignored / excluded function or class has an IR entry (it would be a key of the results)", **m})
    for m in e_new[:3]:
        V.violation({"property": PROP, **m})
    if not V.violations:
        if a_corr or f_corr:
            V.violation({"property": PROP, "broken": "correspondence suites c11a / c11f (model/Annot.v vs parse_rattr_results_from_annotation / FileAnalyser)",
                         "annotation_disagreements": len(a_corr), "file_disagreements": len(f_corr), "first": (a_corr or f_corr)[0]}, failing_input=False)
        elif broken:
            V.violation({"property": PROP, "broken": broken, "errors": build.failed, "why": "proof obligation no longer checks"}, failing_input=False)
    for f in C.known_findings(PROP):
        if f_known or e_known:
            V.known(f"{f['id']}: {f['what']}")
        else:
            V.notes.append(f"listed finding {f['id']} did not reproduce in this run")
    pa = C.print_assumptions("props/C11.v") if "props/C11.v" in build.ok_targets else ""
    C.write_evidence(PROP, coverage={
        "obligations": max(n_obl, 1), "discharged": n_done, "checker_cmd": "cd /verif/coq && make props/C11.vo",
        "trusted_base": C.TRUSTED_BASE_COMMON + ["oracles: the --exclude regular expressions (Python's re.fullmatch), rattr's identifier pattern (the real is_name, evaluated per string)",
                                                 "how a declared entry is inlined into callers is the result-generation model's (C03); the end-to-end scenarios compare real runs with real runs"],
        "evaluations": len(acases) + len(fcases) + len(jobs), "distinct_nontrivial": len(set(acases)) + len(set(fcases)),
        "rule": "decorator arguments: the well-formed shapes, then every key x every value of a pool of 21 values (strings valid / invalid as identifiers, numbers, bytes, None, containers, unevaluable expressions, set()) as the value, as an element, and at every position of the nested call-spec shape, positional arguments, unknown keywords, ** unpacking; "
                "files: 3-7 random definitions (functions, classes with a static method, lambdas) with random rattr_ignore / well- and ill-formed rattr_results and an exclusion pattern; end to end: ignore / exclude / four declarations, for a function and a class, in the target and behind a from-import",
        "annotation_cases": len(acases), "annotation_outcomes": kinds, "file_cases": len(fcases), "files_fatal": sum(m["fatal"] for m in fmeta),
        "end_to_end_scenarios": len(progs), "traces_validated_against_impl": len(acases) + len(fcases), "disagreements_checked": len(a_corr) + len(f_corr),
        "crashes": len(a_crash) + len(f_crash), "ignored_or_excluded_with_entry_new": len(f_spec), "excluded_lambda_or_static_known_class": len(f_known) + len(e_known),
        "end_to_end_differences_new": len(e_new), "print_assumptions": pa, "broken_obligation_files": broken, "samples": [ameta[0] if ameta else None]},
        wall_s=T.s, assumptions=["identifiers printable ASCII"], violations=len(V.violations))
    return V.finish()
