"""C17 - undefined-name warnings track Python's local binding rules."""
import fa_run

def main(tier):
    return fa_run.check("C17", tier, new_bits=128 | 512, kf_bit=256, beyond_bit=2048, proof_files=["proofs/FaFacts.v", "proofs/C17Proofs.v", "proofs/C01Complete.v", "proofs/C17Quiet.v", "props/C17.v"],
                        what="a 'potentially undefined' warning for a name that is bound at that point (outside the listed classes), or a missing warning for an unbound / deleted name", kf_prefix="KF_C17")
