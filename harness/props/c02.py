"""C02 - nothing is reported that the body does not do."""
import fa_run

def main(tier):
    return fa_run.check("C02", tier, new_bits=8, kf_bit=8, kf_requires=4096, beyond_bit=8192, proof_files=["proofs/FaFacts.v", "proofs/FaMono.v", "proofs/C02Proofs.v", "proofs/C01Complete.v", "proofs/C02Sound.v", "props/C02.v"],
                        what="a reported name is neither the spelling of an expression of the body (right kind) nor a documented derivation", kf_prefix="KF_C02")
