"""C02 - nothing is reported that the body does not do."""
import itertools
import json

import common as C
import diaglib as D
import fa_run

# class initialisers rattr synthesises (Enum members, NamedTuple fields): the class analyser is not part of the model; the
# rule judged here is the property's own - the initialiser of a class reports nothing its body does not do: for an Enum
# class only its OWN members `K.<member>`, for a NamedTuple class nothing at all.  Class names are chosen so that one is
# a prefix of another and of a module-level variable.
ENUM_NAMES = [("Color", "ColorMode", "ColorLike"), ("Mode", "ModeSet", "Mode_default"), ("Ab", "A", "Abc")]


def class_initialiser_suite(tier):
    out = []
    jobs = []
    with D.Scratch() as root:
        for i, (k1, k2, var) in enumerate(ENUM_NAMES):
            for order in itertools.permutations(range(3)):
                parts = [f"class {k1}(Enum):\n    RED = 1\n    GREEN = 2\n", f"class {k2}(Enum):\n    RGB = 1\n    CMYK = 2\n", f"{var} = 3\n"]
                src = ("from enum import Enum\nfrom typing import NamedTuple\n\n" + "\n".join(parts[j] for j in order)
                       + f"\nclass Pt{i}(NamedTuple):\n    x: int\n    y: int\n\nclass Pt{i}Cloud(NamedTuple):\n    pts: list\n\n"
                       + f"def use(a):\n    return {k1}(a.v), {k2}(a.w), Pt{i}(a.px, a.py)\n")
                d = root / f"e{i}_{''.join(map(str, order))}"
                d.mkdir()
                (d / "target.py").write_text(src)
                jobs.append((d, src, {k1: {f"{k1}.RED", f"{k1}.GREEN"}, k2: {f"{k2}.RGB", f"{k2}.CMYK"}, f"Pt{i}": set(), f"Pt{i}Cloud": set()}))
        runs = D.pmap(lambda j: D.run_rattr(j[0], ["-w", "none", "-o", "results", "target.py"]), jobs)
    for (d, src, want), r in zip(jobs, runs):
        try:
            doc = json.loads(r["stdout"])
        except Exception:  # noqa: BLE001
            out.append({"why": "the class-initialiser module could not be analysed", "source": src, "exit": r["exit"], "stderr": r["stderr"][-300:]})
            continue
        for cls, allowed in want.items():
            got = doc.get(cls)
            if got is None:
                continue
            extra_names = sorted((set(got["gets"]) | set(got["sets"]) | set(got["dels"])) - allowed)
            if extra_names:
                out.append({"why": f"the initialiser of class {cls} reports names its body does not contain: {extra_names}", "source": src,
                            "results_of_class": got, "allowed": sorted(allowed)})
                break
    return out


def main(tier):
    return fa_run.check("C02", tier, new_bits=8, kf_bit=8, kf_requires=4096, beyond_bit=8192, proof_files=["proofs/FaFacts.v", "proofs/FaMono.v", "proofs/C02Proofs.v", "proofs/C01Complete.v", "proofs/C02Sound.v", "props/C02.v"],
                        what="a reported name is neither the spelling of an expression of the body (right kind) nor a documented derivation", kf_prefix="KF_C02",
                        extra=class_initialiser_suite)
