"""C12 - only modules allowed by follow level and exclusions are analysed, each once.

Proof: coq/props/C12.v (BFS: only permitted modules, nothing at level 0, each origin once, closed under the imports of
       what it analyses; the resolver answers only with functions of analysed, permitted modules).
Tie:   generated import graphs over local modules / packages, a site-packages directory and stdlib modules, with cycles
       and diamonds, x follow levels 0-3 x exclusion patterns: the model's BFS is compared with import_irs (names,
       origins, order); the SPECIFICATION - closure of the import graph read from the sources with Python's ast and
       path finder, filtered by an independent classification - is compared with what rattr analysed; functions of
       modules that were not analysed must not show in the results.
"""
from __future__ import annotations

import collections

import common as C
import imp_run

PROP = "C12"
PROOF_FILES = ["proofs/ImpProofs.v", "proofs/ImpReach.v", "props/C12.v"]


def leaked(meta) -> list[str]:
    """distinctive attribute names of functions that live in modules rattr did not analyse, found in the results"""
    res = meta["multi"]["results"]
    if res is None or meta["observed_origins"] is None:
        return []
    analysed = set(meta["observed_origins"])
    text = repr(res)
    out = []
    for fn, mod in meta["place"].items():
        if mod == "target":
            continue
        path = mod.replace(".", "/") + ".py"
        if path not in analysed and f"own_{fn}'" in text:
            out.append(f"own_{fn} (defined in {path}, not analysed)")
    for fn, path in (("pip_f", "venv/lib/python3.12/site-packages/pipmod.py"), ("pip_g", "venv/lib/python3.12/site-packages/pippkg/inner.py"),
                     ("nsp_f", "venv/lib/python3.12/site-packages/nsp/plugin.py")):
        if path not in analysed and f"own_{fn}'" in text:
            out.append(f"own_{fn} (defined in {path}, not analysed)")
    return out


def main(tier: str) -> int:
    T = C.Timer()
    V = C.Verdict(PROP)
    build = C.coq_build(imp_run.MODEL_FILES + PROOF_FILES)
    if any(t in build.failed for t in imp_run.MODEL_FILES):
        raise SystemExit("internal error: model/spec files do not compile:\n" + build.log)
    n_obl, n_done, broken = C.obligations_from(build, PROOF_FILES)
    res = imp_run.run(tier)
    corr, bad = [], []
    by_level = collections.Counter()
    n = n_mods = 0
    for code, m in res["cases"]:
        if code is None:
            continue
        n += 1
        by_level[f"level {m['follow']}" + (" with exclusions" if m["exclude_imports"] else "")] += 1
        n_mods += len(m["observed_origins"] or [])
        info = {"project": m["project"], "follow_imports": m["follow"], "exclude_imports": m["exclude_imports"], "files": {k: v for k, v in m["files"].items()},
                "analysed": m["observed_origins"], "import_graph_from_sources": m["spec_graph"], "excluded_by_spec": m["spec_excluded"]}
        if code & 8:
            bad.append({"why": "a module was analysed that the follow level / exclusions do not allow or that is not reachable", **info})
        if code & 16:
            bad.append({"why": "a permitted module reachable through permitted modules was not analysed", **info})
        if code & 32:
            bad.append({"why": "one file was analysed under two module names", **info})
        lk = leaked(m)
        if lk:
            bad.append({"why": "functions of a module that was not analysed contributed to the results: " + ", ".join(lk), **info, "results": m["multi"]["results"]})
        st = m["multi"].get("stats")
        if st and m["observed_origins"] is not None and st["unique"] != len(m["observed_origins"]):
            bad.append({"why": f"stats report {st['unique']} unique imports but {len(m['observed_origins'])} modules were analysed", **info})
        if code & 4:
            corr.append({"project": m["project"], "code": code, "files": m["files"], "analysed": m["observed_origins"]})
    for x in bad[:4]:
        V.violation({"property": PROP, **x})
    if not bad:
        if corr:
            V.violation({"property": PROP, "broken": "correspondence suite imp (model/Imports.v bfs vs import_irs)", "disagreements": len(corr), "first": corr[0]}, failing_input=False)
        elif broken:
            V.violation({"property": PROP, "broken": broken, "errors": build.failed, "why": "proof obligation no longer checks"}, failing_input=False)
    for f in C.known_findings(PROP):
        V.notes.append(f"listed finding {f['id']} is not checked by this run")
    pa = C.print_assumptions("props/C12.v") if "props/C12.v" in build.ok_targets else ""
    C.write_evidence(PROP, coverage={
        "obligations": max(n_obl, 1), "discharged": n_done, "checker_cmd": "cd /verif/coq && make props/C12.vo",
        "trusted_base": C.TRUSTED_BASE_COMMON + [
            "oracles of the model: module locator, is_in_import_blacklist / is_in_pip / is_in_stdlib as evaluated by the real run; their agreement with the follow levels is judged by the specification side: "
            "modules classified by where their file lives (project directory / a site-packages directory / sysconfig's stdlib directory), exclusion = the pattern fully matches the dotted module name, rattr itself always excluded",
            "the import graph of the specification names, for each import statement at module level, the module file Python's PathFinder gives for it (for `from m import x`: m.x if that is a module, else m); package __init__ files that Python executes on the way are not counted as imported",
            "level 3 is exercised only with stdlib modules without extension-module imports (the README warns about CPython's stdlib)"],
        "evaluations": n, "distinct_nontrivial": n,
        "rule": "generated projects (see C06) plus extra imports of site-packages modules (a package re-exporting from an inner module that imports another site module that imports stdlib), stdlib modules, rattr itself; random import cycles; follow level 0-3; exclusion patterns on top-level modules, packages, sub-packages, site modules",
        "by_level": dict(by_level), "modules_analysed_total": n_mods,
        "traces_validated_against_impl": n, "disagreements_checked": len(corr), "spec_failures": len(bad),
        "print_assumptions": pa, "broken_obligation_files": broken, "samples": []},
        wall_s=T.s + res["wall_s"], assumptions=["identifiers / paths printable ASCII"], violations=len(V.violations))
    return V.finish()
