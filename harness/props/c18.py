"""C18 - serialised output is canonical JSON and round-trips.

Proof: coq/props/C18.v (symbol / interface / location round trip for every symbol kind and nesting depth;
       sorting by an injective key is independent of iteration order; refutation for the IR lists, which
       sort by name only).
Tie:   coq/model/Json.v vs rattr.models.util.serialise / deserialise on symbols harvested from real
       analyses; round trips of FileIr / FileResults / CacheableResults objects in-process; byte equality
       of `-o results|ir|cacheable` across PYTHONHASHSEED values as real subprocesses; sortedness of the
       emitted documents.
"""
from __future__ import annotations

import ast
import json
import os
import random
import sys
import warnings
from pathlib import Path

import common as C
import diaglib as D
import gen_bodies as G
import res_lib as R
import rt

PROP = "C18"
HEADER = "From RattrV Require Import Base Str CallSwaps Json C18Check.\nOpen Scope string_scope.\nOpen Scope list_scope.\n"
MODEL_FILES = ["model/Base.v", "model/Str.v", "model/CallSwaps.v", "model/Json.v", "spec/C18Check.v"]
PROOF_FILES = ["proofs/C18Proofs.v", "props/C18.v"]


# ---- Coq terms -----------------------------------------------------------------------------
def c_json(j) -> str:
    if j is None:
        return "JNull"
    if isinstance(j, bool):
        return f"(JBool {C.cbool(j)})"
    if isinstance(j, int):
        return f"(JNum {j})"
    if isinstance(j, str):
        return f"(JStr {C.cstr(j)})"
    if isinstance(j, list):
        return f"(JArr {C.clist(c_json(x) for x in j)})"
    if isinstance(j, dict):
        return f"(JObj {C.clist('(' + C.cstr(k) + ', ' + c_json(v) + ')' for k, v in j.items())})"
    raise ValueError(f"unsupported JSON value {j!r}")


def c_loc(l) -> str:
    def on(x):
        return "None" if x is None else f"(Some {x})"
    return f"(mkLoc {l.lineno} {l.col_offset} {on(l.end_lineno)} {on(l.end_col_offset)} {C.cstr(str(l.file))})"


def c_ifacej(i) -> str:
    from rattr.models.symbol import AnyCallInterface
    if i is None:
        return "INull"
    if isinstance(i, AnyCallInterface):
        return "IAny"
    return ("(IFace (mkIface " + " ".join([C.cstrs(i.posonlyargs), C.cstrs(i.args), C.copt(i.vararg), C.cstrs(i.kwonlyargs), C.copt(i.kwarg)]) + "))")


def c_symbol(s) -> str:
    k = type(s).__name__
    if k == "Name":
        return f"(SyName {C.cstr(s.name)} {C.cstr(s.basename)} {c_loc(s.location)} {c_ifacej(s.interface)})"
    if k == "Builtin":
        return f"(SyBuiltin {C.cstr(s.name)} {c_loc(s.location)} {c_ifacej(s.interface)})"
    if k == "Import":
        return f"(SyImport {C.cstr(s.name)} {C.cstr(s.qualified_name)} {c_loc(s.location)} {c_ifacej(s.interface)})"
    if k == "Func":
        return f"(SyFunc {C.cstr(s.name)} {c_loc(s.location)} {c_ifacej(s.interface)} {C.cbool(s.is_async)})"
    if k == "Class":
        return f"(SyClass {C.cstr(s.name)} {c_loc(s.location)} {c_ifacej(s.interface)})"
    if k == "Call":
        t = "None" if s.target is None else f"(Some {c_symbol(s.target)})"
        return f"(SyCall {C.cstr(s.name)} {C.cstrs(s.args.args)} {C.cdict(dict(s.args.kwargs))} {t} {c_loc(s.location)})"
    raise ValueError(k)


# ---- programs ------------------------------------------------------------------------------
MODULE_A = '''\
import os
from helper_mod import hf, Helper
from star_mod import *
from star_mod2 import *
from star_mod3 import *

class Cls:
    def __init__(self, a, *r, k=1, **kw):
        self.a = a

    @staticmethod
    def sm(w, /, v):
        return w.s

async def af(x, /, y, *, z=None):
    t = Cls(x.p, k=y)
    hf(x.q)
    hf(y.q)
    os.getcwd()
    return max(x, y.w), Helper(x)

lam = lambda u: u.l
'''
HELPER = "class Helper:\n    def __init__(self, h):\n        self.h = h.hh\n\ndef hf(q):\n    return q.hq\n"
STAR = "def only_one(s):\n    return s.star\n"


def _without_tie_order(text: str) -> str:
    """The document with every gets / sets / dels / calls list put in a canonical order - object key order (the order of
    contexts and of import_irs) is kept, so any other difference between two documents survives."""
    def canon(x, key=None):
        if isinstance(x, dict):
            return {k: canon(v, k) for k, v in x.items()}
        if isinstance(x, list):
            ys = [canon(v) for v in x]
            if key in ("gets", "sets", "dels", "calls"):
                # symbols compare without their location, so of two equally named symbols reached from two places a set
                # keeps either: the element's own location is part of the same finding (nested targets keep theirs)
                ys = [{k: v for k, v in y.items() if k != "location"} if isinstance(y, dict) else y for y in ys]
                return sorted(ys, key=lambda v: json.dumps(v, sort_keys=True))
            return ys
        return x
    try:
        return json.dumps(canon(json.loads(text)))
    except Exception:  # noqa: BLE001
        return text


def analyse_project(root: Path, files: dict[str, str], target: str, follow=1):
    """Real pipeline pieces in-process; returns (file_ir, import_irs, results, cacheable)."""
    from rattr.analyser.file import parse_and_analyse_file
    from rattr.models.results.util import make_cacheable_results
    from rattr.results import generate_results_from_ir

    for name, src in files.items():
        p = root / name
        p.parent.mkdir(parents=True, exist_ok=True)
        p.write_text(src)
    rt.clear_caches()
    rt.set_config(target=str(root / target), current_file=None, _follow_imports_level=follow)
    with rt.capture_stderr():
        file_ir, import_irs, _ = parse_and_analyse_file()
        results = generate_results_from_ir(target_ir=file_ir, import_irs=import_irs)
        cacheable = make_cacheable_results(results, file_ir, import_irs)
    return file_ir, import_irs, results, cacheable


def roundtrip_problems(obj, typ, label):
    from rattr.models.util import deserialise, serialise
    out = []
    try:
        s = serialise(obj, indent=4)
        json.loads(s)
        back = deserialise(s, type=typ)
        if back != obj:
            out.append(f"{label}: deserialised object != original")
        s2 = serialise(back, indent=4)
        if s2 != s:
            out.append(f"{label}: serialise(deserialise(doc)) != doc")
    except BaseException as e:  # noqa: BLE001
        out.append(f"{label}: {type(e).__name__}: {str(e)[:200]}")
    return out


def sortedness_problems(results_doc: dict, ir_doc: dict):
    out = []
    if list(results_doc) != sorted(results_doc):
        out.append("results: function names not sorted")
    for fn, r in results_doc.items():
        for k in ("gets", "sets", "dels", "calls"):
            if r[k] != sorted(r[k]):
                out.append(f"results[{fn}][{k}] not sorted")
    def check_ir(ir, where):
        if list(ir["symbols"]) != sorted(ir["symbols"]):
            out.append(f"{where}: symbols not sorted")
        for fn, lists in ir["function_irs"].items():
            for k, xs in lists.items():
                names = [x["name"] for x in xs]
                if names != sorted(names):
                    out.append(f"{where}: function_irs[{fn}][{k}] not sorted by name")
    check_ir(ir_doc["target_ir"]["ir"], "target_ir")
    for m, ir in ir_doc["import_irs"].items():
        check_ir(ir, f"import_irs[{m}]")
    return out


def has_name_ties(file_ir, import_irs) -> bool:
    """Finding class KF_C18_1: two elements of one IR list share their sort key (the name), or a context holds
    symbols whose insertion order came from a set (star-import expansion of more than one name)."""
    for ir in [file_ir, *import_irs.values()]:
        for _, fir in ir.items():
            for k in ("gets", "sets", "dels", "calls"):
                names = [s.name for s in fir[k]]
                if len(names) != len(set(names)):
                    return True
    return False


def main(tier: str) -> int:
    warnings.simplefilter("ignore")
    T = C.Timer()
    rng = random.Random(C.SEED)
    V = C.Verdict(PROP)
    build = C.coq_build(MODEL_FILES + PROOF_FILES)
    if any(t in build.failed for t in MODEL_FILES):
        raise SystemExit("internal error: model/spec files do not compile:\n" + build.log)
    n_obl, n_done, broken = C.obligations_from(build, PROOF_FILES)

    from rattr.models.ir import FileIr
    from rattr.models.results import CacheableResults, FileResults
    from rattr.models.symbol import Symbol
    from rattr.models.util import deserialise, serialise

    problems = []
    sym_cases, sym_meta = [], []
    kinds = {}
    n_objects = 0
    projects = []
    n_graphs = 8 if tier == "quick" else 120
    # several starred imports in one module: the order in which they are expanded is the order of the names in the context
    projects.append(("module_a", {"target.py": MODULE_A, "helper_mod.py": HELPER, "star_mod.py": STAR,
                                  "star_mod2.py": "def second_one(s):\n    return s.star2\n\ndef second_two(s):\n    return s.star2b\n",
                                  "star_mod3.py": "from star_mod4 import *\n\ndef third_one(s):\n    return s.star3\n",
                                  "star_mod4.py": "def fourth_one(s):\n    return s.star4\n"}, "target.py"))
    projects.append(("identical_imports", {"target.py": "from dup_one import f1\nfrom dup_two import f1 as f2\nfrom dup_three import f1 as f3\n\ndef use(a):\n    f1(a)\n    f2(a)\n    f3(a)\n",
                                          "dup_one.py": "def f1(p):\n    return p.same\n", "dup_two.py": "def f1(p):\n    return p.same\n",
                                          "dup_three.py": "def f1(p):\n    return p.same\n"}, "target.py"))
    # an imported module that itself imports several local modules (by every import form) - and so do two of those:
    # the order in which sibling imports are followed is the key order of import_irs in the IR document
    leafs = {f"leaf_{c}.py": f"def lf_{c}(p):\n    return p.leaf_{c}\n" for c in "abcdefgh"}
    projects.append(("hub_with_many_imports", {
        "target.py": "from hub import route\nimport side_hub\n\ndef use(a):\n    side_hub.go(a)\n    return route(a)\n",
        "hub.py": "import leaf_a\nfrom leaf_b import lf_b\nimport leaf_c as lc\nfrom leaf_d import lf_d as ld\nimport leaf_e\nfrom leaf_f import *\n\n"
                  "def route(p):\n    leaf_a.lf_a(p)\n    lf_b(p)\n    lc.lf_c(p)\n    ld(p)\n    leaf_e.lf_e(p)\n    return lf_f(p)\n",
        "side_hub.py": "from leaf_g import lf_g\nfrom leaf_h import lf_h\nfrom leaf_a import lf_a\n\ndef go(p):\n    lf_g(p)\n    lf_h(p)\n    return lf_a(p)\n",
        **leafs}, "target.py"))
    for i in range(n_graphs):
        defs = R.gen_graph(rng, rng.randint(2, 5), 2) if i % 2 else R.gen_tree_graph(rng, rng.randint(2, 5))
        projects.append((f"graph{i}", {"target.py": R.module_source(defs)}, "target.py"))
    bodies = G.catalogue(1, rng, 60) + G.INTERPLAY
    for mi, grp in enumerate(G.modules(bodies, per_module=30)):
        projects.append((f"bodies{mi}", {"target.py": G.PRELUDE.replace("import collections\n", "import collections\n") + "\n".join(s for _, _, s in grp)}, "target.py"))

    old_path0, old_cwd = sys.path[0], os.getcwd()
    ties = {}
    tie_reser = []
    with D.Scratch() as scratch:
        try:
            for name, files, target in projects:
                root = scratch / name
                root.mkdir()
                sys.path[0] = str(root)
                os.chdir(root)
                try:
                    file_ir, import_irs, results, cacheable = analyse_project(root, files, target)
                except SystemExit:
                    continue
                except BaseException as e:  # noqa: BLE001
                    continue
                ties[name] = has_name_ties(file_ir, import_irs)
                for obj, typ, label in ((file_ir, FileIr, "FileIr"), (results, FileResults, "FileResults"),
                                        (cacheable, CacheableResults, "CacheableResults"),
                                        *((ir, FileIr, f"import FileIr {m}") for m, ir in import_irs.items())):
                    n_objects += 1
                    for p in roundtrip_problems(obj, typ, label):
                        if "FileIr" in label and p.endswith("serialise(deserialise(doc)) != doc") and ties[name]:
                            tie_reser.append({"project": name, "problem": p})     # KF_C18_1: ties in the name-only sort
                        else:
                            problems.append({"project": name, "files": files, "problem": p})
                # harvest symbols for the model correspondence
                syms = []
                for ir in [file_ir, *import_irs.values()]:
                    syms += list(ir.context.symbol_table.symbols)[-12:]
                    for s, fir in ir.items():
                        syms.append(s)
                        for k in ("gets", "sets", "dels", "calls"):
                            syms += list(fir[k])
                for s in syms:
                    kinds[type(s).__name__] = kinds.get(type(s).__name__, 0) + 1
                if len(syms) > 120:
                    syms = rng.sample(syms, 120)
                for s in syms:
                    try:
                        doc = json.loads(serialise(s), object_pairs_hook=dict)
                        back_ok = deserialise(serialise(s), type=Symbol) == s
                        term = f"(mkSymCase {c_symbol(s)} {c_json(doc)} {C.cbool(back_ok)})"
                    except Exception:  # noqa: BLE001 - non-ASCII etc.
                        continue
                    sym_cases.append(term)
                    sym_meta.append({"project": name, "symbol": repr(s)[:300]})
        finally:
            sys.path[0] = old_path0
            os.chdir(old_cwd)
            rt.clear_caches()

        # hash seeds: real subprocesses
        seeds = [0, 1, 2, 3] if tier == "quick" else list(range(8))
        jobs = []
        sub_projects = projects[: (6 if tier == "quick" else 60)]
        for name, files, target in sub_projects:
            root = scratch / ("sub_" + name)
            root.mkdir()
            for fn, src in files.items():
                (root / fn).write_text(src)
            for out in ("results", "ir", "cacheable"):
                for s in seeds:
                    jobs.append((name, files, out, s, root))
        runs = D.pmap(lambda j: D.run_rattr(j[4], ["-w", "none", "-o", j[2], "target.py"], hashseed=j[3]), jobs)
    by = {}
    for (name, files, out, s, root), r in zip(jobs, runs):
        by.setdefault((name, out), {"files": files, "outs": {}})["outs"][s] = (r["exit"], r["stdout"])
    seed_new, seed_known, seed_known2 = [], [], []
    listed = {f.get("class") for f in C.known_findings(PROP)}
    from props.c05 import _same_named_calls_and_recursion
    sorted_problems = []
    for (name, out), v in by.items():
        outs = v["outs"]
        distinct = {o for o in outs.values()}
        first = outs[seeds[0]]
        if first[0] == 0:
            try:
                doc = json.loads(first[1])
            except Exception:  # noqa: BLE001
                sorted_problems.append({"project": name, "output": out, "problem": "stdout is not valid JSON"})
                doc = None
            if doc is not None and out == "results":
                irdoc = by.get((name, "ir"), {}).get("outs", {}).get(seeds[0])
                if irdoc and irdoc[0] == 0:
                    for p in sortedness_problems(doc, json.loads(irdoc[1])):
                        sorted_problems.append({"project": name, "problem": p, "files": v["files"]})
        if len(distinct) > 1:
            info = {"project": name, "output": out, "distinct_documents": len(distinct), "files": v["files"]}
            if out == "ir" and len({_without_tie_order(o[1]) for o in outs.values()}) == 1:
                seed_known.append(info)       # the documents differ only in the order of equally named list elements (KF_C18_1)
            elif (out in ("results", "cacheable") and "KF_C18_2" in listed and set(v["files"]) == {"target.py"}
                  and _same_named_calls_and_recursion(v["files"]["target.py"])):
                seed_known2.append(info)      # the RESULTS themselves depend on the seed there (KF_C05_2, listed for C18 as KF_C18_2)
            else:
                seed_new.append(info)

    codes = C.coq_eval_codes("c18", HEADER, "sym_case", "c18_code", sym_cases, shard=150)
    corr_fail = [m for c, m in zip(codes, sym_meta) if c & 1]
    rt_fail = [m for c, m in zip(codes, sym_meta) if c & 2]

    for p in problems[:3]:
        V.violation({"property": PROP, "why": "round trip failed", **p})
    for m in rt_fail[:2]:
        V.violation({"property": PROP, "why": "a symbol does not round-trip through its JSON document", **m})
    for p in seed_new[:3]:
        V.violation({"property": PROP, "why": "output bytes differ between PYTHONHASHSEED values", **p})
    for p in sorted_problems[:3]:
        V.violation({"property": PROP, "why": "a collection of the emitted document is not sorted / document is not JSON", **p})
    if not (problems or rt_fail or seed_new or sorted_problems):
        if corr_fail:
            V.violation({"property": PROP, "broken": "correspondence suite c18 (model/Json.v ser_symbol vs rattr serialise)",
                         "disagreements": len(corr_fail), "first": corr_fail[0]}, failing_input=False)
        elif broken:
            V.violation({"property": PROP, "broken": broken, "errors": build.failed, "why": "proof obligation no longer checks"}, failing_input=False)
    for f in C.known_findings(PROP):
        if (f.get("class") == "KF_C18_2" and seed_known2) or (f.get("class") != "KF_C18_2" and (seed_known or tie_reser)):
            V.known(f"{f['id']}: {f['what']}")
        else:
            V.notes.append(f"listed finding {f['id']} did not reproduce in this run")
    pa = C.print_assumptions("props/C18.v") if "props/C18.v" in build.ok_targets else ""
    C.write_evidence(PROP, coverage={
        "obligations": max(n_obl, 1), "discharged": n_done, "checker_cmd": "cd /verif/coq && make props/C18.vo",
        "trusted_base": C.TRUSTED_BASE_COMMON + ["cattrs / json of the installed environment are exercised, not modelled (the model is at the level of JSON values)"],
        "evaluations": n_objects + len(sym_cases) + len(runs), "distinct_nontrivial": len(set(sym_cases)),
        "rule": "objects (FileIr incl. imported, FileResults, CacheableResults) and symbols harvested from real analyses of a module with every symbol / interface kind, a star import, identical imported files, "
                "generated call graphs and the function-body catalogue; each round-tripped; symbols compared with the Coq serialiser; `-o results|ir|cacheable` as subprocesses across hash seeds; distinct = distinct symbols",
        "objects_round_tripped": n_objects, "symbols_compared_with_model": len(sym_cases), "symbol_kinds": kinds,
        "traces_validated_against_impl": len(sym_cases), "disagreements_checked": len(corr_fail),
        "hashseed_runs": len(runs), "hashseed_dependent_known_class": len(seed_known), "hashseed_dependent_new": len(seed_new),
        "round_trip_problems": len(problems) + len(rt_fail), "reserialisation_differs_on_name_ties_known_class": len(tie_reser), "sortedness_problems": len(sorted_problems),
        "print_assumptions": pa, "broken_obligation_files": broken, "samples": [sym_meta[0] if sym_meta else None]},
        wall_s=T.s, assumptions=["identifiers / paths printable ASCII"], violations=len(V.violations))
    return V.finish()
