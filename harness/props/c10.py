"""C10 - names follow the documented nameable format, compositionally and totally.

Proof: coq/props/C10.v (both namers spell every 'plain' expression as the README table says, for
       expression trees of any depth; literal getattr-family chains spell as the dotted access at
       any nesting depth; refutations for the getattr-spine cases).
Tie:   coq/model/Naming.v vs rattr.ast.util.names_of and rattr.analyser.util.get_basename_fullname_pair
       in-process, exhaustively for all trees up to a depth over every expression class, plus
       random deeper trees; the spec checker check_C10 judges rattr's own answers.
"""
from __future__ import annotations

import ast
import itertools
import random

import common as C
import emit
import rt

PROP = "C10"
HEADER = "From RattrV Require Import Base PyAst Naming Spell C10Check.\nOpen Scope string_scope.\nOpen Scope list_scope.\n"

ATOMS = ["x", "getattr", "1", "'s'", "(a + b)", "[a, b]", "{a: 1}", "(a, b)", "{a}", "(-a)", "(lambda: a)",
         "[i for i in a]", "{i for i in a}", "(i for i in a)", "{i: i for i in a}", "f'{a}'", "(a if b else c)",
         "(not a)", "(a < b)", "(a and b)", "(yy := a)", "...", "a[1:2]"]
WRAPS = ["{E}.attr", "{E}[0]", "{E}()", "{E}(a, k=b.c)", "getattr({E}, 'lit')", "getattr({E}, var)", "getattr({E})",
         "setattr({E}, 'sa', v.w)", "hasattr({E}, 'ha')", "delattr({E}, 'da')", "getattr({E}, 'lit', d.e)",
         "getattr({E}, 1 + 2)", "getattr({E}, 'l2').m", "other({E}, 'lit')", "getattr(z, {E})", "{E}.getattr(q, 'r')"]
STAR = "[*{E}]"


# the same spellings in target position (ctx = Store / Del): the README rule does not depend on the context
T_ATOMS = ["x", "tail", "getattr"]
T_WRAPS = ["{E}.attr", "{E}[0]", "{E}().res", "{E}(a, k=b.c)[0]", "getattr({E}, 'lit').m", "{E}[i.j].k"]
T_POSITIONS = [
    ("store", "{E} = v", lambda m: m.body[0].targets[0]),
    ("store, starred in a list", "[*{E}] = v", lambda m: m.body[0].targets[0].elts[0]),
    ("store, starred in a tuple", "head, *{E} = v", lambda m: m.body[0].targets[0].elts[1]),
    ("del", "del {E}", lambda m: m.body[0].targets[0]),
    ("for target", "for {E} in v:\n    pass", lambda m: m.body[0].target),
    ("for target, starred", "for first, *{E} in v:\n    pass", lambda m: m.body[0].target.elts[1]),
    ("with target", "with v as {E}:\n    pass", lambda m: m.body[0].items[0].optional_vars),
    ("augmented", "{E} += 1", lambda m: m.body[0].target),
]


def target_nodes():
    level = list(T_ATOMS)
    exprs = list(level)
    for _ in range(2):
        level = [w.replace("{E}", e) for e in level for w in T_WRAPS]
        exprs += level
    out = []
    for e in exprs:
        for label, tmpl, pick in T_POSITIONS:
            try:
                node = pick(ast.parse(tmpl.replace("{E}", e)))
            except SyntaxError:
                continue
            out.append((f"{tmpl.replace('{E}', e)}   [{label}]", node))
    return out


def expr_of(src: str) -> ast.expr:
    e = ast.parse(src, mode="eval").body
    return e


def all_exprs(depth: int):
    level = list(ATOMS)
    out = list(level)
    for _ in range(depth):
        level = [w.replace("{E}", e) for e in level for w in WRAPS]
        out += level
    return out


def random_expr(rng: random.Random, depth: int) -> str:
    e = rng.choice(ATOMS[:4] if rng.random() < 0.6 else ATOMS)
    for _ in range(rng.randint(1, depth)):
        e = rng.choice(WRAPS).replace("{E}", e)
    return e


def observe(node: ast.expr, clear: bool = True):
    from rattr.analyser.util import get_basename_fullname_pair as old
    from rattr.ast.util import names_of

    def run(f):
        with rt.capture_stderr():
            try:
                b, full = f()
                return ("ok", b, full)
            except SystemExit:
                return ("fatal",)
            except BaseException as e:  # noqa: BLE001
                return ("raise", type(e).__name__)

    if clear:
        names_of.cache_clear()
    return [
        run(lambda: names_of(node, safe=True)),
        run(lambda: names_of(node, safe=True, unravel_attr_access_calls=False)),
        run(lambda: names_of(node)),
        run(lambda: names_of(node, unravel_attr_access_calls=False)),
        run(lambda: old(node, True)),
        run(lambda: old(node, False)),
    ]


def main(tier: str) -> int:
    T = C.Timer()
    rng = random.Random(C.SEED)
    V = C.Verdict(PROP)
    build = C.coq_build(["model/Base.v", "model/PyAst.v", "model/Naming.v", "spec/Spell.v", "spec/C10Check.v",
                         "proofs/C10Proofs.v", "props/C10.v", "gen/Tables.v", "proofs/TablesOk.v"])
    need = ["model/Base.v", "model/PyAst.v", "model/Naming.v", "spec/Spell.v", "spec/C10Check.v"]
    if any(t in build.failed for t in need):
        raise SystemExit("internal error: model/spec files do not compile:\n" + build.log)
    proof_files = ["proofs/C10Proofs.v", "props/C10.v", "proofs/TablesOk.v"]
    n_obl, n_done, broken = C.obligations_from(build, proof_files)

    rt.set_config()
    depth, n_rand, rdepth = (2, 1500, 6) if tier == "quick" else (3, 30000, 9)
    srcs = all_exprs(depth)
    n_exh = len(srcs)
    srcs += [random_expr(rng, rdepth) for _ in range(n_rand)]
    # the starred form of a sample (Starred is only valid inside a display)
    srcs_star = [STAR.replace("{E}", s) for s in rng.sample(srcs, min(len(srcs), 300))]
    cases, meta, stream = [], [], []
    seen = set()
    for s, star in itertools.chain(((s, False) for s in srcs), ((s, True) for s in srcs_star)):
        if (s, star) in seen:
            continue
        seen.add((s, star))
        try:
            node = expr_of(s)
        except SyntaxError:
            continue
        if star:
            node = node.elts[0]
        obs = observe(node)
        try:
            term = f"({emit.emit(node)}, (mkC10 {' '.join(emit.c_nres(o) for o in obs)}))"
        except emit.EmitError:
            continue
        cases.append(term)
        stream.append((s, star, obs))
        meta.append({"expr": ("*" if star else "") + (s[2:-1] if star else s), "names_of(safe)": obs[0], "names_of(safe,no-unravel)": obs[1],
                     "names_of(unsafe)": obs[2], "old(safe)": obs[4], "old(unsafe)": obs[5]})

    # naming is a function of the tree alone: the same expressions named again as a STREAM of short-lived trees (each
    # parsed, named and dropped before the next, the memo cache of names_of left as it is between them) must be spelt
    # as they were with a fresh cache - a cache keyed on anything but the tree itself shows here
    from rattr.ast.util import names_of as _names_of
    _names_of.cache_clear()
    n_stream, stream_bad = 0, []
    for s, star, obs in stream[: (4000 if tier == "quick" else 40000)]:
        node = expr_of(s)
        if star:
            node = node.elts[0]
        again = observe(node, clear=False)
        del node
        n_stream += 1
        if again != obs and len(stream_bad) < 5:
            stream_bad.append({"expr": ("*" if star else "") + (s[2:-1] if star else s), "fresh cache": obs, "as part of a stream": again})
    _names_of.cache_clear()
    for m in stream_bad:
        V.violation({"property": PROP, "why": "the spelling of an expression depends on which trees were named before it (names_of is not a function of the tree)",
                     **m, "replay": "name the generated expressions in order, each parsed afresh and dropped after naming, without clearing names_of's cache"})

    n_targets = 0
    for label, node in target_nodes():
        obs = observe(node)
        try:
            term = f"({emit.emit(node)}, (mkC10 {' '.join(emit.c_nres(o) for o in obs)}))"
        except emit.EmitError:
            continue
        n_targets += 1
        cases.append(term)
        meta.append({"expr": label, "names_of(safe)": obs[0], "names_of(safe,no-unravel)": obs[1],
                     "names_of(unsafe)": obs[2], "old(safe)": obs[4], "old(unsafe)": obs[5]})

    codes = C.coq_eval_codes("c10", HEADER, "node * c10_obs", "c10_code", cases, shard=500)
    corr_fail = [m for c, m in zip(codes, meta) if c & 1]
    # a spec failure is 'known' only inside a listed class AND when it is the failure the model predicts
    new_viol = [m for c, m in zip(codes, meta) if (c & 2) and (not (c & 4) or (c & 1))]
    kf = [m for c, m in zip(codes, meta) if (c & 2) and (c & 4) and not (c & 1)]

    for m in new_viol[:5]:
        V.violation({"property": PROP, "why": "spec checker check_C10 rejects rattr's spelling; expression outside the listed finding class",
                     **m, "replay": "rattr.ast.util.names_of / rattr.analyser.util.get_basename_fullname_pair on ast.parse(expr, mode='eval').body"})
    if not new_viol:
        if corr_fail:
            V.violation({"property": PROP, "broken": "correspondence suite c10 (model/Naming.v vs the two namers)",
                         "disagreements": len(corr_fail), "first": corr_fail[0]}, failing_input=False)
        elif broken:
            V.violation({"property": PROP, "broken": broken, "errors": build.failed, "why": "proof obligation no longer checks"},
                        failing_input=False)
    for f in C.known_findings(PROP):
        if kf:
            V.known(f"{f['id']}: {f['what']}")
        else:
            V.notes.append(f"listed finding {f['id']} did not reproduce")

    pa = C.print_assumptions("props/C10.v") if "props/C10.v" in build.ok_targets else ""
    C.write_evidence(
        PROP,
        coverage={
            "obligations": n_obl, "discharged": n_done, "checker_cmd": "cd /verif/coq && make props/C10.vo",
            "trusted_base": C.TRUSTED_BASE_COMMON + ["harness/emit.py (Python ast -> Coq node terms)"],
            "evaluations": len(cases), "distinct_nontrivial": len({m["expr"] for m in meta if len(m["expr"]) > 3}),
            "target_position_nodes": n_targets,
            "rule": f"{n_targets} nodes in target position (Store / Del context: assignment, starred in list / tuple, del, for, with, augmented) over {len(T_ATOMS)} atoms x {len(T_WRAPS)} wrappers to depth 2; "
                    f"all expression trees of wrap-depth <= {depth} over {len(ATOMS)} atoms (one per expression class) x {len(WRAPS)} wrappers "
                    f"(attribute, subscript, call, getattr-family calls with literal / variable / missing / extra arguments), {n_exh} exhaustive + {n_rand} random to depth {rdepth} "
                    "+ starred forms; 6 observations each (names_of safe/unsafe x unravel, old namer safe/unsafe); distinct = distinct source text",
            "exhaustive": False, "traces_validated_against_impl": len(cases), "disagreements_checked": len(corr_fail),
            "spec_failures_new": len(new_viol), "spec_failures_in_known_class": len(kf),
            "node_class_counts": dict(emit.counts.most_common(40)),
            "print_assumptions": pa, "broken_obligation_files": broken,
            "samples": [meta[5], meta[len(meta) // 2], (kf[0] if kf else None)],
        },
        wall_s=T.s, assumptions=["identifiers and string constants are printable ASCII"], violations=len(V.violations))
    return V.finish()
