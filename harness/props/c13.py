"""C13 - module names resolve the way Python's import system resolves them.

Proof: coq/props/C13.v (relative-import arithmetic = importlib's _resolve_name for all depths and
       levels; prefix search returns the longest existing prefix for every file system; the
       path-derived name locates the same file under stated hypotheses; name-clash witness refutes
       the unconditional statement).
Tie:   coq/model/ModNames.v vs rattr.module_locator.util on synthesised package trees, all
       (importing file, level, dotted name) triples; importlib.util.resolve_name and the real file
       system are the external oracles; spec checkers judge rattr's own answers.
"""
from __future__ import annotations

import importlib.util
import os
import random
import sys
from pathlib import Path

import common as C
import diaglib as D
import rt

PROP = "C13"
HEADER = "From RattrV Require Import Base ModNames PyImport C13Check.\nOpen Scope string_scope.\nOpen Scope list_scope.\n"
PKGS = ["zpa", "zpb"]
MODS = ["zma", "zmb"]


def gen_tree(rng: random.Random, depth: int, clash: bool = False) -> list[str]:
    """Relative file paths of a package tree."""
    files = []

    def go(prefix, d):
        if rng.random() < 0.8 and prefix:
            files.append(f"{prefix}/__init__.py")
        for m in MODS:
            if rng.random() < 0.6:
                files.append(f"{prefix}/{m}.py" if prefix else f"{m}.py")
        if d < depth:
            for p in PKGS:
                if rng.random() < (0.75 if d == 0 else 0.5):
                    go(f"{prefix}/{p}" if prefix else p, d + 1)

    go("", 0)
    if not files:
        files = ["zpa/__init__.py", "zpa/zma.py"]
    return sorted(set(files))


FIXED_TREES = [
    ["zpa/__init__.py", "zpa/zma.py", "zpa/zpb/__init__.py", "zpa/zpb/zma.py", "zpa/zpb/zmb.py", "zma.py"],
    # a module beside a package of the same name
    ["zpa/__init__.py", "zpa/zma.py", "zpa/zma/__init__.py", "zpa/zma/zmb.py"],
    # namespace directory (no __init__)
    ["zpa/zma.py", "zpa/zpb/zmb.py", "zpa/zpb/__init__.py"],
]


def comps(p: Path) -> list[str]:
    return [c for c in p.parts if c != "/"]


def true_name(rel: str) -> list[str]:
    parts = rel.split("/")
    if parts[-1] == "__init__.py" and len(parts) > 1:
        return parts[:-1]
    parts[-1] = parts[-1][:-3]
    return parts


def run_tree(root: Path, files: list[str], extra_root_prefix: bool, max_level: int, rng, sample: int | None):
    """All triples of one tree against the real functions.  Returns (terms, metas)."""
    from rattr.module_locator import util as U

    for f in files:
        p = root / f
        p.parent.mkdir(parents=True, exist_ok=True)
        p.write_text("x = 1\n")
    all_files = [comps(root / f) for f in files]
    dirs = set()
    for f in files:
        p = (root / f).parent
        while True:
            dirs.add(tuple(comps(p)))
            if p == root:
                break
            p = p.parent
    dir_terms = C.clist(C.cstrs(d) for d in sorted(dirs))
    file_terms = C.clist(C.cstrs(f) for f in all_files)

    names: list = [None]
    simple = sorted({c for f in files for c in true_name(f)})
    names += simple
    dotted = sorted({".".join(true_name(f)[i:j]) for f in files for i in range(len(true_name(f)))
                     for j in range(i + 2, len(true_name(f)) + 1)})
    names += dotted[:6] + ["zz_missing", "zpa.zz_missing"]

    triples = [(f, lvl, nm) for f in files for lvl in range(1, max_level + 1) for nm in names]
    if sample is not None and len(triples) > sample:
        triples = rng.sample(triples, sample)

    old_path0, old_cwd = sys.path[0], os.getcwd()
    sys.path[0] = str(root)
    os.chdir(root)
    terms, metas = [], []
    try:
        for f, lvl, nm in triples:
            file_abs = root / f
            rt.clear_caches()
            cfg = rt.set_config(target=str(file_abs), current_file=str(file_abs))
            tn = true_name(f)
            is_init = file_abs.name == "__init__.py"
            try:
                base = U.derive_module_name_from_path(file_abs)
                if base is None:
                    abs_, found, located = "", None, None
                else:
                    abs_ = U.derive_absolute_module_name(base, nm, lvl)
                    found, _ = U.find_module_name_and_spec(abs_)
                    spec = U.find_module_spec_fast(base)
                    located = comps(Path(spec.origin)) if spec is not None and spec.origin else None
                exc = None
            except BaseException as e:  # noqa: BLE001
                exc = f"{type(e).__name__}: {e}"
                base, abs_, found, located = None, "", None, None
            # oracle: Python's own resolution for the module as Python names it
            package = ".".join(tn if is_init else tn[:-1])
            try:
                orc = importlib.util.resolve_name("." * lvl + (nm or ""), package) if package else None
            except ImportError:
                orc = None
            meta = {"root": str(root), "tree": files, "file": f, "level": lvl, "name": nm, "python_module_name": ".".join(tn),
                    "rattr": {"derive_module_name_from_path": base, "derive_absolute_module_name": abs_,
                              "find_module_name_and_spec": found, "located": "/".join(located) if located else None},
                    "importlib.util.resolve_name": orc, "exception": exc}
            if exc is not None:
                metas.append(meta)
                terms.append(None)
                continue
            term = (f"(mkC13 {file_terms} {dir_terms} {C.cstrs(comps(root))} {C.cstrs(comps(file_abs))} {C.cbool(is_init)} "
                    f"{C.cstrs(tn)} {lvl} {C.copt(nm)} {C.copt(base)} {C.cstr(abs_)} {C.copt(found)} "
                    f"{'None' if located is None else '(Some ' + C.cstrs(located) + ')'} {C.copt(orc)})")
            terms.append(term)
            metas.append(meta)
    finally:
        sys.path[0] = old_path0
        os.chdir(old_cwd)
    return terms, metas


def main(tier: str) -> int:
    T = C.Timer()
    rng = random.Random(C.SEED)
    V = C.Verdict(PROP)
    build = C.coq_build(["model/Base.v", "model/ModNames.v", "spec/PyImport.v", "spec/C13Check.v",
                         "proofs/C13Proofs.v", "props/C13.v"])
    need = ["model/Base.v", "model/ModNames.v", "spec/PyImport.v", "spec/C13Check.v"]
    if any(t in build.failed for t in need):
        raise SystemExit("internal error: model/spec files do not compile:\n" + build.log)
    proof_files = ["proofs/C13Proofs.v", "props/C13.v"]
    n_obl, n_done, broken = C.obligations_from(build, proof_files)

    n_trees, depth, sample = (14, 2, 220) if tier == "quick" else (120, 3, 600)
    terms, metas = [], []
    with D.Scratch() as scratch:
        trees = list(FIXED_TREES) + [gen_tree(rng, depth) for _ in range(n_trees)]
        for i, files in enumerate(trees):
            t, m = run_tree(scratch / f"t{i}", files, False, depth + 3, rng, sample)
            terms += t
            metas += m
        # the name-clash layout of the known finding: R/zpa/zma.py beside R/R'/zpa/zma.py with cwd = R
        r = scratch / "clashroot"
        inner = r.name
        files = ["zpa/__init__.py", "zpa/zma.py", f"{inner}/zpa/__init__.py", f"{inner}/zpa/zma.py", f"{inner}/__init__.py"]
        t, m = run_tree(r, files, True, 2, rng, 120)
        terms += t
        metas += m
        rt.clear_caches()

    crashed = [m for t, m in zip(terms, metas) if t is None]
    live = [(t, m) for t, m in zip(terms, metas) if t is not None]
    codes = C.coq_eval_codes("c13", HEADER, "c13_case", "c13_code", [t for t, _ in live], shard=150)

    corr_fail, new_viol, kf_hits = [], [], 0
    for code, (_, m) in zip(codes, live):
        if code & 32:
            raise SystemExit(f"internal error: spec py_resolve disagrees with importlib.util.resolve_name on {m}")
        clash = bool(code & 16)
        if code & 1:
            corr_fail.append(m)
        failed = [nm for bit, nm in ((2, "C13a relative-import resolution / diagnosis"), (4, "C13b longest existing prefix"),
                                     (8, "C13c derived name locates the same file")) if code & bit]
        if failed:
            if clash and not (code & 1):   # known = inside the listed class AND the failure the model predicts
                kf_hits += 1
            else:
                new_viol.append({**m, "violated": failed})

    for m in crashed[:3]:
        V.violation({"property": PROP, "why": "a module_locator function raised", **m})
    for m in new_viol[:5]:
        V.violation({"property": PROP, "why": "spec checker rejects rattr's answer; input outside the listed finding class", **m})
    if not new_viol and not crashed:
        if corr_fail:
            V.violation({"property": PROP, "broken": "correspondence suite c13 (model/ModNames.v vs rattr.module_locator.util)",
                         "disagreements": len(corr_fail), "first": corr_fail[0]}, failing_input=False)
        elif broken:
            V.violation({"property": PROP, "broken": broken, "errors": build.failed,
                         "why": "proof obligation no longer checks"}, failing_input=False)
    for f in C.known_findings(PROP):
        if f["class"] == "KF_C13_1" and kf_hits:
            V.known(f"{f['id']}: {f['what']}")
        elif f["class"] == "KF_C13_1":
            V.notes.append(f"listed finding {f['id']} did not reproduce in this run")

    pa = C.print_assumptions("props/C13.v") if "props/C13.v" in build.ok_targets else ""
    C.write_evidence(
        PROP,
        coverage={
            "obligations": n_obl, "discharged": n_done,
            "checker_cmd": "cd /verif/coq && make props/C13.vo",
            "trusted_base": C.TRUSTED_BASE_COMMON + ["importlib.util.resolve_name and the real file system as external oracles",
                                                     "isort's stdlib classification is an oracle (generated names are not stdlib names)"],
            "evaluations": len(terms), "distinct_nontrivial": len({(tuple(m["tree"]), m["file"], m["level"], m["name"]) for m in metas}),
            "rule": f"{len(FIXED_TREES)} fixed + {n_trees} random package trees (depth <= {depth}, packages with/without __init__, module beside package, namespace dirs) + the name-clash layout; "
                    f"all (importing file, level <= depth+3, name in {{None, every simple name, dotted names, missing}}) triples, sampled to {sample} per tree; distinct = distinct (tree, file, level, name)",
            "traces_validated_against_impl": len(live), "disagreements_checked": len(corr_fail),
            "spec_failures_new": len(new_viol), "spec_failures_in_known_class": kf_hits, "crashes": len(crashed),
            "oracle_validated_cases": len(live), "escaping_imports": sum(1 for m in metas if m["importlib.util.resolve_name"] is None),
            "print_assumptions": pa, "broken_obligation_files": broken,
            "samples": [metas[len(metas) // 2], metas[-1]],
        },
        wall_s=T.s,
        assumptions=["path components contain no '.' other than the .py suffix and are not named 'py'",
                     "generated names are neither stdlib nor present on the rest of the search path (/repo, site-packages)",
                     "the memo of derive_absolute_module_name on (base, target, level) is cleared between cases (a.py beside a/__init__.py with equal base is not modelled)"],
        violations=len(V.violations),
    )
    return V.finish()
