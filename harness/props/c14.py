"""C14 - generating results does not change the intermediate representation."""
import common as C
import imp_run
import res_run


def main(tier: str) -> int:
    prop = "C14"
    T = C.Timer()
    V = C.Verdict(prop)
    proof_files = ["proofs/ResProofs.v", "props/C14.v"]
    build = C.coq_build(res_run.MODEL_FILES + proof_files)
    if any(t in build.failed for t in res_run.MODEL_FILES):
        raise SystemExit("internal error: model/spec files do not compile:\n" + build.log)
    n_obl, n_done, broken = C.obligations_from(build, proof_files)
    res = res_run.run(tier)
    cases = [(c, m) for c, m in res["cases"] if m["variant"].startswith("order")]
    corr_fail = [m for c, m in cases if c & 1]
    changed = [(c, m) for c, m in cases if c & 64]
    regen_diff = [(c, m) for c, m in cases if m["results_second_generation"] is not None and m["results_second_generation"] != m["results"]]
    # the IR may only change where the model says it does: a function with a resolvable callee (finding class) - and exactly so
    new = [m for c, m in changed if not (c & 128) or (c & 1)]
    new += [m for c, m in regen_diff if not (c & 128) or (c & 1)]
    known = [m for c, m in changed if (c & 128) and not (c & 1)]
    # multi-module projects: result generation must not add or drop entries of any module's IR, and what it does to the
    # sets must be what the model predicts (imp correspondence bit 0)
    ires = imp_run.run(tier)
    imp_new, imp_cases, imp_corr = [], 0, []
    for code, m in ires["cases"]:
        if m.get("ir_keys_before") is None or m.get("ir_keys_after") is None:
            continue
        imp_cases += 1
        if m["ir_keys_before"] != m["ir_keys_after"]:
            diff = {k: sorted(set(m["ir_keys_after"].get(k, [])) ^ set(m["ir_keys_before"].get(k, []))) for k in set(m["ir_keys_before"]) | set(m["ir_keys_after"])}
            imp_new.append({"why": "result generation added or removed function entries of a module's IR", "project": m["project"], "files": m["files"],
                            "entries_changed": {k: v for k, v in diff.items() if v}})
        if code is not None and (code & 1):
            imp_corr.append({"project": m["project"], "files": m["files"]})
    for m in imp_new[:3]:
        V.violation({"property": prop, **m})
    corr_fail = corr_fail + imp_corr
    for m in new[:5]:
        V.violation({"property": prop, "why": "the IR changed (or a second generation differs) outside the listed finding class or beyond what the model predicts", **m})
    if not new and not imp_new:
        if corr_fail:
            V.violation({"property": prop, "broken": "correspondence suite res (model/Results.v vs generate_results_from_ir, incl. the IR after generation)",
                         "disagreements": len(corr_fail), "first": corr_fail[0]}, failing_input=False)
        elif broken:
            V.violation({"property": prop, "broken": broken, "errors": build.failed, "why": "proof obligation no longer checks"}, failing_input=False)
    for f in C.known_findings(prop):
        if known:
            V.known(f"{f['id']}: {f['what']}")
        else:
            V.notes.append(f"listed finding {f['id']} did not reproduce")
    pa = C.print_assumptions("props/C14.v") if "props/C14.v" in build.ok_targets else ""
    C.write_evidence(prop, coverage={
        "obligations": max(n_obl, 1), "discharged": n_done, "checker_cmd": "cd /verif/coq && make props/C14.vo",
        "trusted_base": C.TRUSTED_BASE_COMMON,
        "evaluations": len(cases), "distinct_nontrivial": len({m["source"] for c, m in cases if c & 128}),
        "rule": "the C03 graph suite; per program the IR (gets/sets/dels per function, call records) is snapshotted before and after generate_results_from_ir and results are generated twice; non-trivial = at least one resolvable call",
        "programs": len(res["groups"]), "multi_module_projects": imp_cases, "multi_module_ir_entry_changes": len(imp_new), "traces_validated_against_impl": len(cases) + imp_cases, "disagreements_checked": len(corr_fail),
        "ir_changed_in_known_class": len(known), "ir_changed_new": len(new), "second_generation_differs": len(regen_diff),
        "ir_unchanged_cases": len(cases) - len(changed), "print_assumptions": pa, "broken_obligation_files": broken,
        "samples": [known[0] if known else cases[0][1]]},
        wall_s=T.s, assumptions=["single-file environment for the graph suite; multi-module projects of the import suite for IR entry sets and model-predicted mutation"], violations=len(V.violations))
    return V.finish()
