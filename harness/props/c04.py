"""C04 - call-site arguments are bound to parameters exactly as Python binds them.

Proof: coq/props/C04.v (model = spec outside two finding classes, for all signatures and calls).
Tie:   exhaustive correspondence of coq/model/CallSwaps.v with rattr.results.construct_call_swaps
       over all signatures/calls within the size bound; the spec (coq/spec/PyBind.v) is validated
       against CPython's own call binding (a generated function with that signature is really called) on the same domain; the spec checker judges the
       implementation's own outputs.
"""
from __future__ import annotations

import itertools
import random
import re

import common as C
import rt

PROP = "C04"
HEADER = "From RattrV Require Import Base CallSwaps PyBind C04Check.\nOpen Scope string_scope.\nOpen Scope list_scope.\n"
CASE_TYPE = "iface * callargs * (dict * list diag) * option dict"


# ------------------------------------------------------------------------------------------
# domain
# ------------------------------------------------------------------------------------------

def signatures(n: int):
    """All signatures with at most n parameters over the five kinds (canonical names)."""
    for npo in range(n + 1):
        for na in range(n + 1 - npo):
            for va in (0, 1):
                for nk in range(n + 1 - npo - na - va):
                    for kw in (0, 1):
                        if npo + na + va + nk + kw > n:
                            continue
                        yield (
                            tuple(f"p{i}" for i in range(npo)),
                            tuple(f"a{i}" for i in range(na)),
                            "va" if va else None,
                            tuple(f"k{i}" for i in range(nk)),
                            "kw" if kw else None,
                        )


def calls(sig, m: int, rng: random.Random, sample: int | None):
    po, a, va, ko, kw = sig
    names = [*po, *a, *([va] if va else []), *ko, *([kw] if kw else []), "zz"]
    out = []
    for npos in range(m + 1):
        for r in range(0, min(len(names), m) + 1):
            for ks in itertools.combinations(names, r):
                out.append((npos, ks))
                if len(ks) > 1:
                    out.append((npos, tuple(reversed(ks))))
    if sample is not None and len(out) > sample:
        out = rng.sample(out, sample)
    for npos, ks in out:
        yield tuple(f"X{i}" for i in range(npos)), tuple((k, f"V{k}") for k in ks)


# ------------------------------------------------------------------------------------------
# implementation and oracle
# ------------------------------------------------------------------------------------------

_RE = [
    (re.compile(r"expected \d+ posonlyargs but only received \d+ positional arguments"), "DPosonlyShort"),
    (re.compile(r"received too many positional arguments"), "DTooManyPositional"),
    (re.compile(r"received unexpected keyword arguments: (\[.*\])"), "DUnexpectedKw"),
    (re.compile(r"received the arguments (\[.*\]) by position and name"), "DPosAndName"),
]


def canon_diags(stderr: str):
    res = []
    for level, msg in rt.parse_diag_lines(stderr):
        hit = None
        for rx, tag in _RE:
            m = rx.search(msg)
            if m:
                if m.groups():
                    names = re.findall(r"'([^']*)'", m.group(1))
                    hit = (tag, tuple(names))
                else:
                    hit = (tag, ())
                break
        if hit is None:
            hit = ("DOther:" + level + ":" + msg, ())
        if level != "error" and not hit[0].startswith("DOther"):
            hit = ("DOther:" + level + ":" + msg, ())
        res.append(hit)
    return res


def run_impl(sig, call):
    from rattr.models.symbol import Call, CallArguments, CallInterface, Func
    from rattr.results import construct_call_swaps

    po, a, va, ko, kw = sig
    f = Func(name="callee", interface=CallInterface(posonlyargs=po, args=a, vararg=va, kwonlyargs=ko, kwarg=kw))
    c = Call(name="callee", args=CallArguments(args=call[0], kwargs=dict(call[1])), target=f)
    with rt.capture_stderr() as buf:
        try:
            swaps = construct_call_swaps(f, c)
            exc = None
        except BaseException as e:  # noqa: BLE001 - anything escaping is an observation
            swaps, exc = {}, f"{type(e).__name__}: {e}"
    return list(swaps.items()), canon_diags(buf.getvalue()), exc


_MISSING = object()
_fn_cache: dict = {}


def _real_function(sig):
    """A real Python function with this signature, every parameter defaulted (see DESIGN C04)."""
    if sig in _fn_cache:
        return _fn_cache[sig]
    po, a, va, ko, kw = sig
    parts = [f"{n}=_M" for n in po]
    if po:
        parts.append("/")
    parts += [f"{n}=_M" for n in a]
    if va:
        parts.append(f"*{va}")
    elif ko:
        parts.append("*")
    parts += [f"{n}=_M" for n in ko]
    if kw:
        parts.append(f"**{kw}")
    src = f"def callee({', '.join(parts)}):\n    return locals()\n"
    ns = {"_M": _MISSING}
    exec(src, ns)  # noqa: S102 - generated from canonical identifiers only
    _fn_cache[sig] = ns["callee"]
    return ns["callee"]


def oracle(sig, call):
    """What CPython itself does with the call (every parameter optional): None = TypeError."""
    po, a, va, ko, kw = sig
    fn = _real_function(sig)
    try:
        bound = fn(*call[0], **dict(call[1]))
    except TypeError:
        return None
    m = {}
    for name in (*po, *a, *ko):
        if bound[name] is not _MISSING:
            m[name] = bound[name]
    if va:
        m[va] = "@Tuple"
    if kw and bound[kw]:
        m[kw] = "@Dict"
    return m


# ------------------------------------------------------------------------------------------
# Coq terms
# ------------------------------------------------------------------------------------------

def c_iface(sig):
    po, a, va, ko, kw = sig
    return f"(mkIface {C.cstrs(po)} {C.cstrs(a)} {C.copt(va)} {C.cstrs(ko)} {C.copt(kw)})"


def c_call(call):
    return f"(mkCall {C.cstrs(call[0])} {C.cdict(call[1])})"


def c_diag(d):
    tag, names = d
    if tag in ("DUnexpectedKw", "DPosAndName"):
        return f"({tag} {C.cstrs(names)})"
    if tag in ("DPosonlyShort", "DTooManyPositional"):
        return tag
    return None


def c_case(sig, call, swaps, diags, orc):
    ds = [c_diag(d) for d in diags]
    if any(d is None for d in ds):
        return None
    o = "None" if orc is None else f"(Some {C.cdict(orc)})"
    return f"({c_iface(sig)}, {c_call(call)}, ({C.cdict(swaps)}, {C.clist(ds)}), {o})"


# ------------------------------------------------------------------------------------------

def main(tier: str) -> int:
    T = C.Timer()
    rng = random.Random(C.SEED)
    V = C.Verdict(PROP)

    build = C.coq_build(["model/Base.v", "model/CallSwaps.v", "spec/PyBind.v", "spec/C04Check.v",
                         "proofs/C04Proofs.v", "props/C04.v"])
    need = ["model/Base.v", "model/CallSwaps.v", "spec/PyBind.v", "spec/C04Check.v"]
    if any(t in build.failed for t in need):
        raise SystemExit("internal error: model/spec files do not compile:\n" + build.log)
    proof_files = ["proofs/C04Proofs.v", "props/C04.v"]
    n_obl, n_done, broken = C.obligations_from(build, proof_files)

    rt.set_config()
    n, m, sample = (3, 3, 120) if tier == "quick" else (4, 4, 400)
    sigs = list(signatures(n))
    cases = []
    meta = []
    unmodelled = []
    for sig in sigs:
        for call in calls(sig, m, rng, sample):
            swaps, diags, exc = run_impl(sig, call)
            orc = oracle(sig, call)
            if exc is not None:
                unmodelled.append((sig, call, exc))
                continue
            term = c_case(sig, call, swaps, diags, orc)
            if term is None:
                unmodelled.append((sig, call, f"unrecognised diagnostic {diags}"))
                continue
            cases.append(term)
            meta.append((sig, call, swaps, diags, orc))

    codes = C.coq_eval_codes("c04", HEADER, CASE_TYPE, "c04_code", cases, shard=800)

    n_corr_fail = n_spec_fail = n_kf = n_oracle = 0
    kf_hit = {"KF_C04_1": 0, "KF_C04_2": 0}
    new_viol = []
    corr_fail = []
    for code, mt in zip(codes, meta):
        if code & 16:
            n_oracle += 1
            raise SystemExit(f"internal error: spec py_bind disagrees with CPython's own call binding on {mt}")
        in_kf = bool(code & 12)
        if code & 1:
            n_corr_fail += 1
            corr_fail.append(mt)
        if code & 2:
            n_spec_fail += 1
            if in_kf and not (code & 1):   # known = inside a listed class AND the failure the model predicts
                n_kf += 1
                if code & 4:
                    kf_hit["KF_C04_1"] += 1
                if code & 8:
                    kf_hit["KF_C04_2"] += 1
            else:
                new_viol.append(mt)

    def payload(mt, why):
        sig, call, swaps, diags, orc = mt
        return {
            "property": PROP, "why": why,
            "signature": {"posonlyargs": sig[0], "args": sig[1], "vararg": sig[2], "kwonlyargs": sig[3], "kwarg": sig[4]},
            "call": {"args": call[0], "kwargs": call[1]},
            "rattr_swaps": swaps, "rattr_diagnostics": diags,
            "python_binding(None=TypeError)": orc,
            "replay": "PYTHONPATH=/repo python: rattr.results.construct_call_swaps(Func(name='callee', interface=CallInterface(**signature)), Call(name='callee', args=CallArguments(**call), target=func))",
        }

    for mt in unmodelled[:5]:
        V.violation({"property": PROP, "why": "construct_call_swaps raised or printed an unknown diagnostic",
                     "signature": mt[0], "call": mt[1], "observed": mt[2]})
    for mt in new_viol[:5]:
        V.violation(payload(mt, "spec checker check_C04 rejects rattr's output; input is outside every listed finding class"))
    if not new_viol and not unmodelled:
        if corr_fail:
            p = payload(corr_fail[0], "correspondence broken: coq/model/CallSwaps.v construct_call_swaps differs from rattr on this input, "
                                      "but rattr's output still satisfies the specification on every explored input")
            p["broken"] = "correspondence suite c04 (model/CallSwaps.v vs rattr.results.construct_call_swaps)"
            p["disagreements"] = n_corr_fail
            V.violation(p, failing_input=False)
        elif broken:
            V.violation({"property": PROP, "broken": broken, "why": "proof obligation no longer checks",
                         "errors": {k: v for k, v in build.failed.items()}}, failing_input=False)

    for f in C.known_findings(PROP):
        if kf_hit.get(f["class"], 0) > 0:
            V.known(f"{f['id']}: {f['what']}")
        else:
            V.notes.append(f"listed finding {f['id']} did not reproduce in this run")

    assumptions_txt = ""
    if "props/C04.v" in build.ok_targets:
        assumptions_txt = C.print_assumptions("props/C04.v")

    C.write_evidence(
        PROP,
        coverage={
            "obligations": n_obl, "discharged": n_done,
            "checker_cmd": "cd /verif/coq && coq_makefile -f _CoqProject -o Makefile && make props/C04.vo",
            "trusted_base": C.TRUSTED_BASE_COMMON + [
                "CPython's own call binding as external oracle validating the spec py_bind (all parameters optional)"],
            "evaluations": len(cases) + len(unmodelled),
            "distinct_nontrivial": len({(mt[0], mt[1]) for mt in meta if mt[1][0] or mt[1][1]}),
            "rule": f"all signatures with <= {n} parameters over the five kinds x calls with <= {m} positionals and keyword subsets (<= {m}) over parameter names + one foreign name, two keyword orders"
                    + (f", sampled to {sample} calls per signature (seeded)" if sample else "")
                    + "; non-trivial = at least one argument",
            "exhaustive": False,
            "signatures": len(sigs),
            "traces_validated_against_impl": len(cases),
            "disagreements_checked": n_corr_fail,
            "spec_failures_in_known_classes": n_kf, "spec_failures_new": len(new_viol),
            "known_class_hits": kf_hit,
            "oracle_validated_cases": len(cases),
            "print_assumptions": assumptions_txt,
            "broken_obligation_files": broken,
            "samples": [payload(mt, "sample") for mt in meta[:: max(1, len(meta) // 3)][:3]],
        },
        wall_s=T.s,
        assumptions=["every parameter is treated as optional (CallInterface stores no defaults)",
                     "parameter names pairwise distinct, keyword names pairwise distinct (Python syntax)"],
        violations=len(V.violations),
    )
    return V.finish()
