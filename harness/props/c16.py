"""C16 - diagnostic verbosity and path formatting never change the analysis.

Proof: coq/props/C16.v about the regenerated gen/DiagGen.v (+ proofs/TablesOk.v flag_readers_confined).
Tie:   every generated program is really run under all 4 x 2 x 2 combinations of -w / -H / -T
       (x default / strict / boundary threshold, x -o results / -o ir, deep relative and absolute
       target paths under $HOME); stdout bytes, exit status and badness buckets must be identical,
       stderr lines of a lower level a subsequence of a higher one (judged by the Coq checker
       check_C16_pair), messages identical up to path rendering across -H/-T; each run's recorded
       trace is also replayed through the generated model.
"""
from __future__ import annotations

import itertools
import random
import re

import common as C
import diaglib as D
import rt
import translate_decision
import translate_tables

PROP = "C16"
HEADER = "From RattrV Require Import DiagRun ExitSpec DiagCheck.\nOpen Scope Z_scope.\n"
HEADER_PAIR = ("From RattrV Require Import ExitSpec.\nOpen Scope Z_scope.\n"
               "Definition pair_code (p : observed * observed) : nat := if check_C16_pair (fst p) (snd p) then 0%nat else 4%nat.\n")
MODEL_FILES = ["model/DiagMonad.v", "spec/ExitSpec.v"]
GEN_FILES = ["gen/DiagGen.v", "model/DiagRun.v", "spec/DiagCheck.v", "gen/Tables.v"]
PROOF_FILES = ["proofs/DiagAbs.v", "proofs/C15Proofs.v", "proofs/C16Proofs.v", "proofs/TablesOk.v", "props/C16.v"]
WL = ["none", "local", "default", "all"]

_PATH = re.compile(r"^(info|warning|error|fatal|rattr): \S+?: ")


def normalise_line(line: str) -> str:
    """A diagnostic line with the (path[:line:col]) segment removed."""
    return _PATH.sub(lambda m: m.group(1) + ": <loc>: ", rt.strip_ansi(line))


def diag_lines(stderr: str) -> list[str]:
    return [normalise_line(l) for l in rt.strip_ansi(stderr).splitlines()
            if re.match(r"^(info|warning|error|fatal): ", l)]


def main(tier: str) -> int:
    T = C.Timer()
    rng = random.Random(C.SEED)
    V = C.Verdict(PROP)

    _, terr = translate_decision.write()
    _, tberr = translate_tables.write()
    build = C.coq_build(MODEL_FILES + GEN_FILES + PROOF_FILES)
    if any(t in build.failed for t in MODEL_FILES):
        raise SystemExit("internal error: hand-written model/spec files do not compile:\n" + build.log)
    model_ok = not any(t in build.failed for t in GEN_FILES) and terr is None
    n_obl, n_done, broken = C.obligations_from(build, PROOF_FILES)
    if terr is not None:
        broken = ["translation of the decision cluster: " + terr] + broken
    if tberr is not None:
        broken = ["table extraction: " + tberr] + broken

    n_prog = 6 if tier == "quick" else 60
    groups = []   # (program info, setting, out mode, path mode) -> {(wl,H,T): run}
    problems = []
    model_cases, model_meta = [], []
    pair_cases, pair_meta = [], []
    n_runs = 0
    with D.Scratch() as root:
        jobs = []
        for i in range(n_prog):
            prog = D.gen_program(rng, allow_fatal=(i % 3 == 0))
            d = root / "home" / "user" / f"proj{i}"
            # deep location of the target so that -T / -H really alter its rendering
            deep = "pkg/very/deep/dir/with/many/parts"
            tname = "target.py"
            files = dict(prog["files"])
            tgt = files.pop("target.py")
            if i % 2 == 1:
                # the imported module lives at a path that shares its first and its last components with the target's:
                # truncated (-T) renderings of the two paths coincide, the files do not
                deep, tname = "app/api/v1/handlers/users", "views.py"
                twin = "app.api.v2.handlers.users.views"
                helper_src = files.pop("helper.py")
                if i % 4 == 3:
                    # an import cycle through the target: the imported module imports the target back, so the target file is
                    # analysed a second time and every diagnostic of it is raised twice, word for word
                    helper_src = "import app.api.v1.handlers.users.views as target_back\n" + helper_src
                files[twin.replace(".", "/") + ".py"] = helper_src
                tgt = tgt.replace("from helper import", f"from {twin} import")
            files[f"{deep}/{tname}"] = tgt
            prog2 = {"files": files, "plan": prog["plan"]}
            D.materialise(prog2, d)
            base = D.run_rattr(d, ["-w", "all", "-o", "silent", f"{deep}/{tname}"])
            tot = 0
            if base["trace"] and base["trace"]["state"]:
                tot = base["trace"]["state"]["target"] + base["trace"]["state"]["simpl"]
            settings = [("default", []), ("strict", ["--strict"])]
            if tot > 0:
                settings.append(("thr", ["--threshold", str(max(1, tot - 1))]))
                settings.append(("thr_eq", ["--threshold", str(tot)]))
            if tier == "quick":
                settings = settings[:1] + [settings[1 + (i % (len(settings) - 1))]]
            for sname, sargs in settings:
                for out in (["results", "ir"] if tier != "quick" else [["results", "ir"][i % 2]]):
                    for pmode in ("rel", "abs"):
                        tpath = f"{deep}/{tname}" if pmode == "rel" else str(d / deep / tname)
                        key = (i, sname, out, pmode)
                        for wl, H, Tt in itertools.product(WL, (False, True), (False, True)):
                            args = ["-w", wl, "-o", out, *sargs]
                            if H:
                                args.append("-H")
                            if Tt:
                                args.append("-T")
                            args.append(tpath)
                            jobs.append((key, (wl, H, Tt), d, args, prog2, sname, sargs))
        import os
        os.environ["HOME"] = str(root / "home" / "user")
        runs = D.pmap(lambda j: D.run_rattr(j[2], j[3]), jobs)
        n_runs = len(runs)
        by_key: dict = {}
        for j, r in zip(jobs, runs):
            by_key.setdefault(j[0], {})[j[1]] = (j, r)

        for key, combos in by_key.items():
            j0 = next(iter(combos.values()))[0]
            info0 = {"files": j0[4]["files"], "plan": j0[4]["plan"], "setting": j0[5], "out": key[2], "path_mode": key[3]}
            bad = [(c, r) for c, (j, r) in combos.items()
                   if r["timeout"] or r["trace"] is None or r["trace"]["state"] is None or r["trace"]["outcome"]["exception"]]
            if bad:
                c, r = bad[0]
                problems.append({**info0, "why": "abnormal run", "combo": c, "args": r["args"], "exit": r["exit"],
                                 "stderr": rt.strip_ansi(r["stderr"])[-1200:]})
                continue
            ref_c = ("all", False, False)
            ref = combos[ref_c][1]
            for c, (j, r) in combos.items():
                # analysis outputs identical under every combination
                if r["stdout"] != ref["stdout"] or r["exit"] != ref["exit"] or r["trace"]["state"] != ref["trace"]["state"]:
                    problems.append({**info0, "why": "stdout bytes / exit status / badness differ between two verbosity or path-format settings",
                                     "combo_a": ref_c, "combo_b": c, "args_a": ref["args"], "args_b": r["args"],
                                     "exit_a": ref["exit"], "exit_b": r["exit"], "state_a": ref["trace"]["state"], "state_b": r["trace"]["state"],
                                     "stdout_equal": r["stdout"] == ref["stdout"],
                                     "stdout_a": ref["stdout"][:600], "stdout_b": r["stdout"][:600]})
                    break
                # across -H/-T at the same -w: same lines up to path rendering
                same_w = combos[(c[0], False, False)][1]
                if diag_lines(r["stderr"]) != diag_lines(same_w["stderr"]):
                    problems.append({**info0, "why": "-H/-T changed the diagnostic lines beyond path rendering", "combo": c,
                                     "args": r["args"], "lines_a": diag_lines(same_w["stderr"])[:20], "lines_b": diag_lines(r["stderr"])[:20]})
                    break
            # Coq judgement of the chain none <= local <= default <= all (H,T fixed)
            for H, Tt in itertools.product((False, True), (False, True)):
                for lo, hi in zip(WL, WL[1:]):
                    rl, rh = combos[(lo, H, Tt)][1], combos[(hi, H, Tt)][1]
                    ol = D.c_obs(rl["exit"], rl["trace"]["state"], D.stderr_levels(rl["stderr"]))
                    oh = D.c_obs(rh["exit"], rh["trace"]["state"], D.stderr_levels(rh["stderr"]))
                    pair_cases.append(f"({ol}, {oh})")
                    pair_meta.append({**info0, "lo": rl["args"], "hi": rh["args"],
                                      "lines_lo": diag_lines(rl["stderr"])[:30], "lines_hi": diag_lines(rh["stderr"])[:30]})
                    # textual subsequence too (levels alone could hide a swapped message)
                    it = iter(diag_lines(rh["stderr"]))
                    if not all(any(x == y for y in it) for x in diag_lines(rl["stderr"])):
                        problems.append({**info0, "why": "lines printed at the lower level are not a subsequence of those at the higher level",
                                         "lo": rl["args"], "hi": rh["args"]})
            # model replay for the H=T=False column
            for wl in WL:
                j, r = combos[(wl, False, False)]
                tr = r["trace"]
                evA, evS, other = D.split_events(tr)
                strict = "--strict" in j[6]
                thr = int(j[6][1]) if j[6] and j[6][0] == "--threshold" else 0
                term = (f"({D.c_args(strict, thr, wl)}, {C.clist(D.c_ev(e) for e in evA)}, "
                        f"{C.clist(D.c_ev(e) for e in evS)}, {D.c_obs(r['exit'], tr['state'], D.stderr_levels(r['stderr']))})")
                model_cases.append(term)
                model_meta.append({**info0, "args": r["args"], "events": tr["events"], "exit": r["exit"]})

    pair_codes = C.coq_eval_codes("c16p", HEADER_PAIR, "observed * observed", "pair_code", pair_cases, shard=500)
    pair_fail = [m for c, m in zip(pair_codes, pair_meta) if c]
    corr_fail = []
    if model_ok:
        codes = C.coq_eval_codes("c16m", HEADER, "diag_case", "diag_code", model_cases, shard=300)
        corr_fail = [m for c, m in zip(codes, model_meta) if c & 1]

    for m in problems[:5]:
        V.violation({"property": PROP, **m})
    for m in pair_fail[:3]:
        V.violation({"property": PROP, "why": "Coq checker check_C16_pair rejects two runs that differ only in -w (exit / buckets / subsequence / errors always printed)", **m})
    if not problems and not pair_fail:
        if corr_fail:
            V.violation({"property": PROP, "broken": "correspondence: generated model vs rattr", "disagreements": len(corr_fail),
                         "first": corr_fail[0]}, failing_input=False)
        elif broken:
            V.violation({"property": PROP, "broken": broken, "why": "proof obligation / translation / table lemma no longer checks",
                         "errors": build.failed}, failing_input=False)

    pa = C.print_assumptions("props/C16.v") if "props/C16.v" in build.ok_targets else ""
    C.write_evidence(
        PROP,
        coverage={
            "obligations": n_obl + 2, "discharged": n_done + (1 if terr is None else 0) + (1 if tberr is None else 0),
            "checker_cmd": "cd /verif && ./setup.sh  (regenerates coq/gen/*.v from /repo, then make props/C16.vo)",
            "trusted_base": C.TRUSTED_BASE_COMMON + [
                "translators harness/translate_decision.py and translate_tables.py (fail-closed)",
                "the frame lemma flag_readers_confined is syntactic: direct attribute reads and getattr with a literal name; other dynamic access is outside it"],
            "evaluations": n_runs, "distinct_nontrivial": len({str(m.get("events")) for m in model_meta if m.get("events")}),
            "rule": "generated two-module programs x {default, strict, boundary thresholds} x {-o results, -o ir} x {deep relative, absolute-under-$HOME target path} x all 16 combinations of -w/-H/-T; non-trivial = distinct non-empty diagnostic traces",
            "programs": n_prog, "traces_validated_against_impl": len(model_cases), "disagreements_checked": len(corr_fail),
            "pairs_judged": len(pair_cases), "pair_failures": len(pair_fail), "other_problems": len(problems),
            "broken_obligation_files": broken, "print_assumptions": pa,
            "samples": [pair_meta[0] if pair_meta else None],
        },
        wall_s=T.s,
        assumptions=["weights are non-negative", "path formatting (-H/-T) is not part of the Coq model: its non-interference is the syntactic frame lemma plus the end-to-end runs"],
        violations=len(V.violations),
    )
    return V.finish()
