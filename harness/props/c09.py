"""C09 - recorded call arguments mirror the call site."""
import fa_run

def main(tier):
    return fa_run.check("C09", tier, new_bits=16, kf_bit=None, beyond_bit=None, proof_files=["proofs/FaFacts.v", "proofs/C09Proofs.v", "props/C09.v"],
                        what="no call record mirrors a call site (arguments in order, keywords, constructed-instance stand-in)", kf_prefix="KF_C09")
