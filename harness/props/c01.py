"""C01 - every access in a function body is reported."""
import fa_run

def main(tier):
    return fa_run.check("C01", tier, new_bits=2, kf_bit=4, beyond_bit=1024, proof_files=["proofs/FaFacts.v", "proofs/FaMono.v", "proofs/C01Proofs.v", "proofs/C01Complete.v", "proofs/C01Calls.v", "proofs/C01Assign.v", "proofs/TablesOk.v", "props/C01.v"],
                        what="an access the body performs (outside every listed finding class, or beyond what the model predicts) is not in the function's IR", kf_prefix="KF_C01")
