"""C08 - calls resolve to the callee that Python's scoping rules would pick.

Proof: coq/props/C08.v (a bare call gets what the scope chain holds, innermost first; a parameter in the function's
       own scope shadows; variable / builtin / missing targets are never expanded; a method call on a non-import has
       no target whatever the module level defines; subscripted / stand-in callees have no target; refutation: a
       parameter spelled like a module-level name is not registered).
Tie:   the matrix symbol kind x call form x parameter shadowing (at several nesting depths) as real call sites:
       (a) the specification spec/Scoping.v judges, per site, whether the callee's distinctive accesses reached the
           caller's results in a real end-to-end run [the property];
       (b) every calling function goes through the FunctionAnalyser correspondence (model/FuncAn.v + Context.v
           get_call_target vs the real call records, targets included).
"""
from __future__ import annotations

import collections
import json

import common as C
import diaglib as D
import fa_lib
import imp_lib as I
import root_run
from root_lib import PROJECT as R_PROJECT

PROP = "C08"
MODEL_FILES = ["model/Base.v", "model/ModNames.v", "model/Str.v", "model/PyAst.v", "model/Naming.v", "model/Context.v", "model/CallSwaps.v",
               "model/FuncAn.v", "spec/FaCheck.v", "spec/Occurs.v", "spec/CallSpec.v", "spec/Binding.v", "spec/FaSpecCheck.v", "spec/Scoping.v"] + root_run.MODEL_FILES[4:]
PROOF_FILES = ["proofs/C08Proofs.v", "proofs/C08Member.v", "proofs/RootProofs.v", "proofs/C08Module.v", "props/C08.v"]

MOD_IMP = ("def mfunc(z):\n    return z.attr_mfunc\n\ndef ifunc(z):\n    return z.attr_ifunc\n\ndef gfunc(z):\n    return z.attr_mod_gfunc\n\n"
           "class GCls:\n    def __init__(self, z, extra=None):\n        self.h = z.attr_mod_GCls\n\n    @staticmethod\n    def make(z):\n        return z.attr_mod_make\n\n"
           "    def flush(self, z):\n        return z.attr_mod_method_flush\n\ndef twice(z):\n    return z.attr_mod_twice\n\n"
           "def flush(z):\n    return z.attr_mod_flush\n\nregistry = GCls(1)\n\n"
           # callers inside the imported module: their bare calls name the module's OWN gfunc / GCls, which are spelled (and,
           # for gfunc, shaped) like the target file's
           "def calls_gfunc(z):\n    return gfunc(z)\n\ndef makes_GCls(z):\n    return GCls(z)\n")
PKG_FILES = {"pkg_imp/__init__.py": "def pfunc(z):\n    return z.attr_pkg_init_pfunc\n",
             "pkg_imp/sub.py": "def pfunc(z):\n    return z.attr_pkg_sub_pfunc\n\ndef sfunc(z):\n    return z.attr_pkg_sub_sfunc\n"}
PRELUDE = """import mod_imp
import pkg_imp.sub
from mod_imp import ifunc

def gfunc(z):
    return z.attr_gfunc

glam = lambda z: z.attr_glam

class GCls:
    def __init__(self, z):
        self.h = z.attr_GCls

    @staticmethod
    def smeth(z):
        return z.attr_smeth

gvar = 3

def twice(z):
    return z.attr_twice_first

def twice(z):
    return z.attr_twice_last
"""
ROOT = [("mod_imp", "RModuleImport"), ("ifunc", "RFromImport"), ("gfunc", "RFunc"), ("glam", "RLambda"), ("GCls", "RClass"),
        ("GCls.smeth", "RStatic"), ("gvar", "RVariable"), ("twice", "RFunc"), ("len", "RBuiltin"), ("print", "RBuiltin")]
MEMBERS = ["mod_imp.mfunc", "mod_imp.ifunc", "mod_imp.gfunc", "mod_imp.twice", "mod_imp.flush", "mod_imp.GCls.make", "mod_imp.calls_gfunc", "mod_imp.makes_GCls",
           "pkg_imp.pfunc", "pkg_imp.sub.pfunc", "pkg_imp.sub.sfunc"]
DOTTED_HEADS = ["pkg_imp"]        # `import pkg_imp.sub` binds pkg_imp
# callable name -> the distinctive attribute its body reads
ATTR = {"gfunc": "attr_gfunc", "glam": "attr_glam", "GCls": "attr_GCls", "GCls.smeth": "attr_smeth", "ifunc": "attr_ifunc",
        "mod_imp.mfunc": "attr_mfunc", "mod_imp.gfunc": "attr_mod_gfunc", "mod_imp.ifunc": "attr_ifunc", "twice": "attr_twice_last", "mod_imp.twice": "attr_mod_twice",
        "mod_imp.flush": "attr_mod_flush", "mod_imp.GCls.make": "attr_mod_make",
        "mod_imp.calls_gfunc": "attr_mod_gfunc", "mod_imp.makes_GCls": "attr_mod_GCls",
        "pkg_imp.pfunc": "attr_pkg_init_pfunc", "pkg_imp.sub.pfunc": "attr_pkg_sub_pfunc", "pkg_imp.sub.sfunc": "attr_pkg_sub_sfunc"}
OTHER_ATTRS = ["attr_mod_GCls", "attr_twice_first", "attr_mod_method_flush"]
ALL_ATTRS = sorted(set(ATTR.values()) | set(OTHER_ATTRS))


def sites():
    """[(id, source of one calling function, params in scope at the call, callee spelling, special?)]"""
    out = []
    n = [0]

    def add(src, params, callee, special=False, tag="", arg="a", may=()):
        n[0] += 1
        name = f"site{n[0]}"
        out.append({"name": name, "src": src.replace("CALLER", name), "params": params, "callee": callee, "special": special, "tag": tag,
                    "arg": arg, "may": list(may)})

    names = ["gfunc", "glam", "GCls", "ifunc", "len", "undefined_name", "gvar", "twice"]
    # bare calls, unshadowed
    for nm in names:
        add(f"def CALLER(a):\n    return {nm}(a)\n", ["a"], nm, tag="bare")
    # through a parameter / a local
    add("def CALLER(a, cb):\n    return cb(a)\n", ["a", "cb"], "cb", tag="parameter")
    add("def CALLER(a):\n    loc = a.pick\n    return loc(a)\n", ["a"], "loc", tag="local")
    # bare calls, shadowed by a parameter of the calling function
    for nm in ["gfunc", "glam", "GCls", "ifunc", "mod_imp"]:
        if nm == "mod_imp":
            add(f"def CALLER(a, {nm}):\n    return {nm}.mfunc(a)\n", ["a", nm], "mod_imp.mfunc", tag="shadowed by parameter")
        else:
            add(f"def CALLER(a, {nm}):\n    return {nm}(a)\n", ["a", nm], nm, tag="shadowed by parameter")
        add(f"def CALLER(a, *, {nm}=None):\n    return {nm}{'.mfunc' if nm == 'mod_imp' else ''}(a)\n", ["a", nm], "mod_imp.mfunc" if nm == "mod_imp" else nm, tag="shadowed by keyword-only parameter")
    add("def CALLER(a, GCls):\n    return GCls.smeth(a)\n", ["a", "GCls"], "GCls.smeth", tag="shadowed by parameter")
    # shadowed by a parameter of an enclosing lambda, at depth 1 and 2; and unshadowed inside lambdas
    add("CALLER = lambda a, gfunc: gfunc(a)\n", ["a", "gfunc"], "gfunc", tag="shadowed by lambda parameter")
    add("CALLER = lambda a: gfunc(a)\n", ["a"], "gfunc", tag="bare in lambda")
    add("def CALLER(a):\n    return (lambda gfunc: gfunc(a))\n", ["a", "gfunc"], "gfunc", tag="shadowed by enclosing lambda parameter")
    add("def CALLER(a):\n    return (lambda gfunc: (lambda b: gfunc(b, a)))\n", ["a", "gfunc", "b"], "gfunc", tag="shadowed by enclosing lambda parameter, depth 2")
    add("def CALLER(a):\n    return (lambda b: (lambda c: gfunc(a)))\n", ["a", "b", "c"], "gfunc", tag="bare in nested lambdas")
    add("def CALLER(a):\n    return (lambda glam: glam(a))\n", ["a", "glam"], "glam", tag="shadowed by enclosing lambda parameter")
    # dotted calls
    add("def CALLER(a):\n    return mod_imp.mfunc(a)\n", ["a"], "mod_imp.mfunc", tag="module member")
    add("def CALLER(a):\n    return mod_imp.gfunc(a)\n", ["a"], "mod_imp.gfunc", tag="module member named like a local function")
    add("def CALLER(a):\n    return mod_imp.twice(a)\n", ["a"], "mod_imp.twice", tag="module member named like a local function")
    add("def CALLER(a):\n    box = GCls(a)\n    return box\n", ["a"], "GCls", tag="class named like a class of an imported module")
    add("def CALLER(a):\n    return mod_imp.flush(a)\n", ["a"], "mod_imp.flush", tag="module member")
    add("def CALLER(a):\n    return mod_imp.registry.flush(a)\n", ["a"], "mod_imp.registry.flush", tag="method on an attribute of a module, named like a module function")
    add("def CALLER(a):\n    return mod_imp.GCls.flush(a, a)\n", ["a"], "mod_imp.GCls.flush", tag="plain method through the class of a module, named like a module function")
    add("def CALLER(a):\n    return mod_imp.GCls.make(a)\n", ["a"], "mod_imp.GCls.make", tag="static method of a class of a module")
    add("def CALLER(a):\n    return mod_imp.missing(a)\n", ["a"], "mod_imp.missing", tag="module member, undefined")
    add("def CALLER(a):\n    return GCls.smeth(a)\n", ["a"], "GCls.smeth", tag="static method")
    add("def CALLER(a):\n    return GCls.gfunc(a)\n", ["a"], "GCls.gfunc", tag="class attribute named like a function")
    for obj, params in (("a", ["a"]), ("loc", ["a"]), ("undefined_obj", ["a"]), ("gvar", ["a"]), ("gfunc", ["a"])):
        for meth in ("gfunc", "glam", "smeth", "mfunc", "ifunc"):
            pre = "    loc = a.pick\n" if obj == "loc" else ""
            add(f"def CALLER(a):\n{pre}    return {obj}.{meth}(a)\n", params, f"{obj}.{meth}", tag=f"method on {'parameter' if obj == 'a' else obj}")
    add("def CALLER(a):\n    return a.b.gfunc(a)\n", ["a"], "a.b.gfunc", tag="method on attribute chain")
    # on a call result / on a subscript / on a literal
    add("def CALLER(a):\n    return gfunc(a).glam(a)\n", ["a"], "gfunc().glam", special=True, tag="method on call result", may=["a.attr_gfunc"])
    add("def CALLER(a):\n    return glam(a)(a)\n", ["a"], "glam()", special=True, tag="call on call result", may=["a.attr_glam"])
    add("def CALLER(a):\n    return glam(a.first)(a.second)\n", ["a"], "glam()", special=True, tag="call on call result, different arguments", may=["a.first.attr_glam"])
    add("def CALLER(a):\n    return gfunc(a.first)(a.second)\n", ["a"], "gfunc()", special=True, tag="call on call result, different arguments", may=["a.first.attr_gfunc"])
    add("def CALLER(a):\n    return gfunc(a.first).glam(a.second)\n", ["a"], "gfunc().glam", special=True, tag="method on call result, different arguments", may=["a.first.attr_gfunc"])
    # functions of the imported module that call the module's own same-named function / class
    add("def CALLER(a):\n    return mod_imp.calls_gfunc(a)\n", ["a"], "mod_imp.calls_gfunc", tag="module member whose own callee is named like a function of the target file")
    add("def CALLER(a):\n    return mod_imp.makes_GCls(a)\n", ["a"], "mod_imp.makes_GCls", tag="module member whose own callee is named like a class of the target file")
    # `import pkg_imp.sub`: pkg_imp names the package, pkg_imp.sub the submodule; both define pfunc
    add("def CALLER(a):\n    return pkg_imp.pfunc(a)\n", ["a"], "pkg_imp.pfunc", tag="member of the package of a dotted import")
    add("def CALLER(a):\n    return pkg_imp.sfunc(a)\n", ["a"], "pkg_imp.sfunc", tag="member of the submodule called on the package of a dotted import")
    add("def CALLER(a):\n    return pkg_imp.sub.pfunc(a)\n", ["a"], "pkg_imp.sub.pfunc", tag="member of the submodule of a dotted import")
    add("def CALLER(a):\n    return pkg_imp.sub.sfunc(a)\n", ["a"], "pkg_imp.sub.sfunc", tag="member of the submodule of a dotted import")
    add("def CALLER(a, pkg_imp):\n    return pkg_imp.pfunc(a)\n", ["a", "pkg_imp"], "pkg_imp.pfunc", tag="shadowed by parameter")
    add("def CALLER(a):\n    return a[0].gfunc(a)\n", ["a"], "a[].gfunc", special=True, tag="method on subscript")
    add("def CALLER(a):\n    return a[0](a)\n", ["a"], "a[]", special=True, tag="call on subscript")
    add("def CALLER(a):\n    return 'txt'.gfunc(a)\n", ["a"], "@Str.gfunc", special=True, tag="method on literal")
    add("def CALLER(a):\n    return (a or gfunc).glam(a)\n", ["a"], "@BoolOp.glam", special=True, tag="method on expression")
    # builtins with a callable argument: the argument is not called by rattr
    add("def CALLER(a):\n    return print(a)\n", ["a"], "print", tag="builtin")
    return out


def main(tier: str) -> int:
    T = C.Timer()
    V = C.Verdict(PROP)
    build = C.coq_build(MODEL_FILES + PROOF_FILES)
    if any(t in build.failed for t in MODEL_FILES):
        raise SystemExit("internal error: model/spec files do not compile:\n" + build.log)
    n_obl, n_done, broken = C.obligations_from(build, PROOF_FILES)
    ss = sites()
    source = PRELUDE + "\n" + "\n".join(s["src"] for s in ss)
    with D.Scratch() as root:
        I.materialise(root, {"target.py": source, "mod_imp.py": MOD_IMP, **PKG_FILES})
        run = I.run_project(root, follow=1)
        # the same module through the FunctionAnalyser correspondence
        import os, sys
        old0, oldcwd = sys.path[0], os.getcwd()
        sys.path[0] = str(root)
        os.chdir(root)
        try:
            records, file_outcome = fa_lib.analyse_module(root / "target.py", source, follow=1)
            hdr = fa_lib.header(root)
            fa_terms, fa_names = [], []
            for r in records:
                t = fa_lib.c_record(r, root)
                if t is not None:
                    fa_terms.append(t)
                    fa_names.append(getattr(r["fn"], "name", "<lambda>"))
        finally:
            sys.path[0] = old0
            os.chdir(oldcwd)
    if run["results"] is None:
        V.violation({"property": PROP, "why": f"the matrix module could not be analysed: {run['raised']}", "stderr": run["stderr"], "source": source})
        return V.finish()
    fa_codes = C.coq_eval_codes("c08fa", hdr, "fa_case", "fa_corr_code", fa_terms, shard=40)
    fa_bad = [n for c, n in zip(fa_codes, fa_names) if c & 1]

    header = "From RattrV Require Import Base Str Context Scoping.\nOpen Scope string_scope.\nOpen Scope list_scope.\n"
    header += f"Definition root : list (string * rkind) := {C.clist('(' + C.cstr(n) + ', ' + k + ')' for n, k in ROOT)}.\n"
    header += f"Definition members : list string := {C.cstrs(MEMBERS)}.\n"
    header += f"Definition heads : list string := {C.cstrs(DOTTED_HEADS)}.\n"
    cases, metas = [], []
    for s in ss:
        res = run["results"].get(s["name"])
        if res is None:
            continue
        observed = sorted({n for n in res["gets"] + res["sets"] + res["dels"] if any(n.endswith("." + a) for a in ALL_ATTRS)})
        want = ATTR.get(s["callee"])
        access = f"{s['arg']}.{want}" if want else ""
        cases.append(f"(mkSite root members heads {C.cstrs(s['params'])} {C.cstr(s['callee'])} {C.cbool(s['special'])} {C.cstr(access)} "
                     f"{C.cstrs(s['may'])} {C.cstrs(observed)})")
        metas.append({**s, "results": res, "distinctive_accesses_found": observed, "access_of_named_callee": access})
    codes = C.coq_eval_codes("c08", header, "site", "site_code", cases, shard=200)
    new, known, known_classes = [], [], set()
    listed = {f.get("class") for f in C.known_findings(PROP)}
    by_tag = collections.Counter()
    for c, m in zip(codes, metas):
        by_tag[m["tag"]] += 1
        if not (c & 2):
            continue
        stray = [a for a in m["distinctive_accesses_found"] if a != m["access_of_named_callee"] and a not in m["may"]]
        info = {"call_site": m["src"], "kind": m["tag"], "callee": m["callee"], "parameters_in_scope": m["params"],
                "why": ("accesses of a callee the call does not name were inlined: " + ", ".join(stray)) if stray else
                       ("inlined although the property says it must not be" if m["distinctive_accesses_found"] else "not inlined although the property says it must be"),
                "caller_results": m["results"], "module_prelude": PRELUDE, "imported_files": {"mod_imp.py": MOD_IMP, **PKG_FILES}}
        cls = "KF_C08_1" if c & 4 else "KF_C08_2" if c & 8 else None
        if cls in listed and m["name"] not in fa_bad:
            known.append(info)
            known_classes.add(cls)
        else:
            new.append(info)
    # module level: the root-context suite (model/RootCtx.v vs compile_root_context; spec/RootSpec.v = Python's binding rules)
    root = root_run.run(tier)
    root_corr = [m for c, m in root["cases"] if (c & 1) and m["outcome"] != "raise"]
    root_new, root_known = [], []
    for c, m in root["cases"]:
        if not (c & 2) or (c & 1):
            continue
        info = {"why": "a module-level name has another symbol in rattr's root context than Python's binding rules give it (the last binding wins, del unbinds)",
                "module": m["source"], "written_to": m["place"], "project_files": R_PROJECT, "rattr_registered": m.get("registered")}
        if (c & 4) and "KF_C08_3" in listed:
            root_known.append(info)
            known_classes.add("KF_C08_3")
        else:
            root_new.append(info)
    new += root_new
    for x in new[:4]:
        V.violation({"property": PROP, **x})
    if not new:
        if root_corr:
            V.violation({"property": PROP, "broken": "correspondence suite root (model/RootCtx.v vs compile_root_context)", "disagreements": len(root_corr), "first": root_corr[0]}, failing_input=False)
        elif fa_bad:
            V.violation({"property": PROP, "broken": "FunctionAnalyser correspondence on the C08 matrix (model/FuncAn.v, Context.v get_call_target)", "functions": fa_bad[:10]}, failing_input=False)
        elif broken:
            V.violation({"property": PROP, "broken": broken, "errors": build.failed, "why": "proof obligation no longer checks"}, failing_input=False)
    for f in C.known_findings(PROP):
        if f.get("class") in known_classes:
            V.known(f"{f['id']}: {f['what']}")
        else:
            V.notes.append(f"listed finding {f['id']} did not reproduce in this run")
    pa = C.print_assumptions("props/C08.v") if "props/C08.v" in build.ok_targets else ""
    C.write_evidence(PROP, coverage={
        "obligations": max(n_obl, 1), "discharged": n_done, "checker_cmd": "cd /verif/coq && make props/C08.vo",
        "trusted_base": C.TRUSTED_BASE_COMMON + ["the specification spec/Scoping.v reads the property's statement: parameters (of the function, of enclosing lambdas) shadow; locals are not judged as shadowing; definitions precede their callers in the matrix module (the order dependence of static-method resolution is listed under C05/C06)",
                                                 "inlining is observed through distinctive attribute names of each callee in the caller's results of a real run"],
        "evaluations": len(cases) + len(fa_terms) + len(root["cases"]), "distinct_nontrivial": len(cases) + len({m["source"] for _, m in root["cases"]}),
        "rule": "root contexts: every statement template alone / after / before a colliding binding / after a deletion, every block shape, and seeded random modules, each written to the top level, into a package, into a nested package and as a package __init__; call sites: one calling function per cell of: symbol kind {function, lambda, class, static method, from-import, module import, builtin, parameter, local, undefined, plain variable} x call form {bare, dotted on module / class / parameter / local / undefined / variable / function, attribute chain, on call result, on subscript, on literal, on expression} x shadowing {none, positional parameter, keyword-only parameter, lambda parameter, enclosing lambda parameter at depth 1 and 2}",
        "sites_by_kind": dict(by_tag), "traces_validated_against_impl": len(fa_terms), "disagreements_checked": len(fa_bad),
        "decisions_new": len(new) - len(root_new), "decisions_known_class": len(known),
        "root_context_modules": len(root["cases"]), "root_context_outcomes": dict(collections.Counter(m["outcome"] for _, m in root["cases"])),
        "root_context_disagreements_with_model": len(root_corr), "root_context_judged_against_python": sum(1 for c, m in root["cases"] if m["outcome"] == "ok"),
        "root_context_rebinding_known_class": len(root_known), "root_context_spec_failures_new": len(root_new), "root_context_modules_set_aside_by_translator": len(root["skipped"]),
        "print_assumptions": pa, "broken_obligation_files": broken, "samples": [known[0] if known else metas[0]["src"]]},
        wall_s=T.s, assumptions=["one module, one followed import; identifiers printable ASCII"], violations=len(V.violations))
    return V.finish()
