"""C20 - command-line options override pyproject options, which override defaults.

Proof: coq/props/C20.v over the GENERATED option tables (gen/CliTable.v, by introspecting the parsers the
       current source builds) and the model of the two-pass parse (model/Cli.v).
Tie:   rattr.cli.parse_arguments(sys_args=..., project_toml_conf=..., exit_on_error=False) in-process on
       all {absent, valid, invalid} assignments per option (exhaustive per pair of options, sampled product),
       and real subprocess runs in a directory with a pyproject.toml and -c override files.
"""
from __future__ import annotations

import itertools
import json
import random

import common as C
import diaglib as D
import rt
import translate_tables

PROP = "C20"
HEADER = "From RattrV Require Import Base Str Cli Precedence CliTable C20Check.\nOpen Scope string_scope.\nOpen Scope list_scope.\n"
MODEL_FILES = ["model/Base.v", "model/Str.v", "model/Cli.v", "model/ProjRoot.v", "gen/CliTable.v", "spec/Precedence.v", "spec/C20Check.v"]
PROOF_FILES = ["proofs/C20Proofs.v", "proofs/C20Root.v", "props/C20.v"]

# per option: toml key, cli flag, dest, candidate TOML values (valid + invalid), candidate CLI values
OPTIONS = [
    ("follow-imports", "--follow-imports", "_follow_imports_level", [0, 2, 3, 7, "1", True, False, 1.5, [1]], ["0", "3", "9", "x"]),
    ("exclude-imports", "--exclude-import", "_excluded_imports", [["a.*"], ["a", "b"], [], "a", [1], ["-foo"], None], ["c", "d.*"]),
    ("exclude", "--exclude", "_excluded_names", [["f_.*"], ["x", "y"], "x", [True], ["-bar"]], ["g", "h"]),
    ("warning-level", "--warning-level", "_warning_level", ["none", "all", "loud", 3, ["all"]], ["local", "all", "noisy"]),
    ("collapse-home", "--collapse-home", "collapse_home", [True, False, "yes", 1], [None]),
    ("truncate-deep-paths", "--truncate-deep-paths", "truncate_deep_paths", [True, False, 0], [None]),
    ("strict", "--strict", "is_strict", [True, False, "true"], [None]),
    ("threshold", "--threshold", "threshold", [0, 5, 100, -1, "5", 2.5, True], ["0", "7", "-3", "many"]),
    ("stdout", "--stdout", "stdout", ["ir", "silent", "results", "json", 1], ["stats", "cacheable", "xml"]),
]
EXTRA_TOML = [("unknown-key", 3), ("force-refresh-cache", True), ("Follow-Imports", 2)]
ABSENT = object()


def c_tval(v) -> str:
    if isinstance(v, bool):
        return f"(TBool {C.cbool(v)})"
    if isinstance(v, int):
        return f"(TInt {C.cstr(str(v))})"
    if isinstance(v, float):
        return f"(TFloat {C.cstr(repr(v))})"
    if isinstance(v, str):
        return f"(TStr {C.cstr(v)})"
    if isinstance(v, list):
        return f"(TList {C.clist(c_tval(x) for x in v)})"
    return "TOther"


def c_oval(v) -> str:
    import enum
    if v is None:
        return "VNone"
    if isinstance(v, bool):
        return f"(VBool {C.cbool(v)})"
    if isinstance(v, enum.Enum):
        return f"(VStr {C.cstr(str(v.value))})"
    if isinstance(v, list):
        return f"(VList {C.cstrs(v)})"
    return f"(VStr {C.cstr(str(v))})"


def observe(conf: dict, cli: list[tuple[str, str | None]]):
    from rattr.cli import parse_arguments
    argv = []
    for flag, val in cli:
        if val is not None and str(val).startswith("-") and flag.startswith("--"):
            argv.append(f"{flag}={val}")       # a value that starts with "-" is given glued to its option, as argparse asks
            continue
        argv.append(flag)
        if val is not None:
            argv.append(val)
    argv.append("target.py")
    with rt.capture_stderr():
        try:
            a = parse_arguments(sys_args=argv, project_toml_conf=dict(conf) if conf else {"unknown-key": 0}, exit_on_error=False)
        except SystemExit:
            return None
        except BaseException:  # noqa: BLE001 - argparse.ArgumentError and anything else = rejected
            return None
    return {k: v for k, v in vars(a).items()}


def c_case(conf, cli, obs, dests) -> str:
    cterm = C.clist(f"({C.cstr(k)}, {c_tval(v)})" for k, v in conf.items())
    iterm = C.clist(f"(mkItem {C.cstr(f)} {C.copt(v)})" for f, v in cli)
    if obs is None:
        o = "None"
    else:
        o = "(Some " + C.clist(f"({C.cstr(d)}, {c_oval(obs.get(d))})" for d in dests) + ")"
    return f"(mkC20 {cterm} {iterm} {o})"


def gen_cases(rng: random.Random, tier: str):
    cases = []
    # (1) exhaustive per single option: every TOML candidate x every CLI state
    for key, flag, dest, tvals, cvals in OPTIONS:
        for tv in [ABSENT] + tvals:
            for cv in [ABSENT] + cvals:
                conf = {} if tv is ABSENT else {key: tv}
                cli = [] if cv is ABSENT else [(flag, cv)]
                cases.append((conf, cli))
        # repeated on the command line, and appended
        cases.append(({key: tvals[0]}, [(flag, cvals[0]), (flag, cvals[-1] if cvals[-1] is not None else None)]))
    # (2) every pair of options: valid/invalid/absent x valid/absent
    for (k1, f1, d1, t1, c1), (k2, f2, d2, t2, c2) in itertools.combinations(OPTIONS, 2):
        for tv1 in [ABSENT, t1[0], t1[-1]]:
            for tv2 in [ABSENT, t2[0], t2[1]]:
                for cv1 in [ABSENT, c1[0]]:
                    for cv2 in [ABSENT, c2[-1]]:
                        conf = {}
                        if tv1 is not ABSENT:
                            conf[k1] = tv1
                        if tv2 is not ABSENT:
                            conf[k2] = tv2
                        cli = ([] if cv1 is ABSENT else [(f1, cv1)]) + ([] if cv2 is ABSENT else [(f2, cv2)])
                        cases.append((conf, cli))
    # (3) sampled full product with unknown keys
    n = 400 if tier == "quick" else 20000
    for _ in range(n):
        conf, cli = {}, []
        for key, flag, dest, tvals, cvals in OPTIONS:
            r = rng.random()
            if r < 0.35:
                conf[key] = rng.choice(tvals[:3]) if rng.random() < 0.8 else rng.choice(tvals)
            if rng.random() < 0.3:
                cli.append((flag, rng.choice(cvals[:2]) if rng.random() < 0.85 else rng.choice(cvals)))
                if rng.random() < 0.15:
                    cli.append((flag, rng.choice(cvals)))
        for k, v in EXTRA_TOML:
            if rng.random() < 0.2:
                conf[k] = v
        items = list(conf.items())
        rng.shuffle(items)
        rng.shuffle(cli)
        cases.append((dict(items), cli))
    return cases


def subprocess_cases():
    """Real runs in a project directory: pyproject.toml, -c existing / missing / empty override."""
    out = []
    with D.Scratch() as root:
        proj = root / "proj"
        proj.mkdir()
        (proj / "pyproject.toml").write_text('[tool.rattr]\nfollow-imports = 0\nexclude = ["skip_.*"]\nwarning-level = "none"\nstdout = "silent"\n')
        (proj / "override.toml").write_text('[tool.rattr]\nfollow-imports = 2\nexclude = ["ovr_.*"]\nstdout = "ir"\n')
        (proj / "empty.toml").write_text('[tool.other]\nx = 1\n')
        (proj / "norattr.toml").write_text('[tool.rattr]\n')
        (proj / "badtype.toml").write_text('[tool.rattr]\nthreshold = "5"\n')
        (proj / "boolforint.toml").write_text('[tool.rattr]\nfollow-imports = false\n')
        (proj / "badchoice.toml").write_text('[tool.rattr]\nwarning-level = "loud"\n')
        (proj / "broken.toml").write_text('[tool.rattr]\nexclude = [\n')
        (proj / "dashvalue.toml").write_text('[tool.rattr]\nexclude = ["-skip", "ovr_.*"]\nstdout = "results"\n')
        (proj / "target.py").write_text("def skip_me(a):\n    return a.x\n\ndef ovr_me(a):\n    return a.y\n\ndef cli_me(a):\n    return a.z\n\ndef keep(a):\n    return a.k\n")
        runs = {
            "project file only": [],
            "-c existing override": ["-c", "override.toml"],
            "-c missing file": ["-c", "nope.toml"],
            "-c file without tool.rattr": ["-c", "empty.toml"],
            "-c file with empty tool.rattr": ["-c", "norattr.toml"],
            "project + cli": ["-o", "results", "-x", "cli_.*"],
            "override + cli": ["-c", "override.toml", "-o", "results", "-x", "cli_.*"],
            "-c file with a value of the wrong type": ["-c", "badtype.toml"],
            "-c file with a boolean for an integer option": ["-c", "boolforint.toml"],
            "-c file with an invalid choice": ["-c", "badchoice.toml"],
            "-c file that is not valid TOML": ["-c", "broken.toml"],
            "-c file with a list value that starts with a dash": ["-c", "dashvalue.toml"],
        }
        for label, extra in runs.items():
            r = D.run_rattr(proj, [*extra, "target.py"])
            out.append((label, extra, r))
    return out


# ---------- which TOML file is selected: model/ProjRoot.v against find_project_root / find_pyproject_toml / real runs ----------
ROOT_HEADER = "From RattrV Require Import Base ProjRoot.\nOpen Scope list_scope.\n"
FIXED_LAYOUTS = {
    # name -> ([markers of cwd, of its parent, of the grandparent...], override)   marker = (pyproject, .git, .hg, .svn)
    "worktree or submodule (.git is a file) below a configured project": ([("Absent", "IsFile", "Absent", "Absent"), ("Absent", "Absent", "Absent", "Absent"), ("IsFile", "IsDir", "Absent", "Absent")], None),
    "nested clone (.git directory) below a configured project": ([("Absent", "IsDir", "Absent", "Absent"), ("IsFile", "Absent", "Absent", "Absent")], None),
    ".hg as a file is no marker": ([("Absent", "Absent", "IsFile", "Absent"), ("IsFile", "Absent", "Absent", "Absent")], None),
    ".svn as a file is no marker": ([("Absent", "Absent", "Absent", "IsFile"), ("IsFile", "Absent", "Absent", "Absent")], None),
    ".hg directory below a configured project": ([("Absent", "Absent", "IsDir", "Absent"), ("IsFile", "Absent", "Absent", "Absent")], None),
    ".svn directory below a configured project": ([("Absent", "Absent", "Absent", "IsDir"), ("IsFile", "Absent", "Absent", "Absent")], None),
    "pyproject.toml that is a directory": ([("IsDir", "Absent", "Absent", "Absent"), ("IsFile", "Absent", "Absent", "Absent")], None),
    "configured subproject below a configured project": ([("IsFile", "Absent", "Absent", "Absent"), ("IsFile", "IsDir", "Absent", "Absent")], None),
    "plain subdirectory of a configured project": ([("Absent", "Absent", "Absent", "Absent"), ("Absent", "Absent", "Absent", "Absent"), ("IsFile", "Absent", "Absent", "Absent")], None),
    "existing override in a configured project": ([("IsFile", "IsDir", "Absent", "Absent")], "exists"),
    "missing override in a subdirectory": ([("Absent", "Absent", "Absent", "Absent"), ("IsFile", "Absent", "Absent", "Absent")], "missing"),
    "existing override in a worktree": ([("Absent", "IsFile", "Absent", "Absent"), ("IsFile", "Absent", "Absent", "Absent")], "exists"),
}


def gen_layouts(rng: random.Random, tier: str):
    out = [(name, m, o) for name, (m, o) in FIXED_LAYOUTS.items()]
    n = 150 if tier == "quick" else 3000

    def pick(weights):
        return rng.choices(["Absent", "IsFile", "IsDir"], weights=weights)[0]
    for i in range(n):
        depth = rng.randint(1, 4)
        markers = [(pick([55, 35, 10]), pick([65, 17, 18]), pick([80, 10, 10]), pick([80, 10, 10])) for _ in range(depth)]
        out.append((f"layout{i}", markers, rng.choice([None, None, "exists", "missing"])))
    return out


def _stat(p) -> str:
    import os
    return "IsDir" if os.path.isdir(p) else "IsFile" if os.path.isfile(p) else "Absent"


def materialise_layout(base, markers):
    """base/l<k>/.../l1/l0 with l0 the working directory; returns the directories, working directory first."""
    dirs = []
    d = base
    for k in reversed(range(len(markers))):
        d = d / f"l{k}"
        d.mkdir()
        dirs.append(d)
    dirs.reverse()
    for j, (d, (py, git, hg, svn)) in enumerate(zip(dirs, markers)):
        for name, kind in (("pyproject.toml", py), (".git", git), (".hg", hg), (".svn", svn)):
            if kind == "IsDir":
                (d / name).mkdir()
            elif kind == "IsFile":
                (d / name).write_text(f'[tool.rattr]\nexclude = ["lvl{j}_.*"]\n' if name == "pyproject.toml" else "gitdir: /nowhere\n")
    fns = [f"lvl{j}_f" for j in range(len(markers))] + ["ovr_f", "keep"]
    (dirs[0] / "target.py").write_text("\n".join(f"def {f}(a):\n    return a.{f}_attr\n" for f in fns))
    (dirs[0] / "ovr.toml").write_text('[tool.rattr]\nexclude = ["ovr_.*"]\n')
    return dirs, fns


def chain_of(cwd):
    """The markers as the harness itself sees them, from the working directory to the file-system root."""
    from pathlib import Path
    cwd = Path(cwd).resolve()
    return [(d, tuple(_stat(d / n) for n in ("pyproject.toml", ".git", ".hg", ".svn"))) for d in [cwd, *cwd.parents]]


def choice_term(excluded, n_levels) -> str:
    pats = list(excluded or [])
    if pats == ["ovr_.*"]:
        return "TOverride"
    for j in range(n_levels):
        if pats == [f"lvl{j}_.*"]:
            return f"(TProject {j})"
    return "TNothing" if not pats else "(TProject 999)"


def root_cases(rng, tier):
    """In-process: find_project_root / parse_arguments with the working directory inside generated directory trees."""
    import os
    from pathlib import Path
    from rattr.cli import parse_arguments
    from rattr.config._util import find_project_root
    terms, metas = [], []
    oldcwd = os.getcwd()
    with D.Scratch() as root:
        for i, (name, markers, override) in enumerate(gen_layouts(rng, tier)):
            base = root / f"r{i}"
            base.mkdir()
            dirs, fns = materialise_layout(base, markers)
            chain = chain_of(dirs[0])
            paths = [d for d, _ in chain]
            argv = (["-c", "ovr.toml"] if override == "exists" else ["-c", "nope.toml"] if override == "missing" else []) + ["target.py"]
            os.chdir(dirs[0])
            try:
                with rt.capture_stderr():
                    try:
                        obs_root = Path(find_project_root()).resolve()
                        ns = parse_arguments(sys_args=argv, exit_on_error=False)
                        excluded = getattr(ns, "_excluded_names", None)
                        failed = None
                    except BaseException as e:  # noqa: BLE001
                        obs_root, excluded, failed = None, None, f"{type(e).__name__}: {e}"
            finally:
                os.chdir(oldcwd)
            root_ix = paths.index(obs_root) if obs_root in paths else 999
            cterm = C.clist(f"(mkDir {a} {b} {c} {d})" for _, (a, b, c, d) in chain)
            choice = choice_term(excluded, len(markers)) if failed is None else "(TProject 998)"
            terms.append(f"(mkRootCase {cterm} {C.cbool(override is not None)} {C.cbool(override == 'exists')} {root_ix} {choice})")
            metas.append({"layout": name, "markers_cwd_first": [dict(zip(("pyproject.toml", ".git", ".hg", ".svn"), m)) for m in markers],
                          "args": argv, "rattr_project_root": None if obs_root is None else str(obs_root).replace(str(base), "<base>"),
                          "rattr_excluded_names": excluded, "raised": failed})
    return terms, metas


# spellings argparse accepts for "-c ovr.toml" (each equivalent, by argparse's rules, to the canonical -c ovr.toml [+ -H / -T / -r])
OVERRIDE_SPELLINGS = [["-c", "ovr.toml"], ["--config", "ovr.toml"], ["--config=ovr.toml"], ["-covr.toml"], ["-Hc", "ovr.toml"], ["-HTc", "ovr.toml"],
                      ["-THc", "ovr.toml"], ["-Hcovr.toml"], ["--conf", "ovr.toml"], ["-H", "-c", "ovr.toml", "-T"], ["-T", "--config", "ovr.toml"]]


def layout_subprocess_runs(layouts, spellings=None):
    """Real runs of the command line in the fixed layouts (and in any layout the in-process suite flagged)."""
    out = []
    with D.Scratch() as root:
        for i, (name, markers, override) in enumerate(layouts):
            base = root / f"s{i}"
            base.mkdir()
            dirs, fns = materialise_layout(base, markers)
            argv = (["-c", "ovr.toml"] if override == "exists" else ["-c", "nope.toml"] if override == "missing" else []) + ["-o", "results", "target.py"]
            if spellings is not None:
                argv = [*spellings[i], "-o", "results", "target.py"]
            r = D.run_rattr(dirs[0], argv)
            try:
                present = sorted(json.loads(r["stdout"]))
            except Exception:  # noqa: BLE001
                present = None
            chain = chain_of(dirs[0])
            cterm = C.clist(f"(mkDir {a} {b} {c} {d})" for _, (a, b, c, d) in chain)
            if present is None:
                choice = "(TProject 998)"
            else:
                missing = sorted(set(fns) - set(present))
                choice = choice_term([m.replace("_f", "_.*") for m in missing], len(markers))
            term = f"(mkRootCase {cterm} {C.cbool(override is not None)} {C.cbool(override == 'exists')} (find_root {cterm}) {choice})"
            out.append((term, {"layout": name, "markers_cwd_first": [dict(zip(("pyproject.toml", ".git", ".hg", ".svn"), m)) for m in markers], "args": argv,
                               "exit": r["exit"], "functions_in_results": present, "all_functions": fns, "stderr": rt.strip_ansi(r["stderr"])[-300:],
                               "each pyproject.toml at level j holds": 'exclude = ["lvl<j>_.*"]', "ovr.toml holds": 'exclude = ["ovr_.*"]'}))
    return out


EXPECT_SUBPROCESS = {
    # label -> (stdout kind, functions absent from results)
    "project file only": ("silent", None),
    "-c existing override": ("ir", None),
    "-c missing file": ("silent", None),
    "-c file without tool.rattr": ("results", []),          # override selected, sets nothing: defaults
    "-c file with empty tool.rattr": ("results", []),
    "project + cli": ("results", ["skip_me", "cli_me"]),
    "override + cli": ("results", ["ovr_me", "cli_me"]),
    "-c file with a value of the wrong type": ("rejected", None),
    "-c file with a boolean for an integer option": ("rejected", None),
    "-c file with an invalid choice": ("rejected", None),
    "-c file that is not valid TOML": ("rejected", None),
    "-c file with a list value that starts with a dash": ("results", ["ovr_me"]),
}


def judge_subprocess(label, r):
    kind, absent = EXPECT_SUBPROCESS[label]
    out = r["stdout"].strip()
    if kind == "rejected":
        err = rt.strip_ansi(r["stderr"])
        if "Traceback (most recent call last)" in err:
            return "an invalid TOML file ends in a Python traceback instead of a diagnostic"
        if r["exit"] == 0:
            return "an invalid TOML file was accepted (exit status 0)"
        return None if ("fatal" in err or "error" in err) and out == "" else "rejected without a diagnostic line, or with output on stdout"
    if r["exit"] != 0:
        return f"exit status {r['exit']}"
    if kind == "silent":
        return None if out == "" else "expected no output (stdout = silent from the selected TOML)"
    try:
        doc = json.loads(out)
    except Exception:  # noqa: BLE001
        return "stdout is not JSON"
    if kind == "ir":
        return None if "target_ir" in doc else "expected the IR document (stdout = ir from the override file)"
    if "target_ir" in doc:
        return "expected results, got the IR document"
    for fn in absent or []:
        if fn in doc:
            return f"{fn} should be excluded (exclude patterns accumulate from the selected TOML and the command line)"
    for fn in {"skip_me", "ovr_me", "cli_me", "keep"} - set(absent or []):
        if fn not in doc:
            return f"{fn} should be present"
    return None


def main(tier: str) -> int:
    T = C.Timer()
    rng = random.Random(C.SEED)
    V = C.Verdict(PROP)
    _, terr = translate_tables.write_cli()
    build = C.coq_build(MODEL_FILES + PROOF_FILES)
    model_ok = not any(t in build.failed for t in MODEL_FILES) and terr is None
    if any(t in build.failed for t in ["model/Cli.v", "spec/Precedence.v"]):
        raise SystemExit("internal error: hand-written model/spec files do not compile:\n" + build.log)
    n_obl, n_done, broken = C.obligations_from(build, PROOF_FILES)
    if terr:
        broken = [f"CLI table extraction: {terr}"] + broken
    searching_with_snapshot = False
    if not model_ok:
        # the tables cannot be regenerated (or no longer compile): the obligation is broken whatever follows.  For the SEARCH
        # of a failing input, judge rattr against the last tables that were extracted from the unchanged tree (a committed
        # snapshot); what the specification rejects under those tables is reported with the input as replay.
        snap = (C.VERIF / "harness" / "cli_table_snapshot.v.txt").read_text()
        (C.COQ / "gen" / "CliTable.v").write_text(snap)
        build2 = C.coq_build(MODEL_FILES)
        searching_with_snapshot = not any(t in build2.failed for t in MODEL_FILES)

    rt.set_config()
    dests = [d for _, _, d, _, _ in OPTIONS] + ["force_refresh_cache"]
    raw = gen_cases(rng, tier)
    terms, metas = [], []
    for conf, cli in raw:
        obs = observe(conf, cli)
        terms.append(c_case(conf, cli, obs, dests))
        metas.append({"toml": {k: repr(v) for k, v in conf.items()}, "cli": cli,
                      "rattr_namespace": None if obs is None else {d: repr(obs.get(d)) for d in dests}})
    codes = C.coq_eval_codes("c20", HEADER, "c20_case", "c20_code", terms, shard=400) if (model_ok or searching_with_snapshot) else [0] * len(terms)
    if searching_with_snapshot:
        (C.COQ / "gen" / "CliTable.v").unlink(missing_ok=True)       # regenerated from the source on the next run
    corr_fail = [m for c, m in zip(codes, metas) if c & 1]
    spec_fail = [(c, m) for c, m in zip(codes, metas) if c & 2]
    listed = {f.get("class") for f in C.known_findings(PROP)}

    def in_listed_class(c):
        return bool(((c & 4) and "KF_C20_1" in listed) or ((c & 8) and "KF_C20_2" in listed))
    new = [m for c, m in spec_fail if not in_listed_class(c) or (c & 1)]
    kf1 = any((c & 4) and not (c & 1) for c, m in spec_fail)
    kf2 = any((c & 8) and not (c & 1) for c, m in spec_fail)

    sub = subprocess_cases()
    sub_fail = []
    for label, extra, r in sub:
        why = judge_subprocess(label, r)
        if why:
            sub_fail.append({"scenario": label, "args": extra, "why": why, "exit": r["exit"], "stdout": r["stdout"][:400],
                             "stderr": rt.strip_ansi(r["stderr"])[-400:]})

    # which TOML is selected
    r_terms, r_metas = root_cases(rng, tier)
    root_model_ok = "model/ProjRoot.v" in build.ok_targets
    r_codes = C.coq_eval_codes("c20root", ROOT_HEADER, "root_case", "root_code", r_terms, shard=400) if root_model_ok else [0] * len(r_terms)
    root_disagree = [m for c, m in zip(r_codes, r_metas) if c]
    flagged = {m["layout"] for m in root_disagree}
    layouts = gen_layouts(random.Random(C.SEED), tier)
    e2e_layouts = [l for l in layouts if l[0] in FIXED_LAYOUTS] + [l for l in layouts if l[0] in flagged and l[0] not in FIXED_LAYOUTS][:6]
    e2e = layout_subprocess_runs(e2e_layouts)
    # every spelling of the override option, in a configured project (the canonical spelling is the model's; argparse's
    # abbreviation / clustering rules make the others equivalent to it)
    configured = [("IsFile", "IsDir", "Absent", "Absent")]
    e2e += layout_subprocess_runs([(f"override spelled {' '.join(sp)}", configured, "exists") for sp in OVERRIDE_SPELLINGS], spellings=OVERRIDE_SPELLINGS)
    e2e_codes = C.coq_eval_codes("c20e2e", ROOT_HEADER, "root_case", "root_code", [t for t, _ in e2e], shard=400) if root_model_ok else [0] * len(e2e)
    e2e_fail = [m for c, (_, m) in zip(e2e_codes, e2e) if c & 2]
    for m in e2e_fail[:3]:
        V.violation({"property": PROP, "why": "a real run used a different TOML file than the one the property selects (the -c override if it exists, else the pyproject.toml of the project - the nearest "
                                               "directory, from the working directory upwards, holding a pyproject.toml file, a .git entry, a .hg or a .svn directory)", **m})
    if root_disagree and not e2e_fail:
        V.violation({"property": PROP, "broken": "correspondence suite c20root (model/ProjRoot.v vs find_project_root / parse_arguments in generated directory trees)",
                     "disagreements": len(root_disagree), "first": root_disagree[0]}, failing_input=False)
    for m in sub_fail[:3]:
        V.violation({"property": PROP, **m})
    for m in new[:5]:
        V.violation({"property": PROP, "why": "the namespace rattr produced is not 'cli else toml else default' (or an invalid TOML value was not rejected), outside the listed finding classes", **m})
    if not new and not sub_fail:
        if corr_fail:
            V.violation({"property": PROP, "broken": "correspondence suite c20 (model/Cli.v over the generated tables vs parse_arguments)",
                         "disagreements": len(corr_fail), "first": corr_fail[0]}, failing_input=False)
        elif broken or not model_ok:
            V.violation({"property": PROP, "broken": broken or ["generated table no longer compiles"], "errors": build.failed,
                         "why": "proof obligation / table extraction no longer checks"}, failing_input=False)
    for f in C.known_findings(PROP):
        hit = {"KF_C20_1": kf1, "KF_C20_2": kf2}.get(f["class"], False)
        if hit:
            V.known(f"{f['id']}: {f['what']}")
        else:
            V.notes.append(f"listed finding {f['id']} did not reproduce")
    pa = C.print_assumptions("props/C20.v") if "props/C20.v" in build.ok_targets else ""
    C.write_evidence(PROP, coverage={
        "obligations": max(n_obl, 1) + 1, "discharged": n_done + (1 if terr is None else 0), "checker_cmd": "cd /verif && ./setup.sh (regenerates gen/CliTable.v) && make -C coq props/C20.vo",
        "trusted_base": C.TRUSTED_BASE_COMMON + ["harness/translate_tables.py cli_table (introspects the argparse parsers the source builds)",
                                                 "argparse is modelled for canonical long options with separate values only",
                                                 "the file system is an oracle of model/ProjRoot.v: the harness stats the markers of the working directory and all its ancestors with os.path"],
        "evaluations": len(terms) + len(sub) + len(r_terms) + len(e2e), "distinct_nontrivial": len({t for t in terms}),
        "rule": "per option every {absent, valid..., invalid...} TOML value x every {absent, valid, invalid} CLI value (exhaustive), every pair of options over {absent, valid, invalid} x {absent, valid}, "
                "a seeded sample of the full product with unknown keys and shuffled order; 12 real subprocess scenarios with pyproject.toml and -c override files (valid, missing, empty, wrong type, boolean for integer, invalid choice, broken syntax, dash value); distinct = distinct (toml, cli); "
                "TOML selection: generated directory trees (depth 1-4, each level with pyproject.toml / .git / .hg / .svn absent, a file or a directory, -c absent / existing / missing) in-process against model/ProjRoot.v, "
                "12 fixed layouts (worktree, nested clone, marker files, subprojects) and 11 spellings of the override option (long, abbreviated, =, glued, clustered with -H / -T) as real runs",
        "traces_validated_against_impl": len(terms), "disagreements_checked": len(corr_fail), "spec_failures_new": len(new),
        "spec_failures_in_known_classes": len(spec_fail) - len(new), "subprocess_scenarios": len(sub), "subprocess_failures": len(sub_fail),
        "rejected_cases": sum(1 for m in metas if m["rattr_namespace"] is None),
        "toml_selection_layouts_in_process": len(r_terms), "toml_selection_disagreements": len(root_disagree),
        "toml_selection_real_runs": len(e2e), "toml_selection_real_run_failures": len(e2e_fail),
        "toml_selection_marker_mix": {k: sum(1 for m in r_metas if m["markers_cwd_first"][0][k] != "Absent") for k in ("pyproject.toml", ".git", ".hg", ".svn")},
        "print_assumptions": pa, "broken_obligation_files": broken, "samples": [metas[3], metas[-1]]},
        wall_s=T.s, assumptions=["command lines use canonical long options with the value as a separate argument"], violations=len(V.violations))
    return V.finish()
