"""C20 - command-line options override pyproject options, which override defaults.

Proof: coq/props/C20.v over the GENERATED option tables (gen/CliTable.v, by introspecting the parsers the
       current source builds) and the model of the two-pass parse (model/Cli.v).
Tie:   rattr.cli.parse_arguments(sys_args=..., project_toml_conf=..., exit_on_error=False) in-process on
       all {absent, valid, invalid} assignments per option (exhaustive per pair of options, sampled product),
       and real subprocess runs in a directory with a pyproject.toml and -c override files.
"""
from __future__ import annotations

import itertools
import json
import random

import common as C
import diaglib as D
import rt
import translate_tables

PROP = "C20"
HEADER = "From RattrV Require Import Base Str Cli Precedence CliTable C20Check.\nOpen Scope string_scope.\nOpen Scope list_scope.\n"
MODEL_FILES = ["model/Base.v", "model/Str.v", "model/Cli.v", "gen/CliTable.v", "spec/Precedence.v", "spec/C20Check.v"]
PROOF_FILES = ["proofs/C20Proofs.v", "props/C20.v"]

# per option: toml key, cli flag, dest, candidate TOML values (valid + invalid), candidate CLI values
OPTIONS = [
    ("follow-imports", "--follow-imports", "_follow_imports_level", [0, 2, 3, 7, "1", True, False, 1.5, [1]], ["0", "3", "9", "x"]),
    ("exclude-imports", "--exclude-import", "_excluded_imports", [["a.*"], ["a", "b"], [], "a", [1], ["-foo"], None], ["c", "d.*"]),
    ("exclude", "--exclude", "_excluded_names", [["f_.*"], ["x", "y"], "x", [True], ["-bar"]], ["g", "h"]),
    ("warning-level", "--warning-level", "_warning_level", ["none", "all", "loud", 3, ["all"]], ["local", "all", "noisy"]),
    ("collapse-home", "--collapse-home", "collapse_home", [True, False, "yes", 1], [None]),
    ("truncate-deep-paths", "--truncate-deep-paths", "truncate_deep_paths", [True, False, 0], [None]),
    ("strict", "--strict", "is_strict", [True, False, "true"], [None]),
    ("threshold", "--threshold", "threshold", [0, 5, 100, -1, "5", 2.5, True], ["0", "7", "-3", "many"]),
    ("stdout", "--stdout", "stdout", ["ir", "silent", "results", "json", 1], ["stats", "cacheable", "xml"]),
]
EXTRA_TOML = [("unknown-key", 3), ("force-refresh-cache", True), ("Follow-Imports", 2)]
ABSENT = object()


def c_tval(v) -> str:
    if isinstance(v, bool):
        return f"(TBool {C.cbool(v)})"
    if isinstance(v, int):
        return f"(TInt {C.cstr(str(v))})"
    if isinstance(v, float):
        return f"(TFloat {C.cstr(repr(v))})"
    if isinstance(v, str):
        return f"(TStr {C.cstr(v)})"
    if isinstance(v, list):
        return f"(TList {C.clist(c_tval(x) for x in v)})"
    return "TOther"


def c_oval(v) -> str:
    import enum
    if v is None:
        return "VNone"
    if isinstance(v, bool):
        return f"(VBool {C.cbool(v)})"
    if isinstance(v, enum.Enum):
        return f"(VStr {C.cstr(str(v.value))})"
    if isinstance(v, list):
        return f"(VList {C.cstrs(v)})"
    return f"(VStr {C.cstr(str(v))})"


def observe(conf: dict, cli: list[tuple[str, str | None]]):
    from rattr.cli import parse_arguments
    argv = []
    for flag, val in cli:
        argv.append(flag)
        if val is not None:
            argv.append(val)
    argv.append("target.py")
    with rt.capture_stderr():
        try:
            a = parse_arguments(sys_args=argv, project_toml_conf=dict(conf) if conf else {"unknown-key": 0}, exit_on_error=False)
        except SystemExit:
            return None
        except BaseException:  # noqa: BLE001 - argparse.ArgumentError and anything else = rejected
            return None
    return {k: v for k, v in vars(a).items()}


def c_case(conf, cli, obs, dests) -> str:
    cterm = C.clist(f"({C.cstr(k)}, {c_tval(v)})" for k, v in conf.items())
    iterm = C.clist(f"(mkItem {C.cstr(f)} {C.copt(v)})" for f, v in cli)
    if obs is None:
        o = "None"
    else:
        o = "(Some " + C.clist(f"({C.cstr(d)}, {c_oval(obs.get(d))})" for d in dests) + ")"
    return f"(mkC20 {cterm} {iterm} {o})"


def gen_cases(rng: random.Random, tier: str):
    cases = []
    # (1) exhaustive per single option: every TOML candidate x every CLI state
    for key, flag, dest, tvals, cvals in OPTIONS:
        for tv in [ABSENT] + tvals:
            for cv in [ABSENT] + cvals:
                conf = {} if tv is ABSENT else {key: tv}
                cli = [] if cv is ABSENT else [(flag, cv)]
                cases.append((conf, cli))
        # repeated on the command line, and appended
        cases.append(({key: tvals[0]}, [(flag, cvals[0]), (flag, cvals[-1] if cvals[-1] is not None else None)]))
    # (2) every pair of options: valid/invalid/absent x valid/absent
    for (k1, f1, d1, t1, c1), (k2, f2, d2, t2, c2) in itertools.combinations(OPTIONS, 2):
        for tv1 in [ABSENT, t1[0], t1[-1]]:
            for tv2 in [ABSENT, t2[0], t2[1]]:
                for cv1 in [ABSENT, c1[0]]:
                    for cv2 in [ABSENT, c2[-1]]:
                        conf = {}
                        if tv1 is not ABSENT:
                            conf[k1] = tv1
                        if tv2 is not ABSENT:
                            conf[k2] = tv2
                        cli = ([] if cv1 is ABSENT else [(f1, cv1)]) + ([] if cv2 is ABSENT else [(f2, cv2)])
                        cases.append((conf, cli))
    # (3) sampled full product with unknown keys
    n = 400 if tier == "quick" else 20000
    for _ in range(n):
        conf, cli = {}, []
        for key, flag, dest, tvals, cvals in OPTIONS:
            r = rng.random()
            if r < 0.35:
                conf[key] = rng.choice(tvals[:3]) if rng.random() < 0.8 else rng.choice(tvals)
            if rng.random() < 0.3:
                cli.append((flag, rng.choice(cvals[:2]) if rng.random() < 0.85 else rng.choice(cvals)))
                if rng.random() < 0.15:
                    cli.append((flag, rng.choice(cvals)))
        for k, v in EXTRA_TOML:
            if rng.random() < 0.2:
                conf[k] = v
        items = list(conf.items())
        rng.shuffle(items)
        rng.shuffle(cli)
        cases.append((dict(items), cli))
    return cases


def subprocess_cases():
    """Real runs in a project directory: pyproject.toml, -c existing / missing / empty override."""
    out = []
    with D.Scratch() as root:
        proj = root / "proj"
        proj.mkdir()
        (proj / "pyproject.toml").write_text('[tool.rattr]\nfollow-imports = 0\nexclude = ["skip_.*"]\nwarning-level = "none"\nstdout = "silent"\n')
        (proj / "override.toml").write_text('[tool.rattr]\nfollow-imports = 2\nexclude = ["ovr_.*"]\nstdout = "ir"\n')
        (proj / "empty.toml").write_text('[tool.other]\nx = 1\n')
        (proj / "norattr.toml").write_text('[tool.rattr]\n')
        (proj / "target.py").write_text("def skip_me(a):\n    return a.x\n\ndef ovr_me(a):\n    return a.y\n\ndef cli_me(a):\n    return a.z\n\ndef keep(a):\n    return a.k\n")
        runs = {
            "project file only": [],
            "-c existing override": ["-c", "override.toml"],
            "-c missing file": ["-c", "nope.toml"],
            "-c file without tool.rattr": ["-c", "empty.toml"],
            "-c file with empty tool.rattr": ["-c", "norattr.toml"],
            "project + cli": ["-o", "results", "-x", "cli_.*"],
            "override + cli": ["-c", "override.toml", "-o", "results", "-x", "cli_.*"],
        }
        for label, extra in runs.items():
            r = D.run_rattr(proj, [*extra, "target.py"])
            out.append((label, extra, r))
    return out


EXPECT_SUBPROCESS = {
    # label -> (stdout kind, functions absent from results)
    "project file only": ("silent", None),
    "-c existing override": ("ir", None),
    "-c missing file": ("silent", None),
    "-c file without tool.rattr": ("results", []),          # override selected, sets nothing: defaults
    "-c file with empty tool.rattr": ("results", []),
    "project + cli": ("results", ["skip_me", "cli_me"]),
    "override + cli": ("results", ["ovr_me", "cli_me"]),
}


def judge_subprocess(label, r):
    kind, absent = EXPECT_SUBPROCESS[label]
    out = r["stdout"].strip()
    if r["exit"] != 0:
        return f"exit status {r['exit']}"
    if kind == "silent":
        return None if out == "" else "expected no output (stdout = silent from the selected TOML)"
    try:
        doc = json.loads(out)
    except Exception:  # noqa: BLE001
        return "stdout is not JSON"
    if kind == "ir":
        return None if "target_ir" in doc else "expected the IR document (stdout = ir from the override file)"
    if "target_ir" in doc:
        return "expected results, got the IR document"
    for fn in absent or []:
        if fn in doc:
            return f"{fn} should be excluded (exclude patterns accumulate from the selected TOML and the command line)"
    for fn in {"skip_me", "ovr_me", "cli_me", "keep"} - set(absent or []):
        if fn not in doc:
            return f"{fn} should be present"
    return None


def main(tier: str) -> int:
    T = C.Timer()
    rng = random.Random(C.SEED)
    V = C.Verdict(PROP)
    _, terr = translate_tables.write_cli()
    build = C.coq_build(MODEL_FILES + PROOF_FILES)
    model_ok = not any(t in build.failed for t in MODEL_FILES) and terr is None
    if any(t in build.failed for t in ["model/Cli.v", "spec/Precedence.v"]):
        raise SystemExit("internal error: hand-written model/spec files do not compile:\n" + build.log)
    n_obl, n_done, broken = C.obligations_from(build, PROOF_FILES)
    if terr:
        broken = [f"CLI table extraction: {terr}"] + broken

    rt.set_config()
    dests = [d for _, _, d, _, _ in OPTIONS] + ["force_refresh_cache"]
    raw = gen_cases(rng, tier)
    terms, metas = [], []
    for conf, cli in raw:
        obs = observe(conf, cli)
        terms.append(c_case(conf, cli, obs, dests))
        metas.append({"toml": {k: repr(v) for k, v in conf.items()}, "cli": cli,
                      "rattr_namespace": None if obs is None else {d: repr(obs.get(d)) for d in dests}})
    codes = C.coq_eval_codes("c20", HEADER, "c20_case", "c20_code", terms, shard=400) if model_ok else [0] * len(terms)
    corr_fail = [m for c, m in zip(codes, metas) if c & 1]
    spec_fail = [(c, m) for c, m in zip(codes, metas) if c & 2]
    new = [m for c, m in spec_fail if not (c & 12) or (c & 1)]
    kf1 = any((c & 4) and not (c & 1) for c, m in spec_fail)
    kf2 = any((c & 8) and not (c & 1) for c, m in spec_fail)

    sub = subprocess_cases()
    sub_fail = []
    for label, extra, r in sub:
        why = judge_subprocess(label, r)
        if why:
            sub_fail.append({"scenario": label, "args": extra, "why": why, "exit": r["exit"], "stdout": r["stdout"][:400],
                             "stderr": rt.strip_ansi(r["stderr"])[-400:]})

    for m in sub_fail[:3]:
        V.violation({"property": PROP, **m})
    for m in new[:5]:
        V.violation({"property": PROP, "why": "the namespace rattr produced is not 'cli else toml else default' (or an invalid TOML value was not rejected), outside the listed finding classes", **m})
    if not new and not sub_fail:
        if corr_fail:
            V.violation({"property": PROP, "broken": "correspondence suite c20 (model/Cli.v over the generated tables vs parse_arguments)",
                         "disagreements": len(corr_fail), "first": corr_fail[0]}, failing_input=False)
        elif broken or not model_ok:
            V.violation({"property": PROP, "broken": broken or ["generated table no longer compiles"], "errors": build.failed,
                         "why": "proof obligation / table extraction no longer checks"}, failing_input=False)
    for f in C.known_findings(PROP):
        hit = {"KF_C20_1": kf1, "KF_C20_2": kf2}.get(f["class"], False)
        if hit:
            V.known(f"{f['id']}: {f['what']}")
        else:
            V.notes.append(f"listed finding {f['id']} did not reproduce")
    pa = C.print_assumptions("props/C20.v") if "props/C20.v" in build.ok_targets else ""
    C.write_evidence(PROP, coverage={
        "obligations": max(n_obl, 1) + 1, "discharged": n_done + (1 if terr is None else 0), "checker_cmd": "cd /verif && ./setup.sh (regenerates gen/CliTable.v) && make -C coq props/C20.vo",
        "trusted_base": C.TRUSTED_BASE_COMMON + ["harness/translate_tables.py cli_table (introspects the argparse parsers the source builds)",
                                                 "argparse is modelled for canonical long options with separate values only"],
        "evaluations": len(terms) + len(sub), "distinct_nontrivial": len({t for t in terms}),
        "rule": "per option every {absent, valid..., invalid...} TOML value x every {absent, valid, invalid} CLI value (exhaustive), every pair of options over {absent, valid, invalid} x {absent, valid}, "
                "a seeded sample of the full product with unknown keys and shuffled order; 7 real subprocess scenarios with pyproject.toml and -c override files; distinct = distinct (toml, cli)",
        "traces_validated_against_impl": len(terms), "disagreements_checked": len(corr_fail), "spec_failures_new": len(new),
        "spec_failures_in_known_classes": len(spec_fail) - len(new), "subprocess_scenarios": len(sub), "subprocess_failures": len(sub_fail),
        "rejected_cases": sum(1 for m in metas if m["rattr_namespace"] is None),
        "print_assumptions": pa, "broken_obligation_files": broken, "samples": [metas[3], metas[-1]]},
        wall_s=T.s, assumptions=["command lines use canonical long options with the value as a separate argument"], violations=len(V.violations))
    return V.finish()
