"""C15 - exit status and badness follow the documented contract.

Proof: coq/props/C15.v, about gen/DiagGen.v which is regenerated from /repo on every run.
Tie:   (1) the translation itself (fail-closed); (2) function-level differential runs of the
       generated functions against the real rattr.error.* / Config methods on random event
       sequences; (3) end-to-end runs of rattr's main() on generated programs x thresholds at the
       boundary x strict, whose recorded diagnostic trace is fed to the generated model and whose
       exit status / buckets / printed levels are judged by the Coq spec checker check_C15.
"""
from __future__ import annotations

import random

import common as C
import diaglib as D
import rt
import translate_decision
import translate_tables

PROP = "C15"
HEADER = "From RattrV Require Import DiagRun ExitSpec DiagCheck.\nOpen Scope Z_scope.\n"
HEADER_SPEC_ONLY = "From RattrV Require Import ExitSpec.\nOpen Scope Z_scope.\nDefinition spec_only_code (c : diag_case) : nat := if check_C15 c then 0%nat else 2%nat.\n"
MODEL_FILES = ["model/DiagMonad.v", "spec/ExitSpec.v"]
GEN_FILES = ["gen/DiagGen.v", "model/DiagRun.v", "spec/DiagCheck.v", "gen/Tables.v"]
PROOF_FILES = ["proofs/DiagAbs.v", "proofs/C15Proofs.v", "proofs/TablesOk.v", "props/C15.v"]


def fn_level_cases(rng: random.Random, n_seq: int):
    """Random event sequences run through the REAL error.* functions in-process."""
    import rattr.error as E

    cases, meta = [], []
    for _ in range(n_seq):
        strict = rng.random() < 0.35
        thr = rng.choice([0, 0, 1, 3, 5, 6, 10, 11, 25])
        wl = rng.choice(list(D.WLEVEL))
        cfg = rt.set_config(target="target.py", current_file=None, is_strict=strict, threshold=thr, _warning_level=wl)
        evs = []
        for _ in range(rng.randint(0, 7)):
            lvl = rng.choices(["info", "warning", "error", "fatal"], weights=[4, 5, 5, 1])[0]
            w = rng.choice([None, None, None, 0, 1, 2, 5, 7])
            place = rng.choice(["target", "import", "nofile"])
            evs.append((lvl, w, place))
        from pathlib import Path
        paths = {"target": Path("target.py"), "import": Path("other.py"), "nofile": None}
        exit_code = 0
        recorded = []
        with rt.capture_stderr() as buf:
            try:
                for lvl, w, place in evs:
                    cfg.state.current_file = paths[place]
                    fn = getattr(E, lvl)
                    weight = fn.__defaults__[-1] if w is None else w
                    recorded.append({"level": lvl, "weight": weight, "place": place})
                    if w is None:
                        fn("m", None)
                    else:
                        fn("m", None, w)
                if not cfg.is_within_badness_threshold:
                    E.fatal("exceeded allowed badness")
            except SystemExit as e:
                exit_code = e.code if isinstance(e.code, int) else 1
        st = {"target": cfg.state.badness_from_target_file, "imports": cfg.state.badness_from_imports,
              "simpl": cfg.state.badness_from_simplification}
        levels = D.stderr_levels(buf.getvalue())
        term = (f"({D.c_args(strict, thr, wl)}, {C.clist(D.c_ev(e) for e in recorded)}, [], "
                f"{D.c_obs(exit_code, st, levels)})")
        cases.append(term)
        meta.append({"suite": "fn-level", "strict": strict, "threshold": thr, "warning_level": wl, "events": recorded,
                     "observed": {"exit": exit_code, "state": st, "stderr_levels": levels}})
    return cases, meta


def e2e_cases(rng: random.Random, n_prog: int):
    cases, meta, crashes = [], [], []
    with D.Scratch() as root:
        progs = []
        for i in range(n_prog):
            prog = D.gen_program(rng)
            d = root / f"p{i}"
            D.materialise(prog, d)
            progs.append((d, prog))
        base = D.pmap(lambda dp: D.run_rattr(dp[0], ["-w", "all", "-o", "stats", "target.py"]), progs)
        jobs = []
        for (d, prog), b in zip(progs, base):
            if b["trace"] is None or b["trace"]["state"] is None:
                crashes.append({"program": prog, "run": {k: b[k] for k in ("exit", "stderr", "args")}})
                continue
            tot = b["trace"]["state"]["target"] + b["trace"]["state"]["simpl"]
            settings = [(False, 0)] + [(False, t) for t in sorted({max(1, tot - 1), max(1, tot), tot + 1})] + [(True, 0)]
            for strict, thr in settings:
                for wl in (["all"] if (strict, thr) != (False, 0) else ["all", "default"]):
                    args = ["-w", wl, "-o", "stats"]
                    if strict:
                        args.append("--strict")
                    elif thr:
                        args += ["--threshold", str(thr)]
                    args.append("target.py")
                    jobs.append((d, prog, strict, thr, wl, args))
        runs = D.pmap(lambda j: D.run_rattr(j[0], j[5]), jobs)
        for (d, prog, strict, thr, wl, args), r in zip(jobs, runs):
            info = {"suite": "end-to-end", "files": prog["files"], "plan": prog["plan"], "args": args,
                    "exit": r["exit"], "stderr": rt.strip_ansi(r["stderr"])[-1500:]}
            if r["timeout"] or r["trace"] is None or r["trace"]["outcome"]["exception"] or r["trace"]["state"] is None:
                crashes.append(info)
                continue
            tr = r["trace"]
            evA, evS, other = D.split_events(tr)
            # `other` holds main()'s own "exceeded allowed badness" fatal (part of the model's check)
            unexpected_other = [e for e in other if not (e["phase"] == "main" and e["level"] == "fatal"
                                                         and "exceeded allowed badness" in e["message"])]
            levels = D.stderr_levels(r["stderr"])
            info.update({"events": tr["events"], "state": tr["state"], "stderr_levels": levels})
            if unexpected_other or "?" in levels:
                info["unexpected"] = unexpected_other or "unparsed stderr line"
                crashes.append(info)
                continue
            stats = D.parse_stats_badness(r["stdout"]) if r["exit"] == 0 else None
            if stats is not None and (stats["target"], stats["imports"], stats["simpl"]) != (
                    tr["state"]["target"], tr["state"]["imports"], tr["state"]["simpl"]):
                info["unexpected"] = f"-o stats table {stats} differs from State {tr['state']}"
                crashes.append(info)
                continue
            term = (f"({D.c_args(strict, thr, wl)}, {C.clist(D.c_ev(e) for e in evA)}, "
                    f"{C.clist(D.c_ev(e) for e in evS)}, {D.c_obs(r['exit'], tr['state'], levels)})")
            cases.append(term)
            meta.append(info)
    return cases, meta, crashes


def main(tier: str) -> int:
    T = C.Timer()
    rng = random.Random(C.SEED)
    V = C.Verdict(PROP)

    _, terr = translate_decision.write()
    translate_tables.write()
    build = C.coq_build(MODEL_FILES + GEN_FILES + PROOF_FILES)
    if any(t in build.failed for t in MODEL_FILES):
        raise SystemExit("internal error: hand-written model/spec files do not compile:\n" + build.log)
    model_ok = not any(t in build.failed for t in GEN_FILES) and terr is None
    n_obl, n_done, broken = C.obligations_from(build, PROOF_FILES)
    if terr is not None:
        broken = ["translation of the decision cluster (harness/translate_decision.py): " + terr] + broken

    n_seq, n_prog = (600, 24) if tier == "quick" else (6000, 200)
    fcases, fmeta = fn_level_cases(rng, n_seq)
    ecases, emeta, crashes = e2e_cases(rng, n_prog)
    cases, meta = fcases + ecases, fmeta + emeta
    if model_ok:
        codes = C.coq_eval_codes("c15", HEADER, "diag_case", "diag_code", cases, shard=400)
    else:
        codes = C.coq_eval_codes("c15", HEADER_SPEC_ONLY, "diag_case", "spec_only_code", cases, shard=400)

    corr_fail = [m for c, m in zip(codes, meta) if c & 1]
    spec_fail = [m for c, m in zip(codes, meta) if c & 2]

    for m in crashes[:3]:
        V.violation({"property": PROP, "why": "run ended abnormally (traceback / timeout / unparsed output / stats table disagrees with state)", **m})
    for m in spec_fail[:5]:
        V.violation({"property": PROP, "why": "spec checker check_C15 rejects what rattr did (exit status or badness buckets)", **m})
    if not spec_fail and not crashes:
        if corr_fail:
            V.violation({"property": PROP, "broken": "correspondence: generated model (gen/DiagGen.v + model/DiagRun.v) vs rattr",
                         "disagreements": len(corr_fail), "first": corr_fail[0]}, failing_input=False)
        elif broken:
            V.violation({"property": PROP, "broken": broken, "why": "proof obligation / translation no longer checks",
                         "errors": build.failed}, failing_input=False)

    pa = C.print_assumptions("props/C15.v") if "props/C15.v" in build.ok_targets else ""
    C.write_evidence(
        PROP,
        coverage={
            "obligations": n_obl + 1, "discharged": n_done + (1 if terr is None else 0),
            "checker_cmd": "cd /verif && ./setup.sh  (regenerates coq/gen/DiagGen.v from /repo, then make props/C15.vo)",
            "trusted_base": C.TRUSTED_BASE_COMMON + [
                "translator harness/translate_decision.py (Python ast -> Gallina, fail-closed) and the 12 primitives of coq/model/DiagMonad.v",
                "driver harness/run_main.py: wraps rattr.error.{info,warning,error,fatal} from outside to record the diagnostic trace of real runs"],
            "evaluations": len(cases) + len(crashes),
            "distinct_nontrivial": len({c for c in cases if "mkEv" in c}),
            "rule": "fn-level: random event sequences (level x weight x place) x (strict, threshold, warning level) through the real error.* functions; "
                    "end-to-end: generated two-module programs (diagnostic snippets in target / import / simplification) x thresholds {0, total-1, total, total+1} x strict; "
                    "non-trivial = at least one diagnostic emitted",
            "programs": n_prog, "traces_validated_against_impl": len(cases),
            "disagreements_checked": len(corr_fail), "spec_failures": len(spec_fail), "abnormal_runs": len(crashes),
            "fn_level_sequences": len(fcases), "end_to_end_runs": len(ecases),
            "exit1_runs": sum(1 for m in emeta if m["exit"] == 1), "exit0_runs": sum(1 for m in emeta if m["exit"] == 0),
            "translation_error": terr, "broken_obligation_files": broken, "print_assumptions": pa,
            "samples": [emeta[0] if emeta else None, fmeta[0]],
        },
        wall_s=T.s,
        assumptions=["weights are non-negative (Config.increment_badness raises ValueError otherwise - no call site passes a negative weight)",
                     "threshold >= 0 (validate_arguments rejects negative thresholds with a fatal diagnostic)"],
        violations=len(V.violations),
    )
    return V.finish()
