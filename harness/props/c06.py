"""C06 - following an import gives the same answer as defining the callee locally.

Proof: coq/props/C06.v (resolver follows re-export chains of any length; an imported call expands exactly like a
       local call to the definition; unresolved imports contribute nothing; refutations: aliased from-import,
       re-export cycle).
Tie:   generated programs (tree-shaped call graphs of functions / classes / static methods) split over modules and
       packages with every import form, analysed by the real pipeline and compared (a) with the real analysis of the
       single-file merge of the same program [the property], (b) with the model's prediction of results, mutated IR,
       every call resolution and the analysed modules [correspondence].
"""
from __future__ import annotations

import collections

import common as C
import imp_run

PROP = "C06"
PROOF_FILES = ["proofs/ImpProofs.v", "props/C06.v"]


def canonical_calls(calls, refs, caller):
    m = {r["spelling"]: r["callee"] for r in refs if r["caller"] == caller}
    out = set()
    for c in calls:
        base = c[:-2] if c.endswith("()") else c
        suffix = ""
        if base.endswith(".sm"):
            base, suffix = base[:-3], ".sm"
        out.add(m.get(base, base) + suffix)
    return out


FIXED_EXPECT = {"module_cycle_with_definitions": ["x", "x.in_a", "x.in_b"], "self_import": ["x", "x.in_a"],
                "reexport_cycle": ["x.y"]}      # a name re-exported in a cycle has no definition: it resolves to nothing, and the run ends normally


def finding_classes(meta) -> set[str]:
    ks = set()

    for r in meta["refs"]:
        if r["form"] == "from_as":
            ks.add("KF_C06_1")
        if r["form"] in ("import", "import_pkg_member") and r["spelling"].count(".") >= 2 - (1 if r["how"] == "static" else 0) and "." in r["spelling"].rsplit(".", 1)[0]:
            ks.add("KF_C06_2")
        if r["how"] == "init" and r["from"] != r["to"]:
            ks.add("KF_C06_3")
        if r["how"] == "static" and r["from"] != r["to"]:
            ks.add("KF_C06_5" if "." in r["spelling"] else "KF_C06_6")
    return ks


def main(tier: str) -> int:
    T = C.Timer()
    V = C.Verdict(PROP)
    build = C.coq_build(imp_run.MODEL_FILES + PROOF_FILES)
    if any(t in build.failed for t in imp_run.MODEL_FILES):
        raise SystemExit("internal error: model/spec files do not compile:\n" + build.log)
    n_obl, n_done, broken = C.obligations_from(build, PROOF_FILES)
    res = imp_run.run(tier)
    per_form = collections.defaultdict(lambda: collections.Counter())
    corr, new, known = [], [], collections.defaultdict(list)
    n = 0
    for code, m in res["cases"]:
        if m["kind"] not in ("forms", "mixed", "fixed"):
            continue
        n += 1
        multi, merged = m["multi"], m["merged"]
        problem = None
        if multi["raised"]:
            problem = f"the multi-module run ended with {multi['raised']}"
        elif m["kind"] == "fixed":
            exp = FIXED_EXPECT.get(m["project"])
            got = (multi["results"] or {}).get("top")
            if exp is not None and (got is None or got["gets"] != exp):
                problem = f"top.gets: {None if got is None else got['gets']} != what the single-file program gives {exp}"
            for fn, want in (m.get("expected") or {}).items():
                g = (multi["results"] or {}).get(fn)
                if g is None or any(g[k] != want[k] for k in ("gets", "sets", "dels")):
                    problem = f"{fn}: {g} != what the single-file program gives {want}"
        elif merged is None or merged["results"] is None:
            continue
        else:
            for root in m["roots"]:
                a, b = multi["results"].get(root), merged["results"].get(root)
                if a is None or b is None:
                    problem = f"no results for {root}"
                    break
                for k in ("gets", "sets", "dels"):
                    if a[k] != b[k]:
                        problem = f"{root}.{k}: split over modules {a[k]} != merged into one file {b[k]}"
                        break
                if problem:
                    break
                ca, cb = canonical_calls(a["calls"], m["refs"], root), canonical_calls(b["calls"], [], root)
                if ca != cb:
                    problem = f"{root}.calls: {sorted(ca)} != {sorted(cb)}"
                    break
        forms = sorted({r["form"] for r in m["refs"]}) or ["no cross-module reference"]
        for f in forms:
            per_form[f]["differs" if problem else "same"] += 1
        model_ok = code is not None and not (code & 7)
        if code is not None and (code & 7):
            corr.append({"project": m["project"], "code": code, "files": m["files"], "multi": multi})
        if problem:
            ks = finding_classes(m)
            info = {"project": m["project"], "why": problem, "files": m["files"], "merged_source": m["merged_source"],
                    "import_forms": forms, "multi_results": multi["results"], "merged_results": None if merged is None else merged["results"], "stderr": multi["stderr"]}
            if ks and model_ok:
                for k in ks:
                    known[k].append(info)
            else:
                new.append(info)
    for x in new[:4]:
        V.violation({"property": PROP, **x})
    if not new:
        if corr:
            V.violation({"property": PROP, "broken": "correspondence suite imp (model/Imports.v + model/Results.v vs the real pipeline on multi-module projects)",
                         "disagreements": len(corr), "first": corr[0]}, failing_input=False)
        elif broken:
            V.violation({"property": PROP, "broken": broken, "errors": build.failed, "why": "proof obligation no longer checks"}, failing_input=False)
    for f in C.known_findings(PROP):
        if known.get(f["class"]):
            V.known(f"{f['id']}: {f['what']}")
        else:
            V.notes.append(f"listed finding {f['id']} did not reproduce in this run")
    unlisted = [k for k in known if k not in {f["class"] for f in C.known_findings(PROP)}]
    for k in unlisted:
        V.violation({"property": PROP, "why": f"finding class {k} reproduced but is not listed", **known[k][0]})
    pa = C.print_assumptions("props/C06.v") if "props/C06.v" in build.ok_targets else ""
    C.write_evidence(PROP, coverage={
        "obligations": max(n_obl, 1), "discharged": n_done, "checker_cmd": "cd /verif/coq && make props/C06.vo",
        "trusted_base": C.TRUSTED_BASE_COMMON + [
            "oracles of the model: module locator (module name / origin of a qualified name; modelled separately for C13), blacklist / pip / stdlib classification, the options",
            "per-module IRs and root contexts are taken from the real run (what the call site records for each import form is the FunctionAnalyser's, covered by C01/C02/C09); the model covers linking, resolution and result generation",
            "function / class names are unique across the modules of a generated project (rattr keys IRs by symbol within a module)"],
        "evaluations": n, "distinct_nontrivial": n,
        "rule": "programs of 2-7 callables (functions, classes with __init__ and a static method) with a tree-shaped call graph and plain-name arguments, split at random over {top-level modules, package __init__, package modules, nested package} with each cross-module reference wired by one of the 11 import forms "
                "(import m / import p.m / import m as n / from m import f / from m import f as g / relative at any level / from . import mod / re-export through __init__ by name and by star / import pkg + pkg.f / chain through a third module / from pkg import mod), with and without import cycles; "
                "each compared with its single-file merge",
        "per_import_form": {k: dict(v) for k, v in per_form.items()},
        "traces_validated_against_impl": n, "disagreements_checked": len(corr),
        "differences_new": len(new), "differences_known_class": {k: len(v) for k, v in known.items()},
        "print_assumptions": pa, "broken_obligation_files": broken,
        "samples": [known[k][0]["why"] for k in known][:3]},
        wall_s=T.s + res["wall_s"], assumptions=["tree-shaped call graphs with plain-name arguments (outside the C03 finding classes)", "identifiers / paths printable ASCII"],
        violations=len(V.violations))
    return V.finish()
