"""C07 - rattr always ends with results or its own diagnostic, never a traceback or hang.

Proof: coq/props/C07.v (import BFS terminates within an explicit fuel bound for every graph; annotation validation is
       accept-or-fatal; witnesses that the faithful model raises on unnameable store / del / for receivers and does
       not terminate on a re-export cycle).  PARTIAL by nature: only modelled raise sites and loops are covered by
       theorems.
Tie / search: (a) every function of the FunctionAnalyser catalogue (shared run of C01/C02/C09/C17): an escaping
       exception is a violation unless the model predicts exactly that exception and the shape is a listed class;
       (b) grammar-wide MODULE shapes (every import form, decorator shape, parameter shape, class-body statement,
       assignment target, compound statement holding definitions, ... - documented-unsupported shapes included) run
       as real subprocesses alone, combined, on the imported side, x option combinations: the run must exit 0 with
       well-formed JSON or exit 1 after a `fatal:` / `error:` line; a 60 s limit stands in for "hang".
"""
from __future__ import annotations

import collections
import json
import random
import re

import common as C
import diaglib as D
import fa_run
import res_run
import imp_run
import root_run
from root_lib import PROJECT as R_PROJECT
import gen_modules as G
import imp_lib as I

PROP = "C07"
PROOF_FILES = ["proofs/ImpProofs.v", "proofs/ResFuel.v", "proofs/C01Complete.v", "proofs/C07Proofs.v", "props/C07.v"]
MODEL_FILES = sorted(set(fa_run.MODEL_FILES + res_run.MODEL_FILES + imp_run.MODEL_FILES + root_run.MODEL_FILES + ["model/Annot.v"]))
_ANSI = re.compile(r"\x1b\[[0-9;]*m")

# finding classes: construct labels -> (KF id, exception classes)
KF_BY_LABEL = {
    "sorted key lambda two params": ("KF_C07_3", ("SyntaxError",)),
    "store through unnameable receiver": ("KF_C07_4", ("RattrBinOpInNameable",)),
    "for target unnameable": ("KF_C07_4", ("RattrBinOpInNameable",)),
    "del unnameable": ("KF_C07_4", ("RattrBinOpInNameable",)),
}
FA_RAISE_CLASSES = {"RattrBinOpInNameable", "RattrUnaryOpInNameable", "RattrConstantInNameable", "RattrLiteralInNameable", "RattrComprehensionInNameable"}

FIXED_PROJECTS = [
    ("reexport cycle", {"target.py": "from a import f\n\ndef top(x):\n    return f(x.y)\n", "a.py": "from b import f\n", "b.py": "from a import f\n"}, ["target.py"], None),
    ("one file under two module names", {"pkg2/__init__.py": "", "pkg2/lib.py": "def lf(x):\n    return x.l\n",
                                         "pkg2/user.py": "from pkg2.lib import lf\n\ndef uf(x):\n    return lf(x)\n",
                                         "pkg2/target.py": "import lib\nfrom pkg2.user import uf\n\ndef top(x):\n    lib.lf(x)\n    return uf(x)\n"}, ["target.py"], "pkg2"),
    ("follow into stdlib extension module", {"target.py": "import stat\n\ndef top(x):\n    return stat.S_ISDIR(x.mode)\n"}, ["-f", "3", "target.py"], None),
    ("import cycle", {"target.py": "import a\n\ndef top(x):\n    return a.fa(x)\n", "a.py": "import b\nimport target\n\ndef fa(p):\n    return b.fb(p.pa)\n", "b.py": "import a\n\ndef fb(q):\n    return q.qb\n"}, ["target.py"], None),
    ("deep recursion in source", {"target.py": "def top(x):\n    return " + "(" * 40 + "x.deep" + ")" * 40 + "\n"}, ["target.py"], None),
    ("long attribute chain", {"target.py": "def top(x):\n    return x" + ".a" * 300 + "\n"}, ["target.py"], None),
    ("many functions", {"target.py": "\n".join(f"def f{i}(a):\n    return f{i + 1}(a.n{i})\n" for i in range(120)) + "\ndef f120(a):\n    return a.end\n"}, ["target.py"], None),
]


def judge(r) -> tuple[str, str]:
    """('ok' | 'diagnosed' | 'bad', detail)"""
    err = _ANSI.sub("", r["stderr"] or "")
    if r["timeout"]:
        return "bad", "no termination within the time limit"
    lines = [l for l in err.strip().splitlines() if l.strip()]
    last = lines[-1] if lines else ""
    if "Traceback (most recent call last)" in err:
        return "bad", last[:300]
    if r["exit"] == 0:
        out_fmt = None
        args = r["args"]
        if "-o" in args:
            out_fmt = args[args.index("-o") + 1]
        if out_fmt in ("silent",):
            return "ok", ""
        if out_fmt == "stats":
            return ("ok", "") if r["stdout"].strip() else ("bad", "no output for -o stats")
        if "-C" in args and not r["stdout"].strip() and any("cache is up-to-date" in e.get("message", "") for e in ((r.get("trace") or {}).get("events") or [])):
            return "ok", ""          # a cache hit prints nothing by design (C19)
        try:
            json.loads(r["stdout"])
        except Exception:  # noqa: BLE001
            return "bad", "exit 0 but stdout is not well-formed JSON: " + r["stdout"][:120]
        return "ok", ""
    if r["exit"] == 1 and any(l.startswith(("fatal:", "error:")) for l in lines[-6:]):
        return "diagnosed", last[:200]
    return "bad", f"exit {r['exit']} without a fatal: / error: diagnostic; last stderr line: {last[:200]}"


def exc_class(detail: str) -> str:
    m = re.match(r"^([A-Za-z_][\w.]*)(:|$)", detail.strip())
    return m.group(1).split(".")[-1] if m else ""


def main(tier: str) -> int:
    T = C.Timer()
    rng = random.Random(C.SEED)
    V = C.Verdict(PROP)
    build = C.coq_build(MODEL_FILES + PROOF_FILES)
    if any(t in build.failed for t in MODEL_FILES):
        raise SystemExit("internal error: model/spec files do not compile:\n" + build.log)
    n_obl, n_done, broken = C.obligations_from(build, PROOF_FILES)

    # (a) function bodies: the shared FunctionAnalyser run
    fa = fa_run.run(tier)
    fa_new, fa_known = [], []
    unmodelled_by_class = [0]
    fa_outcomes = collections.Counter()
    for code, m in fa["cases"]:
        fa_outcomes[m["outcome"][0]] += 1
        if m["outcome"][0] != "raise":
            continue
        cls = m["outcome"][1]
        info = {"why": f"FunctionAnalyser.analyse ended in an escaping {cls}", "function": m["function"]}
        if cls in FA_RAISE_CLASSES | {"TypeError", "SyntaxError"} and not (code & 1) and not (code & 64):
            fa_known.append((cls, info))          # the model predicts exactly this exception: a modelled raise site
        elif code & 64:
            # the function uses `sorted` / `collections.defaultdict` (custom analysers, outside the model): no prediction is
            # available, so the exception class alone decides; counted separately in the evidence
            (fa_known if cls in FA_RAISE_CLASSES | {"TypeError", "SyntaxError"} else fa_new).append((cls, info) if cls in FA_RAISE_CLASSES | {"TypeError", "SyntaxError"} else info)
            unmodelled_by_class[0] += 1
        else:
            fa_new.append(info)
    for fp in fa["file_problems"]:
        if fp["outcome"][0] == "raise":
            fa_new.append({"why": f"FileAnalyser ended in an escaping {fp['outcome'][1]}: {fp['outcome'][2]}", "module_source_tail": fp["module_source"]})

    # (a') result generation: the call-graph suite of C03 and the multi-module suite of C06 (an escaping exception while
    # building / folding the call trees is a crash like any other)
    res = res_run.run(tier)
    gen_raised = 0
    for code, m in res["cases"]:
        if m.get("raised"):
            gen_raised += 1
            fa_new.append({"why": f"generate_results_from_ir ended in an escaping {m['raised']}", "program": m["program"], "source": m["source"], "variant": m["variant"]})
    imp = imp_run.run(tier)
    for code, m in imp["cases"]:
        r = m["multi"].get("raised")
        if r and not str(r).startswith("SystemExit"):
            gen_raised += 1
            fa_new.append({"why": f"the multi-module pipeline ended in an escaping {r}", "project": m["project"], "files": m["files"], "stderr": m["multi"].get("stderr")})

    # (a'') the root-context suite (shared with C08 / C05): compile_root_context on generated modules, top level and inside packages
    rootsuite = root_run.run(tier)
    root_raised = 0
    for code, m in rootsuite["cases"]:
        if m["outcome"] == "raise":
            root_raised += 1
            fa_new.append({"why": f"compile_root_context ended in an escaping {m.get('raised')}", "module": m["source"], "written_to": m["place"],
                           "project_files": R_PROJECT, "stderr": m["stderr"]})

    # (b) module shapes as subprocesses
    labels = [l for l, _ in G.CONSTRUCTS]
    src_of = dict(G.CONSTRUCTS)
    programs = []      # (name, labels, files, cwd_sub, argv)
    for l in labels:
        programs.append((f"single: {l}", [l], {**G.AUX_FILES, "target.py": src_of[l]}, None, ["target.py"]))
    for l in G.IMPORTED_SIDE:
        programs.append((f"imported side: {l}", [l], {**G.AUX_FILES, "lib_under_test.py": src_of[l] + "\ndef entry(e):\n    return e.entry\n",
                                                     "target.py": "from lib_under_test import entry\n\ndef top(a):\n    return entry(a.x)\n"}, None, ["target.py"]))
    for name, files, argv, sub in FIXED_PROJECTS:
        programs.append((f"project: {name}", [name], files, sub, argv))
    benign = [l for l in labels if l not in KF_BY_LABEL and l not in ("import missing", "from missing import", "relative from import in top-level module", "relative star import of the own package",
                                                                      "relative star import of a sibling", "relative from import of a missing sibling",
                                                                      "global and nonlocal", "lambda tuple assignment", "lambda chained assignment", "lambda augmented",
                                                                      "module level expressions", "import __future__")]
    n_combo = 12 if tier == "quick" else 300
    for i in range(n_combo):
        pick = rng.sample(benign, rng.randint(3, 8))
        programs.append((f"combination {i}", pick, {**G.AUX_FILES, "target.py": "\n".join(src_of[l] for l in pick)}, None, ["target.py"]))
    jobs = []
    with D.Scratch() as root:
        for pi, (name, ls, files, sub, argv) in enumerate(programs):
            d = root / f"p{pi}"
            d.mkdir()
            I.materialise(d, files)
            cwd = d / sub if sub else d
            if name.startswith("single") and tier != "quick":
                opt_sets = G.OPTION_SETS
            elif name.startswith("combination"):
                opt_sets = [G.OPTION_SETS[(pi + k) % len(G.OPTION_SETS)] for k in range(2 if tier == "quick" else 4)]
            elif name.startswith("single"):
                opt_sets = [[], G.OPTION_SETS[1 + pi % (len(G.OPTION_SETS) - 1)]]
            else:
                opt_sets = [[]]
            for opts in opt_sets:
                jobs.append((pi, cwd, [*opts, *argv], {"PYTHONPATH": f"{C.REPO}:{d}"} if sub else None))
        all_benign = {**G.AUX_FILES, "target.py": "\n".join(src_of[l] for l in benign)}
        d = root / "all_benign"
        d.mkdir()
        I.materialise(d, all_benign)
        programs.append(("all benign constructs in one module", benign, all_benign, None, ["target.py"]))
        for opts in G.OPTION_SETS:
            jobs.append((len(programs) - 1, d, [*opts, "target.py"], None))
        runs = D.pmap(lambda j: D.run_rattr(j[1], j[2], timeout=60, extra_env=j[3]), jobs)
    verdicts = collections.Counter()
    new, known = [], collections.defaultdict(list)
    for (pi, cwd, argv, _env), r in zip(jobs, runs):
        name, ls, files, sub, _ = programs[pi]
        v, detail = judge(r)
        verdicts[v] += 1
        if v != "bad":
            continue
        cls = exc_class(detail)
        info = {"program": name, "constructs": ls, "command_line": argv, "cwd_inside_project": sub or ".", "why": detail, "files": {k: s for k, s in files.items() if k == "target.py" or k not in G.AUX_FILES}}
        hit = [KF_BY_LABEL[l] for l in ls if l in KF_BY_LABEL and cls in KF_BY_LABEL[l][1]]
        if hit:
            known[hit[0][0]].append(info)
        else:
            new.append(info)
    for cls, info in fa_known:
        known["KF_C07_4" if cls in FA_RAISE_CLASSES else "KF_C07_3" if cls == "SyntaxError" else "KF_C07_8"].append(info)

    for x in (fa_new + new)[:5]:
        V.violation({"property": PROP, **x})
    if not V.violations and broken:
        V.violation({"property": PROP, "broken": broken, "errors": build.failed, "why": "proof obligation no longer checks"}, failing_input=False)
    listed = {f["class"]: f for f in C.known_findings(PROP)}
    for k, f in listed.items():
        if known.get(k):
            V.known(f"{f['id']}: {f['what']}")
        else:
            V.notes.append(f"listed finding {f['id']} did not reproduce in this run")
    for k in known:
        if k not in listed:
            V.violation({"property": PROP, "why": f"finding class {k} reproduced but is not listed", **known[k][0]})
    pa = C.print_assumptions("props/C07.v") if "props/C07.v" in build.ok_targets else ""
    C.write_evidence(PROP, coverage={
        "obligations": max(n_obl, 1), "discharged": n_done, "checker_cmd": "cd /verif/coq && make props/C07.vo",
        "trusted_base": C.TRUSTED_BASE_COMMON + [
            "PARTIAL: theorems cover the import BFS (termination), annotation validation (accept or fatal), and the modelled raise sites / non-terminating recursion as refutation witnesses; everything else in this check is TESTING by generated real runs (labelled so): "
            "exit status, JSON validity of stdout, the last stderr lines, a 60 s wall-clock limit standing in for non-termination",
            "crashes inside unmodelled library code (cattrs, argparse, isort, ast) can only be met by the generated runs"],
        "evaluations": len(fa["cases"]) + len(jobs), "distinct_nontrivial": len(programs) + fa["n_bodies"],
        "rule": "function bodies: the catalogue of C01 (every nameable kind x statement / expression position, documented-unsupported shapes, random bodies); modules: "
                f"{len(G.CONSTRUCTS)} labelled module-level constructs (imports of every form incl. star / relative / missing / stdlib / extension modules, definitions with every decorator and parameter shape, definitions inside every compound statement, lambdas in every assignment shape, "
                "classes: enum / NamedTuple / dataclass / nested / generic / body statements, every assignment target shape, match / try* / with / type aliases, non-ASCII identifiers, empty module) each alone, on the imported side, in random combinations and all benign ones together, "
                f"x {len(G.OPTION_SETS)} option sets (-f 0/2, --strict, --threshold, -w, -o ir/stats/cacheable/silent, -H -T, -x, -F, -C, -C -r); fixed projects: re-export cycle, import cycle, one file under two module names, stdlib extension module at -f 3, deep nesting, 300-link attribute chain, 120-function call chain",
        "function_outcomes": dict(fa_outcomes), "result_generation_programs": len(res["cases"]) + len(imp["cases"]), "result_generation_raises": gen_raised, "root_context_modules": len(rootsuite["cases"]), "root_context_raises": root_raised, "raises_in_unmodelled_functions_classified_by_exception_class_only": unmodelled_by_class[0], "subprocess_runs": len(jobs), "subprocess_verdicts": dict(verdicts),
        "traces_validated_against_impl": len(fa["cases"]), "disagreements_checked": sum(1 for c, m in fa["cases"] if (c & 1) and not (c & 64)),
        "crashes_new": len(fa_new) + len(new), "crashes_known_class": {k: len(v) for k, v in known.items()},
        "print_assumptions": pa, "broken_obligation_files": broken, "samples": [new[0] if new else (next(iter(known.values()))[0] if known else None)]},
        wall_s=T.s, assumptions=["Python 3.12 grammar as installed", "60 s per run stands in for non-termination"], violations=len(V.violations))
    return V.finish()
