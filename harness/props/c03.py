"""C03 - results are the call-graph closure of own accesses under argument substitution."""
import common as C
import res_run
import imp_run
import multi_scen


# Closures derived by hand from the source of some fixed programs that lie outside both finding classes (independent
# of rattr's own call records, which the closure specification takes as given)
HAND_EXPECT = {
    "class_init": {"mk": {"gets": ["q.src", "q.src.boxed", "t"], "sets": ["t", "t.held"]}},
    "class_init_dotted_target": {"mk": {"gets": ["q", "q.boxed"],
                                        "sets": ["holder.items[]", "holder.items[].x", "holder.items[].y", "holder.pt", "holder.pt.x", "holder.pt.y"]}},
    "same_callee_two_keyword_values": {"top": {"gets": ["a", "a.touched", "b", "c"], "sets": ["b.seen", "c.seen"]}},
    "zero_arg_callees": {"run": {"gets": ["item"], "sets": ["REG.ready", "item.seen"]}, "again": {"gets": ["item"], "sets": ["REG.ready", "item.seen"]}},
    "mutual_recursion": {"ping": {"gets": ["a", "a.pi", "a.po"], "sets": []}},
}


def main(tier: str) -> int:
    prop = "C03"
    T = C.Timer()
    V = C.Verdict(prop)
    proof_files = ["proofs/ResProofs.v", "proofs/ResFuel.v", "proofs/ResOneLevel.v", "props/C03.v"]
    build = C.coq_build(sorted(set(res_run.MODEL_FILES + imp_run.MODEL_FILES)) + proof_files)
    if any(t in build.failed for t in res_run.MODEL_FILES):
        raise SystemExit("internal error: model/spec files do not compile:\n" + build.log)
    n_obl, n_done, broken = C.obligations_from(build, proof_files)
    res = res_run.run(tier)
    cases = res["cases"]
    corr_fail = [m for c, m in cases if c & 1]
    raised = [m for c, m in cases if c & 512]
    spec_fail = [(c, m) for c, m in cases if not (c & 512) and (c & 14)]
    # known only inside a finding class AND exactly as the model predicts
    new = [m for c, m in spec_fail if (c & 8) or not (c & 48) or (c & 1)]
    kf1 = any((c & 6) and (c & 16) and not (c & 1) for c, m in spec_fail)
    kf2 = any((c & 6) and (c & 32) and not (c & 1) for c, m in spec_fail)
    hand_bad = []
    for c, m in cases:
        exp = HAND_EXPECT.get(m["program"])
        if not exp or m["results"] is None or not m["variant"].startswith("order"):
            continue
        for fn, want in exp.items():
            got = m["results"].get(fn)
            if got is None or any(got[k] != v for k, v in want.items()):
                hand_bad.append({"why": f"{fn}: results {None if got is None else {k: got[k] for k in want}} != the closure derived from the source {want}", **m})
                break
    # closures across a followed import (hand-derived, harness/multi_scen.py): the callee reached under two bindings,
    # same-named helpers in two modules, a diamond
    for code, m in imp_run.run(tier)["cases"]:
        exp = multi_scen.SCENARIOS.get(m["project"], {}).get("expect")
        if not exp:
            continue
        got_all = m["multi"].get("results") or {}
        for fn, want in exp.items():
            got = got_all.get(fn)
            if got is None or any(got[k] != want[k] for k in ("gets", "sets", "dels")):
                hand_bad.append({"why": f"{fn}: results {None if got is None else {k: got[k] for k in ('gets', 'sets', 'dels')}} != the closure derived from the source {want}",
                                 "program": m["project"], "files": m["files"], "raised": m["multi"].get("raised")})
                break
    for m in hand_bad[:2]:
        V.violation({"property": prop, **m})
    new = new + hand_bad
    for m in raised[:2]:
        V.violation({"property": prop, "why": "result generation raised", **m})
    for m in [x for x in new if x not in hand_bad][:5]:
        V.violation({"property": prop, "why": "results are not the closure (lower bound missed / upper bound exceeded / calls wrong) outside the listed finding classes or beyond what the model predicts", **m})
    if not new and not raised:
        if corr_fail:
            V.violation({"property": prop, "broken": "correspondence suite res (model/Results.v vs generate_results_from_ir)",
                         "disagreements": len(corr_fail), "first": corr_fail[0]}, failing_input=False)
        elif broken:
            V.violation({"property": prop, "broken": broken, "errors": build.failed, "why": "proof obligation no longer checks"}, failing_input=False)
    for f in C.known_findings(prop):
        hit = {"KF_C03_1": kf1, "KF_C03_2": kf2}.get(f["class"], False)
        if hit:
            V.known(f"{f['id']}: {f['what']}")
        else:
            V.notes.append(f"listed finding {f['id']} did not reproduce")
    pa = C.print_assumptions("props/C03.v") if "props/C03.v" in build.ok_targets else ""
    outside = [m for c, m in cases if not (c & 48) and (c & 128)]
    C.write_evidence(prop, coverage={
        "obligations": max(n_obl, 1), "discharged": n_done, "checker_cmd": "cd /verif/coq && make props/C03.vo",
        "trusted_base": C.TRUSTED_BASE_COMMON + ["the iteration order of each call set is taken from the real run (input of the model)"],
        "evaluations": len(cases), "distinct_nontrivial": len({m["source"] for c, m in cases if c & 128}),
        "rule": "fixed witness graphs + tree-shaped graphs with simple arguments (outside both finding classes) + random graphs (chains, diamonds, recursion; bare / dotted / subscript / call / literal / keyword / omitted / starred arguments; classes) x definition orders x unrelated definitions; non-trivial = at least one resolvable call",
        "programs": len(res["groups"]), "traces_validated_against_impl": len(cases), "disagreements_checked": len(corr_fail),
        "spec_failures_new": len(new), "spec_failures_in_known_classes": len(spec_fail) - len(new),
        "cases_with_calls_outside_finding_classes": len(outside), "print_assumptions": pa, "broken_obligation_files": broken,
        "samples": [cases[0][1], (outside[0] if outside else cases[-1][1])]},
        wall_s=T.s, assumptions=["single-file environment (imports are C06/C12)", "upper bound = derivable within calls+2 substitution steps"],
        violations=len(V.violations))
    return V.finish()
