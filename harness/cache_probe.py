"""C19 probe: inside one real rattr process (configured exactly as `python -m rattr <args>` would be), put
each given byte string in the cache file and ask the real target_cache_file_is_up_to_date.
usage: cache_probe.py CASES.json OUT.json -- <rattr command line with -C cache>
CASES.json: list of {"hex": <bytes as hex> | null (= cache file absent)}"""
import json
import os
import sys

repo = os.environ.get("RATTR_REPO", "/repo")
sys.path[0] = os.getcwd()
sys.path.insert(1, repo)
cases_path, out_path = sys.argv[1], sys.argv[2]
sys.argv = ["rattr", *sys.argv[4:]]

import contextlib  # noqa: E402
import io  # noqa: E402

import rattr.__main__ as M  # noqa: E402
from rattr.models.results.util import target_cache_file_is_up_to_date  # noqa: E402

if os.environ.get("RATTR_VERIF_FAKE_VERSION"):
    import rattr.models.results.util as _U
    _U.version = os.environ["RATTR_VERIF_FAKE_VERSION"]

cfg = M._init_rattr_config()
cache = cfg.arguments.cache_file
target = cfg.arguments.target
out = []
for case in json.load(open(cases_path)):
    if case["hex"] is None:
        with contextlib.suppress(FileNotFoundError):
            os.unlink(cache)
    else:
        with open(cache, "wb") as fh:
            fh.write(bytes.fromhex(case["hex"]))
    err = io.StringIO()
    try:
        with contextlib.redirect_stderr(err):
            r = bool(target_cache_file_is_up_to_date(target, cache))
        out.append({"hit": r, "exception": None})
    except SystemExit as e:
        out.append({"hit": False, "exception": f"SystemExit({e.code})"})
    except BaseException as e:  # noqa: BLE001
        out.append({"hit": False, "exception": f"{type(e).__name__}: {str(e)[:200]}"})
json.dump(out, open(out_path, "w"))
