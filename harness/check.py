#!/venv/bin/python
"""Entry point: ./check Cxx [--tier quick|thorough]"""
import argparse
import importlib
import os
import sys

sys.path.insert(0, os.path.dirname(os.path.abspath(__file__)))
os.environ.setdefault("PYTHONHASHSEED", "0")

import common  # noqa: E402


def main() -> int:
    ap = argparse.ArgumentParser()
    ap.add_argument("prop")
    ap.add_argument("--tier", default=os.environ.get("VERIF_TIER") or "quick", choices=["quick", "thorough"])
    ap.add_argument("--replay", default=None)
    a = ap.parse_args()
    common.set_tier(a.tier)
    mod = importlib.import_module(f"props.{a.prop.lower()}")
    if a.replay:
        return mod.replay(a.replay) if hasattr(mod, "replay") else common.generic_replay(a.prop.upper(), a.replay)
    return mod.main(a.tier)


if __name__ == "__main__":
    sys.exit(main())
