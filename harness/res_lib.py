"""Result generation on real file IRs: generated call graphs, snapshots of the IR before / after
generate_results_from_ir, conversion to the Coq model's input."""
from __future__ import annotations

import ast
import itertools
import random
from pathlib import Path

import common as C
import fa_lib
import rt

ARG_SHAPES = ["{p}", "{p}.sub", "{p}[0]", "{p}.m()", "1", "{p}.a.b", "helper_free({p})", "*{p}", "({p} or None)"]


def gen_tree_graph(rng: random.Random, n_funcs: int) -> list[tuple[str, str]]:
    """A tree-shaped call graph with simple (bare-name / literal / keyword) arguments: every function is called by at
    most one call site, no recursion - outside both C03 finding classes."""
    names = [f"tf{i}" for i in range(n_funcs)]
    sigs = {}
    for nm in names:
        r = rng.random()
        sigs[nm] = (["a", "b"], "a, b") if r < 0.5 else (["a"], "a") if r < 0.7 else (["a", "rest"], "a, *rest") if r < 0.8 \
            else (["a", "k"], "a, *, k=None") if r < 0.9 else (["a", "kw"], "a, **kw")
    parent = {names[i]: names[rng.randrange(0, i)] for i in range(1, n_funcs)}
    defs = []
    for nm in names:
        ps, sig = sigs[nm]
        lines = [f"{p}.own_{nm}_{p}" for p in ps if rng.random() < 0.9]
        if rng.random() < 0.4:
            lines.append(f"{ps[0]}.set_{nm} = 1")
        if rng.random() < 0.2:
            lines.append(f"local_{nm} = {ps[0]}.x\nlocal_{nm}.y".replace("\n", "\n    "))
        for child in [c for c, p in parent.items() if p == nm]:
            cps, csig = sigs[child]
            p = rng.choice(ps)
            r = rng.random()
            if len(cps) == 2 and cps[1] == "b":
                call = rng.choice([f"{child}({p}, {ps[-1]})", f"{child}({p})", f"{child}(b={p}, a={ps[-1]})", f"{child}({p}, b=1)"])
            elif cps[-1] == "rest":
                call = rng.choice([f"{child}({p}, {ps[-1]}, {p})", f"{child}({p})"])
            elif cps[-1] == "k":
                call = rng.choice([f"{child}({p}, k={ps[-1]})", f"{child}({p})"])
            elif cps[-1] == "kw":
                call = rng.choice([f"{child}({p}, extra={ps[-1]})", f"{child}({p})"])
            else:
                call = rng.choice([f"{child}({p})", f"{child}(1)", f"{child}(a={p})"])
            lines.append(call)
            # the same callee once more under a different binding (a different call record: not a duplicate)
            if rng.random() < 0.35 and len(ps) > 1:
                q = ps[-1] if p != ps[-1] else ps[0]
                if cps[-1] == "k":
                    lines.append(f"{child}({p}, k={q}.other_kw)")
                elif cps[-1] == "kw":
                    lines.append(f"{child}({p}, extra={q}.other_kw)")
                elif len(cps) == 2 and cps[1] == "b":
                    lines.append(f"{child}({p}, b={q})")
        if rng.random() < 0.3:
            lines.append(f"zero_{nm}()")
        if not lines:
            lines = ["pass"]
        defs.append((nm, f"def {nm}({sig}):\n" + "\n".join("    " + l for l in lines) + "\n"))
        if any(l == f"zero_{nm}()" for l in lines):
            defs.append((f"zero_{nm}", f"def zero_{nm}():\n    GLOBAL_{nm}.touched = 1\n    return GLOBAL_{nm}.read_{nm}\n"))
    if rng.random() < 0.4:
        defs.append(("TBox", "class TBox:\n    def __init__(self, u, w=None):\n        self.held = u.boxed\n        self.w = w\n"))
        owner = names[0]
        ps, sig = sigs[owner]
        tgt = rng.choice(["slot", f"{ps[0]}.slot", f"{ps[0]}.items[0]"])
        defs.append(("mk_box", f"def mk_box({sig}):\n    {tgt} = TBox({ps[0]})\n    return 1\n"))
    rng.shuffle(defs)
    return defs


def gen_graph(rng: random.Random, n_funcs: int, max_calls: int, *, simple_args=False, with_class=True) -> list[tuple[str, str]]:
    """[(name, source)] of top-level definitions (functions, possibly a class) forming a call graph."""
    names = [f"fn{i}" for i in range(n_funcs)]
    defs = []
    sigs = {}
    for nm in names:
        kind = rng.random()
        if kind < 0.6:
            ps = ["a", "b"][: rng.randint(1, 2)]
            sig = ", ".join(ps)
        elif kind < 0.75:
            ps = ["a", "rest"]
            sig = "a, *rest"
        elif kind < 0.9:
            ps = ["a", "k"]
            sig = "a, *, k=None"
        else:
            ps = ["a", "kw"]
            sig = "a, **kw"
        sigs[nm] = (ps, sig)
    has_cls = with_class and rng.random() < 0.5
    if has_cls:
        sigs["Box"] = (["u"], "self, u")
    for nm in names:
        ps, sig = sigs[nm]
        lines = []
        for p in ps:
            if rng.random() < 0.8:
                lines.append(f"{p}.own_{nm}")
        if rng.random() < 0.3:
            lines.append(f"{ps[0]}.st_{nm} = 1")
        if rng.random() < 0.15:
            lines.append(f"del {ps[0]}.dl_{nm}")
        callees = [rng.choice(names + (["Box"] if has_cls else [])) for _ in range(rng.randint(0, max_calls))]
        for cal in callees:
            cps, _ = sigs[cal]
            p = rng.choice(ps)
            shape = "{p}" if simple_args or rng.random() < 0.5 else rng.choice(ARG_SHAPES)
            arg = shape.format(p=p)
            r = rng.random()
            if cal == "Box":
                call = rng.choice([f"t_{nm} = Box({arg})", f"return Box({arg})", f"Box({arg})"])
            elif r < 0.6:
                call = f"{cal}({arg})"
            elif r < 0.75 and len(cps) > 1 and "*" not in arg:
                call = f"{cal}({arg}, {cps[1] if cps[1] not in ('rest', 'kw') else 'zz'}={p}.kwv)"
            elif r < 0.85:
                call = f"{cal}({arg}, {p}.second)"
            elif r < 0.92:
                call = f"{cal}()"
            else:
                call = f"{cal}({cps[0]}={arg})" if "*" not in arg else f"{cal}({arg})"
            lines.append(call)
        if not lines:
            lines = ["pass"]
        body = "\n".join("    " + l for l in lines)
        defs.append((nm, f"def {nm}({sig}):\n{body}\n"))
    if has_cls:
        defs.append(("Box", "class Box:\n    def __init__(self, u):\n        self.held = u.boxed\n        self.other = u\n"))
    defs.append(("helper_free", "def helper_free(h):\n    return h.hf\n"))
    return defs


FIXED_GRAPHS = {
    # the known findings
    "compound_arg_chain": [("top", "def top(t):\n    mid(t.outer)\n"), ("mid", "def mid(m):\n    leaf(m.inner)\n"),
                           ("leaf", "def leaf(p):\n    return p.leafattr\n")],
    "shared_callee_two_bindings": [("root", "def root(a, b):\n    f(a)\n    h(b)\n"), ("f", "def f(x):\n    g(x)\n"),
                                   ("h", "def h(x):\n    g(x)\n"), ("g", "def g(y):\n    return y.gattr\n")],
    "direct_recursion": [("rec", "def rec(a):\n    a.r1\n    rec(a.next)\n")],
    "mutual_recursion": [("ping", "def ping(a):\n    a.pi\n    pong(a)\n"), ("pong", "def pong(b):\n    b.po\n    ping(b)\n")],
    "vararg_kwarg": [("c", "def c(x, y):\n    v(x, y, y)\n    k(x, extra=y)\n"), ("v", "def v(a, *rest):\n    rest.count\n    a.va\n"),
                     ("k", "def k(a, **kw):\n    kw.keys\n    a.ka\n")],
    "class_init": [("mk", "def mk(q):\n    t = Box(q.src)\n    return t\n"),
                   ("Box", "class Box:\n    def __init__(self, u):\n        self.held = u.boxed\n")],
    "class_init_dotted_target": [("mk", "def mk(holder, q):\n    holder.pt = Box(q)\n    holder.items[0] = Box(q)\n"),
                                 ("Box", "class Box:\n    def __init__(self, u):\n        self.x = u.boxed\n        self.y = 1\n")],
    "same_callee_two_keyword_values": [("top", "def top(a, b, c):\n    put(a, k=b)\n    put(a, k=c)\n"),
                                       ("put", "def put(x, k=None):\n    k.seen = 1\n    x.touched\n")],
    "static_method_order": [("K", "class K:\n    def __init__(self, u):\n        self.h = u.i\n\n    @staticmethod\n    def sm(v):\n        return v.static_attr\n"),
                            ("use", "def use(a):\n    return K.sm(a)\n")],
    "starred_argument_chain": [("compute", "def compute(width, height):\n    return width.w * height.h\n"),
                               ("area", "def area(size, scale):\n    return compute(*size) * scale.factor\n"),
                               ("area_of_pair", "def area_of_pair(pair):\n    return area(*pair)\n"),
                               ("report", "def report(config):\n    return area_of_pair(config.shape)\n")],
    "starred_and_double_starred": [("sink", "def sink(a, *rest, **kw):\n    return a.sa, rest.sr, kw.sk\n"),
                                   ("mid", "def mid(xs, opts):\n    return sink(*xs, **opts)\n"),
                                   ("top", "def top(p, q):\n    return mid(p.items, q.options)\n")],
    # a function that deletes an attribute / an item of a module-level callable: the module-level name stays callable
    "del_member_of_module_level_function": [("evict", "def evict(key):\n    del lookup.cache[key]\n    del lookup.stats\n"),
                                            ("read", "def read(cfg):\n    return lookup(cfg)\n"),
                                            ("lookup", "def lookup(p):\n    return p.loaded\n")],
    "del_member_of_module_level_class": [("drop", "def drop(key):\n    del Box.registry[key]\n"),
                                         ("mk", "def mk(q):\n    t = Box(q)\n    return t\n"),
                                         ("Box", "class Box:\n    def __init__(self, u):\n        self.held = u.boxed\n")],
    "zero_arg_callees": [("reset", "def reset():\n    REG.ready = 1\n"), ("tag", "def tag(item):\n    item.seen = 1\n"),
                         ("run", "def run(item):\n    reset()\n    tag(item)\n"), ("again", "def again(item):\n    reset()\n    tag(item)\n")],
}


def module_source(defs: list[tuple[str, str]], order=None) -> str:
    order = order if order is not None else range(len(defs))
    return "\n".join(defs[i][1] for i in order)


def _names(xs):
    return sorted({(n.name, n.basename) for n in xs})


def snapshot_ir(file_ir):
    out = []
    for sym, ir in file_ir.items():
        k = type(sym).__name__
        iface = sym.interface
        out.append({
            "id": sym.id, "kind": "KFunc" if k == "Func" else "KClass",
            "iface": (tuple(iface.posonlyargs), tuple(iface.args), iface.vararg, tuple(iface.kwonlyargs), iface.kwarg),
            "calls": [(c.name, tuple(c.args.args), tuple(c.args.kwargs.items()), None if c.target is None else fa_lib.sym_tuple(c.target))
                      for c in ir["calls"]],   # the set's own iteration order
            "gets": _names(ir["gets"]), "sets": _names(ir["sets"]), "dels": _names(ir["dels"]),
        })
    return out


def run_generation(path: Path, source: str, *, twice=False, excluded=()):
    """FileAnalyser on a real file, then generate_results_from_ir; snapshots before and after."""
    from rattr.analyser.file import FileAnalyser
    from rattr.config.state import enter_file
    from rattr.models.context import compile_root_context
    from rattr.results import generate_results_from_ir

    path.write_text(source)
    rt.clear_caches()
    rt.set_config(target=str(path), current_file=str(path), _excluded_names=list(excluded) or None)
    cfg = None
    with rt.capture_stderr() as buf, rt.time_limit(30):
        try:
            with enter_file(path):
                tree = ast.parse(source)
                context = compile_root_context(tree).expand_starred_imports()
                file_ir = FileAnalyser(tree, context).analyse()
        except SystemExit:
            return None
        except BaseException as e:  # noqa: BLE001
            return None
    before = snapshot_ir(file_ir)
    from rattr.config import Config
    Config().state.current_file = None
    raised = None
    results = None
    results2 = None
    after = None
    with rt.capture_stderr() as buf2, rt.time_limit(30):
        try:
            results = generate_results_from_ir(target_ir=file_ir, import_irs={})
            after = snapshot_ir(file_ir)      # the IR right after the FIRST generation
            if twice:
                results2 = generate_results_from_ir(target_ir=file_ir, import_irs={})
        except SystemExit:
            raised = "SystemExit"
        except BaseException as e:  # noqa: BLE001
            raised = type(e).__name__
    if results is None:
        after = snapshot_ir(file_ir)

    def res_py(r):
        if r is None:
            return None
        return {k: {kk: sorted(vv) for kk, vv in v.items()} for k, v in r.items()}
    return {"before": before, "after": after, "results": res_py(results), "results2": res_py(results2), "raised": raised,
            "simplification_diagnostics": rt.strip_ansi(buf2.getvalue()).splitlines()[:8]}


# ---- Coq terms -------------------------------------------------------------------------------

def c_iface(t) -> str:
    po, a, va, ko, kw = t
    return f"(mkIface {C.cstrs(po)} {C.cstrs(a)} {C.copt(va)} {C.cstrs(ko)} {C.copt(kw)})"


def c_entry(e) -> str:
    return f"(mkF {C.cstr(e['id'])} {e['kind']} {c_iface(e['iface'])} {fa_lib.c_calls(e['calls'])})"


def c_store(snap) -> str:
    return C.clist(f"({C.cstr(e['id'])}, ({fa_lib.c_names(e['gets'])}, {fa_lib.c_names(e['sets'])}, {fa_lib.c_names(e['dels'])}))" for e in snap)


def c_results(snap, results) -> str:
    if results is None:
        return "[]"
    out = []
    for e in snap:
        r = results.get(e["id"])
        if r is None:
            continue
        out.append(f"(mkR {C.cstr(e['id'])} {C.cstrs(r['gets'])} {C.cstrs(r['sets'])} {C.cstrs(r['dels'])} {C.cstrs(r['calls'])})")
    return C.clist(out)


def c_case(run, excluded=()) -> str:
    return (f"(mkResCase {C.clist(c_entry(e) for e in run['before'])} {c_store(run['before'])} {C.cstrs(excluded)} "
            f"{c_results(run['before'], run['results'])} {c_store(run['after'])} {C.cbool(run['raised'] is not None)})")
