"""Generated function bodies: nameable expression kind x syntactic position x load/store/delete
context, composed to a nesting depth, plus random whole bodies and a stream of
documented-unsupported shapes.  Every body is filtered through compile()."""
from __future__ import annotations

import ast
import itertools
import random

# module-level surroundings: a class with an initialiser, a helper, imports, a lambda, a namedtuple
PRELUDE = '''\
import os
import collections
from math import pi
from os.path import join as pjoin

class Cls:
    def __init__(self, u, v=None):
        self.u = u
        self.v = v

    @staticmethod
    def smeth(w):
        return w.sattr

class Plain:
    kind = 1

def helper(h, *rest, **kw):
    return h.hattr

lam = lambda z: z.lattr
NT = collections.namedtuple("NT", ["na", "nb"])
GLOBAL_NAME = 3
'''

PARAMS = "p, q, x, i, a, b, g, y, z, f, o, k, v, d, n, rest"

NAMEABLES_LOAD = [
    "x", "p.a", "p.a.b", "q[0]", "q[i.j]", "f(x)", "p.m(y.z)", "f(x).r", "f(x)[0].s", "(a + b).c", "[a, b][0]",
    "getattr(p, 'ga')", "getattr(getattr(p, 'g1'), 'g2')", "hasattr(p, 'ha')", "p.a.m().b", "helper(x.hx)",
    "Cls(x.c1, v=y.c2)", "undefined_name.attr", "lam(p.lm)", "os.path.join(p.j1)", "pjoin(p.j2)", "p.a[0].b()",
    "getattr(p, n)", "setattr(p, 'sa', v.w)", "delattr(p, 'da')", "f(*rest)", "f(**d)", "f(k=a.kw)", "p.m()()",
    "Cls.smeth(o.sm)", "x.y.z.w()", "NT(1, 2)", "GLOBAL_NAME", "pi", "len(x.ln)",
    # boundary spellings of the names the analyser special-cases
    "to_namedtuple(x.nt)", "os.as_namedtuple(y.nt2)", "g(getattr(p, 'b').items(y, 'd'))", "f(normalise(a.left))",
    "namedtuple_like(x.n3)", "xgetattr(p, 'b')", "p.getattr(q, 'c')", "defaultdict(p.factory)", "sorted(x.items2)",
]

# multi-statement shapes: two cooperating statements (repeated calls, binding then use, deletion then use)
INTERPLAY = [
    "emit(normalise(a.left))\nemit(normalise(b.right))", "f(g(x.one))\nf(g(y.two))", "f(g(x.one), k=1)\nf(g(y.two), k=1)",
    "t = Cls(x.c1)\nu = Cls(y.c2)", "return Cls(x.r1), Cls(y.r2)",
    "del (x, y)\nx.after\ny.after2", "del [x, y]\nx.after", "del x, y\nx.after", "del (x, (y, z))\nz.after",
    "[p for p in x.src]\np.after_comp", "t = 1\n[t for t in x.src]\nt.after_comp",
    "{k: v for k, v in x.items()}\nk.after\nv.after", "(q for q in x.gen)\nq.after_gen",
    "for t in x:\n    pass\nt.after_loop", "with x as (t, u):\n    pass\nu.after_with",
    "t = x.a\nt = y.b\nt.c", "x.a = 1\nx.a.b", "t = x\ndel t\nt.gone", "t = x\ndel t\nt = y\nt.back",
    "def inner(w):\n    return w.iw\ninner(x.arg)", "t = lambda w: w.lw\nt(x.arg)",
    "if x:\n    t = 1\nt.maybe", "try:\n    t = x.a\nexcept KeyError:\n    t = None\nt.b",
    "x.m(y.a).n(z.b)\nx.m(y.c).n(z.d)", "p[i.j].k = q[i.j].k", "p.a, p.b = q.b, q.a",
    # constructor calls nested in the arguments of a returned / assigned / discarded constructor call
    "return Cls(Cls(x.n1), y.n2)", "return Cls(k=Cls(x.n3))", "return [Cls(Cls(x.n4)), y]", "return Cls(x.n5), Cls(Cls(y.n6))",
    "t = Cls(Cls(x.n7), y)", "Cls(Cls(x.n8))", "return helper(Cls(x.n9))", "return Cls(helper(x.n10), Cls(y.n11, z))",
    # with items without `as`, several items, async
    "with x.lock:\n    pass", "with p.cm(x.arg):\n    pass", "with open(x.fn) as fh, y.guard:\n    fh.read()",
    "with x.a, y.b as t:\n    t.c",
    # names bound / deleted only inside an except handler, a finally block, an else block
    "try:\n    x.a\nexcept KeyError:\n    t = None\nt.b", "t = x\ntry:\n    pass\nexcept KeyError:\n    del t\nt.gone",
    "try:\n    x.a\nexcept (KeyError, ValueError):\n    t = y.dflt\nelse:\n    u = 1\nfinally:\n    w = 2\nt.b\nu.c\nw.d",
    "try:\n    return q[x.key]\nexcept KeyError:\n    value = f(x)\nq[x.key] = value\nreturn value",
    "for t in x:\n    try:\n        pass\n    except KeyError:\n        u = t\n    u.in_loop",
    # awaited operands under an attribute / subscript / star (async functions)
    "async_marker = 1\nt = (await p.m(y.z)).r", "async_marker = 1\nreturn (await f(x.q))[0].s", "async_marker = 1\ng(*(await h(x.w)))",
    "async_marker = 1\nt = (await x.fut).res.val", "async_marker = 1\n(await p.lock(y.key)).owner = z.me",
    # nested definitions and lambdas with every kind of parameter, each loaded in the nested body
    "def inner(*args, **kwargs):\n    return f(*args, **kwargs)\ninner(x)", "t = lambda *a, k=1, **kw: (a.la, k.lk, kw.lkw)\nt(x)",
    "def inner(p0, /, p1, *, ko, kd=2):\n    return p0.x0, p1.x1, ko.xo, kd.xd\ninner(x, y, ko=z)",
    "async def inner(*rest, flag=False):\n    return rest.r, flag.f\ninner(x)", "return (lambda *vs, **ks: (vs, ks))(x)",
    # starred elements of unpacking targets are bound like the rest
    "head, *rest = x.rows\nrest.r\nhead.h", "*init, last = x.rows\ninit.i", "for h, *t in x.pairs:\n    t.tt\nt.after",
    "with x.cm() as (c1, *cs):\n    cs.c", "(u, (w, *more)) = x.nested\nmore.m",
    # several ** unpackings in one call, keywords before and after an unpacking
    "f(**a.x, **b.y)", "g(p.q, **a.x, k=v.w, **b.y, last=z.l)", "t = Cls(**a.x, **b.y)", "return Cls(x.r, **a.x, **b.y)",
    "g(x, **d, key=v.w)", "g(first=a.f, **d.m, second=b.s, third=y.t)",
]

# a second module environment: local callables that reuse the names of plugin-analysed builtins
PRELUDE_LOCAL = '''\
import os
import collections

class Cls:
    def __init__(self, u, v=None):
        self.u = u

    @staticmethod
    def smeth(w):
        return w.sattr

class Plain:
    kind = 1

def helper(h, *rest, **kw):
    return h.hattr

def defaultdict(spec):
    return spec.local_dd

def pjoin(a):
    return a.local_join

lam = lambda z: z.lattr
NT = collections.namedtuple("NT", ["na", "nb"])
GLOBAL_NAME = 3
pi = 3
'''
PRELUDE_FROM = PRELUDE.replace("import collections\n", "import collections\nfrom collections import defaultdict\n")

STMT_POS = [
    "{E}", "t1 = {E}", "t2: int = {E}", "y += {E}", "return {E}", "if {E}:\n    pass", "while {E}:\n    break",
    "for t3 in {E}:\n    pass", "with {E} as t4:\n    pass", "with {E}:\n    pass", "assert {E}", "assert x, {E}",
    "raise {E}", "raise x from {E}", "try:\n    pass\nexcept {E}:\n    pass", "match {E}:\n    case 1:\n        pass",
    "match x:\n    case 1 if {E}:\n        pass", "yield {E}", "t5 = yield {E}", "t6 = lambda: {E}", "def inner(dflt={E}):\n    pass",
    "def inner2():\n    return {E}", "return {E}, 1", "return [{E}]", "return {{'k': {E}}}", "del p[{E}]", "p.attr = {E}",
    "q[{E}] = 1", "t7, t8 = {E}", "t9 = t10 = {E}", "x.y = z.w = {E}", "print({E})", "t11 = [{E}, 1]",
    "if x:\n    pass\nelif {E}:\n    pass\nelse:\n    {E}", "try:\n    {E}\nfinally:\n    pass",
    "for t12 in x:\n    {E}\nelse:\n    pass", "async_marker = 1\nt13 = {E}",
]
EXPR_POS = [
    "g({E})", "g(k={E})", "g(*{E})", "g(**{E})", "p[{E}]", "p[{E}:2]", "p[1:{E}]", "[{E}]", "({E}, 1)", "{{{E}: 1}}",
    "{{1: {E}}}", "{{{E}}}", "{E} + 1", "-{E}", "not {E}", "{E} < 2", "1 < {E} < 3", "{E} and x", "1 if {E} else 2",
    "{E} if x else 2", "f'{{{E}}}'", "f'{{x:{{{E}}}}}'", "[t for t in {E}]", "[{E} for t in x]", "[t for t in x if {E}]",
    "{{t: {E} for t in x}}", "({E} for t in x)", "{{t for t in {E}}}", "(w := {E})", "{E}.attr", "{E}[0]", "{E}(1)",
    "setattr(p, 'k', {E})", "getattr(p, 'q', {E})", "getattr({E}, 'r')", "p.meth({E}).chained", "p.meth({E})[0]",
    "lambda: {E}", "(lambda u: u)({E})", "[*{E}]", "{{**{E}}}", "(await_marker, {E})",
]

TARGETS = ["t", "p.a", "q[0]", "p.a.b", "q[i.j]", "p.a[0]", "f(x).r", "(t, u)", "[t, u]", "(t, (u, p.a))", "(t, *r)"]
STORE_POS = ["{T} = 1", "{T} = x.rhs", "for {T} in x.it:\n    pass", "with x.cm as {T}:\n    pass", "del {T}",
             "[1 for {T} in x.src]", "{T} += 1", "{T}: int = 1", "for {T} in x:\n    use = {T0}"]

UNSUPPORTED = [
    "global gg\ngg = 1", "nonlocal_marker = 1", "import os", "from os import path", "class Inner:\n    pass",
    "t = lambda: x.la", "t, u = lambda: 1, 2", "t = collections.namedtuple('t', ['a'])", "t = collections.namedtuple('t', 'a b')",
    "t = collections.namedtuple('t')", "t = Cls(x, y)", "t = u = Cls(x)", "t = [Cls(x), 1]", "(a + b).c = 1",
    "for (a + 1).x in y:\n    pass", "del (a + b).c", "return Cls(x.r1)", "return [Cls(x.r2), y.r3]", "return {'k': Cls(x.r4)}",
    "Cls(x.d1)", "p.a = Cls(x.d2)", "t = getattr(p)", "t = getattr(f(x), 'c')", "t = getattr(a + b, 'c')",
    "t = sorted(x.s1, key=lambda e: e.sk)", "t = collections.defaultdict(list)", "t = getattr(p, 'b').c()",
    "t: Cls = Cls(x.an)", "(t := Cls(x.w1))", "(t := lambda: 1)", "x = (yy := lambda: 1)", "del t", "del x\nx.after",
    "del p.a\np.c", "try:\n    pass\nexcept ValueError as exc:\n    exc.args", "match x:\n    case [m1, m2]:\n        m1.ma",
    "t = NT(x.n1, nb=y.n2)", "return NT(x.n3, 1)", "t = Plain()", "t = os.getcwd()", "t = helper", "t = x.m1().m2().m3",
    "with open(x.fn) as fh, p.cm() as (c1, c2):\n    fh.read(c1.z)", "async_marker = [u async for u in x.ai]",
    "t = [u.f1 for u in x.l1 for w in u.l2 if w.c1 if u.c2]", "t = {u: w for u, w in x.items()}",
    "t = p.q.r.s.t1()", "t = p().q().r()", "t = p[0]()", "t = (a or b).meth()", "t = 'lit'.join(x.parts)", "t = str(x).upper()",
]


def fn(name: str, body: str, is_async=False, params=PARAMS) -> str:
    ind = "\n".join("    " + l for l in body.split("\n"))
    return f"{'async ' if is_async else ''}def {name}({params}):\n{ind}\n"


def valid(src: str) -> bool:
    try:
        compile(src, "<gen>", "exec", dont_inherit=True)
        return True
    except SyntaxError:
        return False


def catalogue(depth: int, rng: random.Random, cap: int | None):
    """Function sources: every nameable in every position (depth 1), and position-in-position (depth 2)."""
    bodies = []
    for pos in STMT_POS:
        for e in NAMEABLES_LOAD:
            bodies.append(pos.replace("{E}", e))
    if depth >= 2:
        for pos in STMT_POS:
            for ep in EXPR_POS:
                for e in NAMEABLES_LOAD:
                    bodies.append(pos.replace("{E}", ep.replace("{E}", e)))
    if depth >= 3:
        for pos in STMT_POS[:12]:
            for ep1 in EXPR_POS:
                for ep2 in EXPR_POS:
                    for e in NAMEABLES_LOAD[:12]:
                        bodies.append(pos.replace("{E}", ep1.replace("{E}", ep2.replace("{E}", e))))
    for sp in STORE_POS:
        for t in TARGETS:
            bodies.append(sp.replace("{T}", t).replace("{T0}", "t"))
    bodies += UNSUPPORTED
    bodies += INTERPLAY
    for u in UNSUPPORTED:
        for e in NAMEABLES_LOAD[:6]:
            bodies.append(f"{u}\nafter = {e}")
    if cap is not None and len(bodies) > cap:
        keep = bodies[: len(STMT_POS) * len(NAMEABLES_LOAD)]
        rest = bodies[len(keep):]
        bodies = keep + rng.sample(rest, max(0, cap - len(keep)))
    return bodies


def random_body(rng: random.Random) -> str:
    lines = []
    for _ in range(rng.randint(1, 5)):
        r = rng.random()
        if r < 0.55:
            pos = rng.choice(STMT_POS)
            e = rng.choice(NAMEABLES_LOAD)
            for _ in range(rng.randint(0, 2)):
                e = rng.choice(EXPR_POS).replace("{E}", e)
            lines.append(pos.replace("{E}", e))
        elif r < 0.8:
            lines.append(rng.choice(STORE_POS).replace("{T}", rng.choice(TARGETS)).replace("{T0}", "t"))
        else:
            lines.append(rng.choice(UNSUPPORTED))
    return "\n".join(lines)


def prelude_for(module_index: int) -> str:
    """Module environments alternate so that process-level state leaking between modules is exercised."""
    return (PRELUDE, PRELUDE_FROM, PRELUDE_LOCAL)[module_index % 3]


def modules(bodies: list[str], per_module: int = 25, offset: int = 0):
    """Group bodies into module sources with the prelude; one function per body."""
    srcs = []
    cur = []
    for ix0, b in enumerate(bodies):
        ix = ix0 + offset
        is_async = "await_marker" in b or "async_marker" in b or "async for" in b
        b2 = b.replace("(await_marker, ", "(await x.aw, ").replace("async_marker = 1\n", "await x.aw2\n").replace("async_marker = ", "t_async = ")
        src = fn(f"fn_{ix}", b2, is_async=is_async)
        if not valid(PRELUDE + src):
            continue
        cur.append((ix, b2, src))
        if len(cur) >= per_module:
            srcs.append(cur)
            cur = []
    if cur:
        srcs.append(cur)
    return srcs
