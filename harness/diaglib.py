"""Programs that make rattr emit known mixes of diagnostics, and running them end-to-end."""
from __future__ import annotations

import json
import os
import random
import re
import shutil
import subprocess
import tempfile
from concurrent.futures import ThreadPoolExecutor
from pathlib import Path

import common as C
import rt

DRIVER = str(C.VERIF / "harness" / "run_main.py")

# snippet kinds: (name, where, python text with {n} placeholder, expected (level, weight))
MODULE_SNIPPETS = {
    "del": ("tmp{n} = 1\ndel tmp{n}\n", ("warning", 1)),
    "multi_import": ("import os, sys\n", ("info", 0)),
    "toplevel_expr": ("tmpx{n} = [1]\ntmpx{n}.attr\n", ("error", 5)),
}
FUNC_SNIPPETS = {
    "undef": ("def f_undef{n}(a):\n    return undef_name{n}.attr\n", ("warning", 1)),
    "nested": ("def f_nested{n}(a):\n    def inner():\n        return a.x\n    return a.y\n", ("error", 5)),
    "method": ("def f_method{n}(a):\n    return a.method{n}()\n", ("info", 0)),
    "clean": ("def f_clean{n}(a):\n    return a.attr{n}\n", None),
    # an error raised while the call target is looked up (get_call_target): a call on the result of a call
    "call_on_call": ("def f_coc{n}(a):\n    return f_coc{n}(a)(a)\n", ("error", 5)),
}
FATAL_SNIPPET = "def f_fatal(a):\n    global g_fatal\n    return a.z\n"


def gen_program(rng: random.Random, *, allow_fatal=True) -> dict:
    """Returns {"files": {name: source}, "plan": {...}}; target is target.py."""
    plan = {"target": [], "import": [], "simplify": [], "fatal": None}
    n = [0]

    def fresh():
        n[0] += 1
        return n[0]

    def body(kinds_mod, kinds_fn, bucket):
        txt = ""
        for k in kinds_mod:
            txt += MODULE_SNIPPETS[k][0].format(n=fresh())
            plan[bucket].append(k)
        for k in kinds_fn:
            txt += FUNC_SNIPPETS[k][0].format(n=fresh())
            if FUNC_SNIPPETS[k][1]:
                plan[bucket].append(k)
        return txt

    def pick(pool, lo, hi):
        return [rng.choice(pool) for _ in range(rng.randint(lo, hi))]

    helper_mod = pick(list(MODULE_SNIPPETS), 0, 2)
    helper_fn = pick(list(FUNC_SNIPPETS), 0, 3)
    helper = "def helper_fn(p):\n    return p.helper_attr\n" + body(helper_mod, helper_fn, "import")

    tgt = "from helper import helper_fn\n"
    n_missing = rng.randint(0, 2)
    for i in range(n_missing):
        tgt += f"from helper import missing{i}\n"
    use_stdlib = rng.random() < 0.4
    if use_stdlib:
        tgt += "from os.path import join\n"
    tgt += body(pick(list(MODULE_SNIPPETS), 0, 2), pick(list(FUNC_SNIPPETS), 0, 3), "target")
    tgt += "def caller(x):\n    r = helper_fn(x)\n"
    for i in range(n_missing):
        tgt += f"    missing{i}(x)\n"
        plan["simplify"].append("missing")
    if use_stdlib:
        tgt += "    join(x)\n"
        plan["simplify"].append("stdlib_info")
    if rng.random() < 0.4:
        tgt += "    callee1(x, x)\n"
        plan["simplify"].append("too_many")
    tgt += "    return r\n"
    tgt += "def callee1(q):\n    return q.callee_attr\n"
    if rng.random() < 0.5:
        # one defective call reached from several functions: simplification raises the same diagnostic, for the same
        # call, once per function that reaches it
        tgt += "def shared_step(q):\n    return callee1(q, q)\n\ndef caller2(x):\n    return shared_step(x)\n\ndef caller3(x):\n    return shared_step(x.inner)\n"
        plan["simplify"] += ["too_many (shared)"] * 3
    fatal = None
    if allow_fatal and rng.random() < 0.2:
        fatal = rng.choice(["target", "import"])
        if fatal == "target":
            tgt += FATAL_SNIPPET
        else:
            helper += FATAL_SNIPPET
        plan["fatal"] = fatal
    return {"files": {"target.py": tgt, "helper.py": helper}, "plan": plan}


def materialise(prog: dict, root: Path) -> None:
    root.mkdir(parents=True, exist_ok=True)
    for name, src in prog["files"].items():
        p = root / name
        p.parent.mkdir(parents=True, exist_ok=True)
        p.write_text(src)


def run_rattr(cwd: Path, args: list[str], *, hashseed="0", timeout=60, extra_env=None) -> dict:
    """One real run of rattr's main() through the recording driver."""
    trace = tempfile.NamedTemporaryFile(prefix="trace_", suffix=".json", dir=cwd, delete=False)
    trace.close()
    env = dict(os.environ)
    env.update({"PYTHONPATH": str(C.REPO), "RATTR_REPO": str(C.REPO), "PYTHONHASHSEED": str(hashseed),
                "PYTHONDONTWRITEBYTECODE": "1", "HOME": env.get("HOME", "/root")})
    for k in ("RATTR_VERIF_FAKE_VERSION", "RATTR_VERIF_EXTRA_PLUGIN"):
        env.pop(k, None)
    if extra_env:
        env.update(extra_env)
    try:
        p = subprocess.run([C.PY, DRIVER, trace.name, "--", *args], cwd=cwd, env=env,
                           capture_output=True, text=True, timeout=timeout)
        timed_out = False
    except subprocess.TimeoutExpired as e:
        return {"timeout": True, "exit": None, "stdout": e.stdout or "", "stderr": e.stderr or "", "trace": None, "args": args}
    try:
        tr = json.loads(Path(trace.name).read_text())
    except Exception:  # noqa: BLE001
        tr = None
    finally:
        try:
            os.unlink(trace.name)
        except FileNotFoundError:
            pass
    return {"timeout": timed_out, "exit": p.returncode, "stdout": p.stdout, "stderr": p.stderr, "trace": tr, "args": args}


def stderr_levels(stderr: str) -> list[str]:
    """Levels of the diagnostic lines, in order (the blue `rattr:` notices are not diagnostics)."""
    out = []
    for level, _ in rt.parse_diag_lines(stderr):
        if level in ("info", "warning", "error", "fatal"):
            out.append(level)
        elif level == "?":
            out.append("?")
    return out


def has_traceback(stderr: str) -> bool:
    return "Traceback (most recent call last)" in stderr


# ---- Coq terms --------------------------------------------------------------------------

LEVEL_D = {"info": "DInfo", "warning": "DWarning", "error": "DError", "fatal": "DFatal"}
LEVEL_L = {"info": "LInfo", "warning": "LWarning", "error": "LError", "fatal": "LFatal", "rattr": "LRattr"}
PLACE = {"target": "InTarget", "import": "InImport", "nofile": "NoFile"}
WLEVEL = {"none": "WNone", "local": "WLocal", "default": "WDefault", "all": "WAll"}


def cz(n: int) -> str:
    return f"({int(n)})%Z"


def c_ev(e: dict) -> str:
    return f"(mkEv {LEVEL_D[e['level']]} {cz(e['weight'])} {PLACE[e['place']]})"


def c_args(strict: bool, threshold: int, wl: str) -> str:
    return f"(mkArgs {C.cbool(strict)} {cz(threshold)} {WLEVEL[wl]})"


def c_obs(exit_code: int, st: dict, levels: list[str]) -> str:
    return (f"(mkObs {cz(exit_code)} {cz(st['target'])} {cz(st['imports'])} {cz(st['simpl'])} "
            f"{C.clist(LEVEL_L[l] for l in levels)})")


def split_events(trace: dict):
    """analysis-phase events, simplification-phase events, others (main's own threshold fatal, pre-main)."""
    evA, evS, other = [], [], []
    for e in trace["events"]:
        if e["phase"] == "analyse":
            evA.append(e)
        elif e["phase"] == "simplify":
            evS.append(e)
        else:
            other.append(e)
    return evA, evS, other


def parse_stats_badness(stdout: str) -> dict | None:
    m = {}
    for key, pat in (("total", r"Total badness\s*\|\s*(\d+)"), ("target", r"\.\.\. from <file>\s*\|\s*(\d+)"),
                     ("imports", r"\.\.\. from imports\s*\|\s*(\d+)"), ("simpl", r"\.\.\. from simplification\s*\|\s*(\d+)")):
        g = re.search(pat, stdout)
        if not g:
            return None
        m[key] = int(g.group(1))
    return m


class Scratch:
    def __enter__(self):
        self.root = Path(tempfile.mkdtemp(prefix="rattrv_"))
        return self.root

    def __exit__(self, *a):
        shutil.rmtree(self.root, ignore_errors=True)


def pmap(fn, items, workers=None):
    with ThreadPoolExecutor(max_workers=workers or C.NPROC) as ex:
        return list(ex.map(fn, items))
