"""One shared run for the four properties that rest on the FunctionAnalyser model
(C01, C02, C09, C17): generate bodies, run rattr, evaluate model + spec checkers in Coq."""
from __future__ import annotations

import ast
import hashlib
import json
import os
import pickle
import random
import sys
import warnings
from pathlib import Path

import common as C
import diaglib as D
import emit
import fa_lib
import gen_bodies as G
import rt

MODEL_FILES = ["model/Base.v", "model/ModNames.v", "model/Str.v", "model/PyAst.v", "model/Naming.v", "model/Context.v",
               "model/FuncAn.v", "spec/Spell.v", "spec/FaCheck.v", "spec/Occurs.v", "spec/CallSpec.v", "spec/Binding.v",
               "spec/FaSpecCheck.v"]

BITS = {"corr": 1, "c01_new": 2, "c01_kf": 4, "c02": 8, "c09": 16, "not_ok": 32, "unmodelled": 64,
        "c17_new": 128, "c17_kf": 256, "c17_missing": 512, "c01_beyond_model": 1024, "c17_beyond_model": 2048}

# minimal bodies, one per finding class (also the corpus: they run first)
WITNESSES = {
    "KF_C01_2": "p.m(y.z).n",                          # arguments of a call inside a spine, and that call
    "KF_C01_3": "setattr(p, 'k', v.w)",                # arguments of a getattr-family call
    "KF_C01_4": "def inner(dflt=x.dv):\n    pass",     # defaults / decorators / annotations of a nested def or lambda
    "KF_C01_5": "(a + b).c.d",                         # unnameable root under two or more spine levels
    "KF_C01_6": "t = collections.namedtuple('t', ['a'])\nu = NT(x.n1, 2)",   # namedtuple declaration inside a function
    "KF_C01_7": "t: x.Ann = Cls(y.c)",                 # annotation of an annotated class instantiation
    "KF_C17_1": "try:\n    pass\nexcept ValueError as exc:\n    exc.args",
    "KF_C17_2": "match x:\n    case [m1, m2]:\n        m1.ma",
    "KF_C17_3": "del p.a\np.c",
    "KF_C17_4": "t = 1\ndel t",
    "KF_C17_5": "t = collections.namedtuple('t')\ndel t",
    "KF_C02_1": "g(getattr(p, 'b').items(y, 'd'))",   # a call through a getattr spine is recorded under a name the body never calls
}


def repo_key(tier: str) -> str:
    h = hashlib.sha256()
    for p in sorted((C.REPO / "rattr").rglob("*.py")):
        h.update(p.read_bytes())
    for p in sorted((C.VERIF / "coq").rglob("*.v")):
        if "/gen/" not in str(p):
            h.update(p.read_bytes())
    for p in ("fa_run.py", "fa_lib.py", "gen_bodies.py", "emit.py"):
        h.update((C.VERIF / "harness" / p).read_bytes())
    h.update(f"{tier}:{C.SEED}".encode())
    return h.hexdigest()[:20]


def run(tier: str) -> dict:
    """Returns {"cases": [(code, meta)], "witness": {kf: code}, "build": BuildResult-like, ...}; cached per source state."""
    warnings.simplefilter("ignore")
    cache_dir = C.VERIF / ".cache"
    cache_dir.mkdir(exist_ok=True)
    key = repo_key(tier)
    cpath = cache_dir / f"fa_{key}.pkl"
    if cpath.exists():
        try:
            return pickle.loads(cpath.read_bytes())
        except Exception:  # noqa: BLE001
            pass
    T = C.Timer()
    rng = random.Random(C.SEED)
    depth, cap, n_rand = (2, 2200, 500) if tier == "quick" else (3, 40000, 8000)
    wit = list(WITNESSES.items())
    bodies = [b for _, b in wit] + G.INTERPLAY + G.catalogue(depth, rng, cap) + [G.random_body(rng) for _ in range(n_rand)]
    n_main = len(bodies)
    # the interplay / boundary shapes once more in each module environment, in a fixed order (process-level state
    # leaking from one module's analysis into the next is exercised)
    extra = G.INTERPLAY + G.NAMEABLES_LOAD[-9:]
    bodies += extra * 3
    old_path0, old_cwd = sys.path[0], os.getcwd()
    cases, metas = [], []
    file_problems = []
    with D.Scratch() as scratch:
        hdr = fa_lib.header(scratch)
        sys.path[0] = str(scratch)
        os.chdir(scratch)
        try:
            plan = []
            main_plan = [(G.prelude_for(mi), grp) for mi, grp in enumerate(G.modules(bodies[:n_main]))]
            for k_, e in enumerate((1, 2, 0)):
                lo = n_main + k_ * len(extra)
                for grp in G.modules(bodies[lo: lo + len(extra)], per_module=len(extra) + 1, offset=lo):
                    plan.append((G.prelude_for(e), grp))
            plan += main_plan
            for mi, (prelude, grp) in enumerate(plan):
                if rt.HANGS[0] >= 3:
                    break
                src = prelude + "\n".join(s for _, _, s in grp)
                recs, fo = fa_lib.analyse_module(scratch / f"m{mi}.py", src)
                if fo[0] != "ok":
                    file_problems.append({"module_source": src[-1500:], "outcome": fo})
                names = {f"fn_{ix}": (ix, b) for ix, b, _ in grp}
                for r in recs:
                    t = fa_lib.c_record(r, scratch)
                    if t is None:
                        continue
                    nm = getattr(r["fn"], "name", "<lambda>")
                    ix, body = names.get(nm, (None, None))
                    cases.append(t)
                    metas.append({"function": ast.unparse(r["fn"]), "body_index": ix, "ir": r["ir"], "warnings": r["warnings"],
                                  "outcome": r["outcome"], "other_diagnostics": r["other_diagnostics"][:6],
                                  "witness_of": wit[ix][0] if ix is not None and ix < len(wit) else None})
        finally:
            sys.path[0] = old_path0
            os.chdir(old_cwd)
            rt.clear_caches()
    codes = C.coq_eval_codes("fa", hdr, "fa_case", "fa_spec_code", cases, shard=60, timeout=1800)
    res = {"cases": list(zip(codes, metas)), "n_bodies": len(bodies), "file_problems": file_problems,
           "node_class_counts": dict(emit.counts.most_common(60)), "wall_s": T.s, "depth": depth, "cap": cap, "n_rand": n_rand}
    try:
        for old in cache_dir.glob("fa_*.pkl"):
            old.unlink()
        cpath.write_bytes(pickle.dumps(res))
    except Exception:  # noqa: BLE001
        pass
    return res


def check(prop: str, tier: str, *, new_bits: int, kf_bit: int | None, beyond_bit: int | None, proof_files: list[str],
          what: str, kf_prefix: str, kf_requires: int = 0, extra=None) -> int:
    """new_bits: spec failure bits; kf_bit: failure inside a listed class (kf_requires: extra bit that must also be set for
    the failure to count as inside the class); beyond_bit: rattr's failure goes beyond what the model predicts."""
    T = C.Timer()
    V = C.Verdict(prop)
    extra_found = extra(tier) if extra else []       # property-specific end-to-end judgements (violations with failing input)
    for x in extra_found[:3]:
        V.violation({"property": prop, **x})
    import translate_tables
    translate_tables.write()
    build = C.coq_build(MODEL_FILES + ["gen/Tables.v"] + proof_files)
    if any(t in build.failed for t in MODEL_FILES):
        raise SystemExit("internal error: model/spec files do not compile:\n" + build.log)
    n_obl, n_done, broken = C.obligations_from(build, proof_files)
    res = run(tier)
    judged = [(c, m) for c, m in res["cases"] if not (c & 64)]
    ok_cases = [(c, m) for c, m in judged if not (c & 32)]
    corr_fail = [m for c, m in judged if c & 1]
    def in_class(c):
        return bool(kf_bit and (c & kf_bit) and (c & kf_requires) == kf_requires and not (beyond_bit and c & beyond_bit))

    new = [m for c, m in ok_cases if ((c & new_bits) and not (kf_bit == new_bits and in_class(c))) or (beyond_bit and c & beyond_bit and c & (new_bits | (kf_bit or 0)))]
    kf_repro = {m["witness_of"] for c, m in ok_cases if in_class(c) and m["witness_of"]}
    kf_any = sum(1 for c, m in ok_cases if in_class(c))

    for m in new[:5]:
        V.violation({"property": prop, "why": what, **m})
    if not new:
        if corr_fail:
            V.violation({"property": prop, "broken": "correspondence suite fa (model/FuncAn.v vs rattr.analyser.function.FunctionAnalyser)",
                         "disagreements": len(corr_fail), "first": corr_fail[0]}, failing_input=False)
        elif broken:
            V.violation({"property": prop, "broken": broken, "errors": build.failed, "why": "proof obligation no longer checks"},
                        failing_input=False)
    for f in C.known_findings(prop):
        if f["class"] in kf_repro:
            V.known(f"{f['id']}: {f['what']}")
        else:
            V.notes.append(f"listed finding {f['id']} did not reproduce on its witness")

    pa = ""
    prop_file = f"props/{prop}.v"
    if prop_file in build.ok_targets:
        pa = C.print_assumptions(prop_file)
    C.write_evidence(
        prop,
        coverage={
            "obligations": max(n_obl, 1), "discharged": n_done if n_obl else 0,
            "checker_cmd": f"cd /verif/coq && make {prop_file}o",
            "trusted_base": C.TRUSTED_BASE_COMMON + ["harness/emit.py (Python ast -> Coq node terms), harness/fa_lib.py (wraps FunctionAnalyser.analyse from outside)",
                                                     "module_exists is an oracle supplied per case from the real function"],
            "evaluations": len(res["cases"]), "distinct_nontrivial": len({m["function"] for _, m in ok_cases}),
            "rule": f"function bodies: every nameable kind x every statement position (depth 1), x expression positions (depth {res['depth']}, capped at {res['cap']} seeded), "
                    f"store/delete targets x binding positions, documented-unsupported shapes, {res['n_rand']} random multi-statement bodies, in modules with a class, "
                    "static method, lambda, namedtuple and imports; distinct = distinct function source whose analysis ended normally",
            "programs": res["n_bodies"], "traces_validated_against_impl": len(judged), "disagreements_checked": len(corr_fail),
            "spec_failures_new": len(new), "cases_hitting_known_classes": kf_any, "known_classes_reproduced": sorted(kf_repro),
            "outside_model_sorted_defaultdict": sum(1 for c, _ in res["cases"] if c & 64),
            "analysis_ended_fatal_or_raise": sum(1 for c, _ in judged if c & 32),
            "node_class_counts": res["node_class_counts"], "shared_run_wall_s": res["wall_s"],
            "print_assumptions": pa, "broken_obligation_files": broken,
            "samples": [ok_cases[len(ok_cases) // 3][1], ok_cases[-1][1]],
        },
        wall_s=T.s,
        assumptions=["non-strict mode (error.error does not abort)", "identifiers / string constants printable ASCII",
                     "functions calling the sorted / collections.defaultdict custom analysers are outside the model and set aside (counted)"],
        violations=len(V.violations))
    return V.finish()
