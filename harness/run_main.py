"""Driver: runs rattr's real main() in this process exactly as `python -m rattr` would, while
recording - from outside, by wrapping, without touching rattr's source - every diagnostic emitted
through rattr.error.{info,warning,error,fatal} (level, weight, place, phase) and the final badness
buckets.  usage: run_main.py TRACE.json -- <rattr command line>"""
import json
import os
import sys

repo = os.environ.get("RATTR_REPO", "/repo")
sys.path[0] = os.getcwd()  # as under `python -m rattr`
sys.path.insert(1, repo)
trace_path = sys.argv[1]
sys.argv = ["rattr", *sys.argv[3:]]

import rattr.error as E  # noqa: E402
import rattr.__main__ as M  # noqa: E402
from rattr.config import Config  # noqa: E402
from rattr.config._types import ConfigMetaclass  # noqa: E402

# C19: a different rattr version / user plugin set, arranged from outside (nothing in /repo changes)
if os.environ.get("RATTR_VERIF_FAKE_VERSION"):
    import rattr.models.results.util as _U
    _U.version = os.environ["RATTR_VERIF_FAKE_VERSION"]
if os.environ.get("RATTR_VERIF_EXTRA_PLUGIN"):
    import importlib.util as _ilu
    from rattr.plugins import register_rattr_plugins as _reg
    _spec = _ilu.spec_from_file_location("rattr_verif_extra_plugin", os.environ["RATTR_VERIF_EXTRA_PLUGIN"])
    _mod = _ilu.module_from_spec(_spec)
    sys.modules["rattr_verif_extra_plugin"] = _mod
    _spec.loader.exec_module(_mod)
    _reg(analysers=_mod.ANALYSERS)

events = []
phase = ["pre"]


def place():
    try:
        cfg = Config._instance
        if cfg is None:
            return "nofile"
        cf = cfg.state.current_file
        if cf is None:
            return "nofile"
        return "target" if cfg.arguments.target == cf else "import"
    except Exception:  # noqa: BLE001
        return "nofile"


def wrap(name):
    orig = getattr(E, name)
    default = orig.__defaults__[-1]

    def wrapper(message, culprit=None, badness=None):
        w = default if badness is None else badness
        events.append({"level": name, "weight": w, "place": place(), "phase": phase[0], "message": str(message)[:200]})
        if badness is None:
            return orig(message, culprit)
        return orig(message, culprit, badness)

    setattr(E, name, wrapper)


for _n in ("info", "warning", "error", "fatal"):
    wrap(_n)


def phased(fn, name):
    def wrapper(*a, **k):
        old = phase[0]
        phase[0] = name
        try:
            return fn(*a, **k)
        finally:
            phase[0] = old
    return wrapper


M.parse_and_analyse_file = phased(M.parse_and_analyse_file, "analyse")
M.generate_results_from_ir = phased(M.generate_results_from_ir, "simplify")

outcome = {"exit": None, "exception": None}
try:
    cfg = M._init_rattr_config()
    phase[0] = "main"
    code = M.main(cfg)
    outcome["exit"] = int(code)
except SystemExit as e:
    outcome["exit"] = e.code if isinstance(e.code, int) else (0 if e.code is None else 1)
    if e.code is not None and not isinstance(e.code, int):
        print(e.code, file=sys.stderr)        # what the interpreter does with `raise SystemExit("message")`
except BaseException as e:  # noqa: BLE001
    outcome["exception"] = f"{type(e).__name__}: {e}"
    outcome["exit"] = 1
    import traceback
    traceback.print_exc()
finally:
    st = None
    try:
        c = Config._instance
        if c is not None:
            st = {"target": c.state.badness_from_target_file, "imports": c.state.badness_from_imports,
                  "simpl": c.state.badness_from_simplification}
    except Exception:  # noqa: BLE001
        pass
    with open(trace_path, "w") as fh:
        json.dump({"events": events, "outcome": outcome, "state": st}, fh)
    sys.stdout.flush()
    sys.stderr.flush()
os._exit(outcome["exit"] if outcome["exit"] is not None else 1)
