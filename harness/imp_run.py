"""Shared run for the properties that rest on the import model (C06, C12, and the cross-file scenarios of
C05 / C14): generated multi-module projects are analysed by the real pipeline in-process; every project is
also merged into one file and analysed; Coq judges the snapshots (spec/ImpCheck.v)."""
from __future__ import annotations

import ast
import hashlib
import importlib.machinery
import os
import pickle
import random
import re
import sys
import sysconfig
import warnings
from pathlib import Path

import common as C
import diaglib as D
import fa_lib
import imp_lib as I
import res_lib as R
import rt

MODEL_FILES = ["model/Base.v", "model/ModNames.v", "model/Str.v", "model/PyAst.v", "model/Naming.v", "model/Context.v",
               "model/CallSwaps.v", "model/FuncAn.v", "model/Results.v", "model/Imports.v", "spec/FaCheck.v", "spec/ResCheck.v", "spec/ImpCheck.v"]
HDR = ("From RattrV Require Import Base Str Context CallSwaps FuncAn FaCheck Results ResCheck Imports ImpCheck.\n"
       "Open Scope string_scope.\nOpen Scope list_scope.\n")
STDLIB_DIR = sysconfig.get_paths()["stdlib"]
SITE_REL = "venv/lib/python3.12/site-packages"
SITE_FILES = {
    f"{SITE_REL}/pipmod.py": "import colorsys\n\ndef pip_f(p):\n    return p.own_pip_f\n",
    f"{SITE_REL}/pippkg/__init__.py": "from .inner import pip_g\n",
    f"{SITE_REL}/pippkg/inner.py": "import pipmod\n\ndef pip_g(p):\n    pipmod.pip_f(p)\n    return p.own_pip_g\n",
    # a PEP 420 namespace package: no __init__.py
    f"{SITE_REL}/nsp/plugin.py": "def nsp_f(p):\n    return p.own_nsp_f\n",
    # a package installed as a symlink to a directory elsewhere
    f"{SITE_REL}/linkedpkg": "@symlink:../../../../linked_src/linkedpkg",
    "linked_src/linkedpkg/__init__.py": "",
    "linked_src/linkedpkg/core.py": "def linked_f(p):\n    return p.own_linked_f\n",
}


def repo_key(tier: str) -> str:
    h = hashlib.sha256()
    for p in sorted((C.REPO / "rattr").rglob("*.py")):
        h.update(p.read_bytes())
    for p in sorted((C.VERIF / "coq").rglob("*.v")):
        if "/gen/" not in str(p):
            h.update(p.read_bytes())
    for p in ("imp_run.py", "imp_lib.py", "res_lib.py", "fa_lib.py", "multi_scen.py"):
        h.update((C.VERIF / "harness" / p).read_bytes())
    h.update(f"{tier}:{C.SEED}".encode())
    return h.hexdigest()[:20]


# ---- the specification side: the import graph as Python would resolve it ------------------------
INSTALLED_AS: dict[str, str] = {}


def find_module_file(name: str, search: list[str]) -> str | None:
    """The file Python's path finder gives for a dotted module name, without importing anything."""
    parts = name.split(".")
    path = search
    spec = None
    for i in range(len(parts)):
        spec = importlib.machinery.PathFinder.find_spec(".".join(parts[: i + 1]), path)
        if spec is None:
            return None
        path = list(spec.submodule_search_locations or [])
        if i < len(parts) - 1 and not path:
            return None
    if spec is None or spec.origin in (None, "built-in", "frozen") or not os.path.isfile(spec.origin) or not spec.origin.endswith(".py"):
        return None          # extension / frozen / built-in modules have no source to analyse
    real = os.path.realpath(spec.origin)
    if real != spec.origin:
        INSTALLED_AS[real] = spec.origin       # reached through a symlink: classified by where it is installed
    return real


def module_name_of_file(path: str, search: list[str]) -> str | None:
    for d in sorted({os.path.realpath(d) for d in search}, key=len, reverse=True):
        if path.startswith(d + os.sep):
            rel = path[len(d) + 1:]
            if rel.endswith(".py"):
                parts = rel[:-3].split(os.sep)
                return ".".join(parts)
    return None


def imports_of_file(path: str, search: list[str]) -> list[tuple[str, str]]:
    """[(module name, file)] named by the import statements of a file (any nesting depth is NOT followed: rattr's
    root context looks at module level only, and so does this specification)."""
    try:
        tree = ast.parse(Path(path).read_text())
    except Exception:  # noqa: BLE001
        return []
    modname = module_name_of_file(path, search)
    is_init = path.endswith("__init__.py")
    package = None
    if modname is not None:
        package = modname[: -len(".__init__")] if is_init else (modname.rsplit(".", 1)[0] if "." in modname else "")
    out = []
    for stmt in tree.body:
        if isinstance(stmt, ast.Import):
            for a in stmt.names:
                f = find_module_file(a.name, search)
                if f:
                    out.append((a.name, f))
        elif isinstance(stmt, ast.ImportFrom):
            base = stmt.module
            if stmt.level:
                if package is None:
                    continue
                pparts = package.split(".") if package else []
                if stmt.level - 1 > len(pparts):
                    continue
                pparts = pparts[: len(pparts) - (stmt.level - 1)]
                base = ".".join(pparts + ([stmt.module] if stmt.module else []))
            if not base:
                continue
            for a in stmt.names:
                cand = None if a.name == "*" else find_module_file(f"{base}.{a.name}", search)
                if cand:
                    out.append((f"{base}.{a.name}", cand))
                else:
                    f = find_module_file(base, search)
                    if f:
                        out.append((base, f))
    return out


def source_graph(root: Path, target: str, search: list[str]):
    """origin -> [origins], origin -> module names, for everything reachable from the target."""
    start = os.path.realpath(root / target)
    graph, names = {}, {}
    todo = [start]
    while todo:
        f = todo.pop()
        if f in graph:
            continue
        edges = imports_of_file(f, search)
        graph[f] = []
        for mn, g in edges:
            names.setdefault(g, set()).add(mn)
            if g not in graph[f]:
                graph[f].append(g)
            if g not in graph and len(graph) < 400:
                todo.append(g)
    return start, graph, names


def classify(origin: str, root: Path) -> int:
    site = os.path.realpath(root / SITE_REL)
    # a package that sits in site-packages as a symlink (flit install --symlink, editable layouts) is pip-installed
    origin = INSTALLED_AS.get(origin, origin)
    if origin.startswith(site + os.sep):
        return 2
    if origin.startswith(os.path.realpath(STDLIB_DIR) + os.sep) and "site-packages" not in origin:
        return 3
    if "site-packages" in origin:
        return 2
    return 1


# ---- Coq terms -----------------------------------------------------------------------------------
def c_msym(t) -> str:
    if t[0] == "MImport":
        return f"(MImport {C.cstr(t[1])} {C.cstr(t[2])})"
    return t[0]


def c_ctx(symtab) -> str:
    return C.clist(f"({C.cstr(n)}, {c_msym(t)})" for n, t in symtab)


def c_modin(name: str, m: dict) -> str:
    return f"(mkModIn {C.cstr(name)} {C.cstr(m['file'])} {c_ctx(m['ctx'])} {C.clist(R.c_entry(e) for e in m['snapshot'])})"


def c_qstore(snaps: dict) -> str:
    items = []
    for mname, snap in snaps.items():
        for e in snap:
            items.append(f"({C.cstr(mname + '::' + e['id'])}, ({fa_lib.c_names(e['gets'])}, {fa_lib.c_names(e['sets'])}, {fa_lib.c_names(e['dels'])}))")
    return C.clist(items)


def case_term(run: dict, spec: dict, follow: int) -> str | None:
    if run["modules"] is None:
        return None
    mods = run["modules"]
    file_to_key = {os.path.realpath(m["file"]): name for name, m in mods.items()}
    loc = C.clist(f"({C.cstr(q)}, ({C.copt(mn)}, {C.copt(None if o is None else os.path.realpath(o) if os.path.isabs(o) else o)}))" for q, (mn, o) in run["locator"].items())
    cl = run["classes"]
    black = [m for m, v in cl.items() if v["blacklisted"]]
    pip = [m for m, v in cl.items() if v["pip"]]
    std = [m for m, v in cl.items() if v["stdlib"]]
    target = dict(mods["<target>"])
    target["file"] = os.path.realpath(target["file"])
    imports = []
    for name in run["import_keys"]:
        m = dict(mods[name])
        m["file"] = os.path.realpath(m["file"])
        imports.append(c_modin(name, m))
    before = {name: m["snapshot"] for name, m in mods.items()}
    after = run.get("after") or before
    results = run["results"]
    res_terms = []
    if results is not None:
        for e in mods["<target>"]["snapshot"]:
            r = results.get(e["id"])
            if r is not None:
                res_terms.append(f"(mkR {C.cstr(e['id'])} {C.cstrs(r['gets'])} {C.cstrs(r['sets'])} {C.cstrs(r['dels'])} {C.cstrs(r['calls'])})")
    resol = []
    seen = set()
    for r in run["resolutions"]:
        if r["target_kind"] != "Import":
            continue
        tn, tq = r["target"]
        if r["resolved"] is None:
            obs = "None"
        else:
            key = file_to_key.get(os.path.realpath(r["resolved"][2]))
            if key is None:
                return None
            obs = f"(Some ({C.cstr(key)}, {C.cstr(r['resolved'][1])}))"
        t = f"({C.cstr(tn)}, {C.cstr(tq)}, {obs})"
        if t not in seen:
            seen.add(t)
            resol.append(t)
    no_source = sorted({(os.path.realpath(o) if os.path.isabs(o) else o) for _q, (_mn, o) in run["locator"].items() if o is not None and not os.path.isfile(o)})
    graph = C.clist(f"({C.cstr(o)}, {C.cstrs(succ)})" for o, succ in spec["graph"].items())
    classes = C.clist(f"({C.cstr(o)}, {k})" for o, k in spec["class"].items())
    return (f"(mkImpCase {loc} {C.cstrs(black)} {C.cstrs(pip)} {C.cstrs(std)} {follow} {c_modin('<target>', target)} {C.clist(imports)} "
            f"{c_qstore(before)} {C.clist(res_terms)} {c_qstore(after)} {C.cbool(run['raised'] is not None and run['stage'] == 'generate')} "
            f"{C.clist(resol)} {graph} {C.cstr(spec['start'])} {classes} {C.cstrs(spec['excluded'])} {C.cstrs(no_source)})")


# ---- projects --------------------------------------------------------------------------------------
def gen_projects(rng: random.Random, tier: str) -> list[dict]:
    out = []
    n_forms, n_mixed, n_graph = (6, 30, 40) if tier == "quick" else (60, 400, 500)
    # C06: one import form at a time, then mixtures; functions only, then with classes
    for form in I.FORMS:
        for i in range(n_forms):
            prog = I.Program(rng, rng.randint(2, 5), with_classes=(i % 3 == 2))
            pool = ["pkg.__init__", "pkg.a", "pkg.b", "pkg.sub.__init__", "pkg.sub.c"] if form.startswith("rel") or form.startswith("reexport") else None
            sp = I.split(prog, rng, forms=[form], cycles=(i % 2 == 1), pool=pool)
            out.append({"name": f"form_{form}_{i}", "kind": "forms", "prog": prog, **sp, "follow": 1, "exclude_imports": None, "extra": {}})
    for i in range(n_mixed):
        prog = I.Program(rng, rng.randint(3, 7), with_classes=rng.random() < 0.4)
        sp = I.split(prog, rng, cycles=rng.random() < 0.4, back_to_target=0.15 if i % 3 == 0 else 0.0)
        out.append({"name": f"mixed_{i}", "kind": "mixed", "prog": prog, **sp, "follow": 1, "exclude_imports": None, "extra": {}})
    class Fixed:
        def __init__(self, roots):
            self.roots = roots

        def merged(self):
            return None
    fixed = {
        "reexport_cycle": {"target.py": "from a import f\n\ndef top(x):\n    return f(x.y)\n", "a.py": "from b import f\n", "b.py": "from a import f\n"},
        "module_cycle_with_definitions": {"target.py": "from a import fa\n\ndef top(x):\n    return fa(x)\n",
                                          "a.py": "import b\n\ndef fa(p):\n    p.in_a\n    return b.fb(p)\n", "b.py": "import a\n\ndef fb(q):\n    return q.in_b\n"},
        "self_import": {"target.py": "import target\nfrom a import fa\n\ndef top(x):\n    return fa(x)\n", "a.py": "import a\nimport target\n\ndef fa(p):\n    return p.in_a\n"},
    }
    for name, files in fixed.items():
        out.append({"name": name, "kind": "fixed", "prog": Fixed(["top"]), "files": files, "refs": [], "place": {}, "follow": 1, "exclude_imports": None, "extra": {}})
    import multi_scen
    for name, sc in multi_scen.SCENARIOS.items():
        out.append({"name": name, "kind": "fixed", "prog": Fixed(sorted(sc["expect"])), "files": sc["files"], "refs": [], "place": {}, "follow": 1, "exclude_imports": None,
                    "extra": {}, "expected": sc["expect"]})
    # C12: import graphs over local / site-packages / stdlib modules x levels x exclusions
    for i in range(n_graph):
        prog = I.Program(rng, rng.randint(2, 6), with_classes=False)
        sp = I.split(prog, rng, forms=["import_as", "from", "relative", "reexport_init", "chain", "from_pkg_import_mod"], cycles=rng.random() < 0.5,
                     back_to_target=0.2 if i % 2 == 0 else 0.0)
        files = dict(sp["files"])
        # the target calls into the site-packages modules it imports, so a wrongly followed module shows in the results
        if rng.random() < 0.6:
            files["target.py"] = ("from nsp.plugin import nsp_f\nfrom pippkg import pip_g\nfrom linkedpkg.core import linked_f\n" + files["target.py"]
                                  + "\ndef uses_site(p):\n    nsp_f(p)\n    linked_f(p)\n    return pip_g(p)\n")
        extra_imports = rng.sample(["import pipmod", "from pippkg import pip_g", "import colorsys", "import keyword", "import rattr", "from pipmod import pip_f",
                                    "import json", "import os", "from nsp.plugin import nsp_f", "import nsp.plugin as nspp", "from linkedpkg.core import linked_f", "import linkedpkg.core as lkc"], rng.randint(1, 4))
        victims = rng.sample(sorted(files), min(len(files), rng.randint(1, 3)))
        for v in victims:
            files[v] = "\n".join(rng.sample(extra_imports, rng.randint(1, len(extra_imports)))) + "\n" + files[v]
        uses = []
        if any("pipmod" in files[v] or "pip_f" in files[v] for v in victims) and "target.py" in victims:
            pass
        files.update(SITE_FILES)
        follow = rng.choice([0, 1, 1, 2, 2, 3])
        if follow == 3:
            # following the real stdlib is documented as unreliable under CPython: keep to modules without extension imports
            files = {k: v.replace("import json\n", "").replace("import os\n", "") for k, v in files.items()}
        excl = rng.choice([None, None, ["m1"], ["pkg\\..*"], ["pkg"], ["other.*", "m2"], ["pipmod"], [".*sub.*"]])
        if follow == 3 and i % 2 == 0:
            # an exclusion pattern that names a standard library module the target imports (no random draw: the stream of
            # the other projects stays as it is)
            excl = (excl or []) + ["colorsys"]
            files["target.py"] = "import colorsys\n" + files["target.py"]
        out.append({"name": f"graph_{i}", "kind": "graph", "prog": prog, "files": files, "refs": sp["refs"], "place": sp["place"],
                    "follow": follow, "exclude_imports": excl, "extra": {"extra_imports": extra_imports}})
    return out


def run(tier: str) -> dict:
    warnings.simplefilter("ignore")
    cache_dir = C.VERIF / ".cache"
    cache_dir.mkdir(exist_ok=True)
    cpath = cache_dir / f"imp_{repo_key(tier)}.pkl"
    if cpath.exists():
        try:
            return pickle.loads(cpath.read_bytes())
        except Exception:  # noqa: BLE001
            pass
    T = C.Timer()
    rng = random.Random(C.SEED)
    projects = gen_projects(rng, tier)
    cases, metas = [], []
    old_path = list(sys.path)
    with D.Scratch() as scratch:
        for pi, pr in enumerate(projects):
            if rt.HANGS[0] >= 3:
                break          # the pipeline does not terminate on project after project: enough evidence, do not spend hours
            root = scratch / f"p{pi}"
            root.mkdir()
            I.materialise(root, pr["files"])
            site = root / SITE_REL
            extra_path = [str(site)] if site.exists() else []
            sys.path[1:1] = extra_path
            try:
                multi = I.run_project(root, follow=pr["follow"], excluded_imports=pr["exclude_imports"])
            finally:
                for e in extra_path:
                    sys.path.remove(e)
            merged = None
            if pr["kind"] in ("forms", "mixed"):
                mroot = root / "merged_single_file"
                mroot.mkdir()
                (mroot / "target.py").write_text(pr["prog"].merged())
                merged = I.run_project(mroot, follow=1)
            # specification graph
            search = [str(root)] + extra_path + [p for p in old_path[1:] if p and os.path.isdir(p)]
            start, graph, names = source_graph(root, "target.py", search)
            pats = [re.compile(p) for p in (pr["exclude_imports"] or [])] + [re.compile(r"rattr(\..*)?")]
            excluded = [o for o, ns in names.items() if any(p.fullmatch(n) for p in pats for n in ns)]
            spec = {"start": start, "graph": graph, "class": {o: classify(o, root) for o in set(graph) | {g for v in graph.values() for g in v}},
                    "excluded": excluded, "names": {o: sorted(ns) for o, ns in names.items()}}
            term = case_term(multi, spec, pr["follow"])
            meta = {"project": pr["name"], "kind": pr["kind"], "files": pr["files"], "follow": pr["follow"], "exclude_imports": pr["exclude_imports"],
                    "refs": pr["refs"], "roots": pr["prog"].roots, "multi": {k: multi.get(k) for k in ("raised", "stage", "results", "import_keys", "stderr", "stats")},
                    "merged": None if merged is None else {k: merged.get(k) for k in ("raised", "results")},
                    "merged_source": pr["prog"].merged() if merged is not None else None, "expected": pr.get("expected"),
                    "resolutions": multi["resolutions"], "spec_excluded": [os.path.relpath(o, root) for o in excluded],
                    "spec_graph": {os.path.relpath(o, root): [os.path.relpath(g, root) for g in v] for o, v in graph.items() if o.startswith(str(root))},
                    "observed_origins": None if multi["modules"] is None else [os.path.relpath(os.path.realpath(multi["modules"][k]["file"]), root) for k in multi["import_keys"]],
                    "place": pr["place"], "has_term": term is not None,
                    "ir_keys_before": None if multi["modules"] is None else {k: sorted(e["id"] for e in v["snapshot"]) for k, v in multi["modules"].items()},
                    "ir_keys_after": None if multi.get("after") is None else {k: sorted(e["id"] for e in v) for k, v in multi["after"].items()}}
            if term is not None:
                cases.append(term)
                metas.append(meta)
            else:
                cases.append(None)
                metas.append(meta)
    sys.path[:] = old_path
    rt.clear_caches()
    idx = [i for i, c in enumerate(cases) if c is not None]
    codes = C.coq_eval_codes("imp", HDR, "imp_case", "imp_code", [cases[i] for i in idx], shard=12, timeout=1800)
    code_of = {i: c for i, c in zip(idx, codes)}
    res = {"cases": [(code_of.get(i), m) for i, m in enumerate(metas)], "wall_s": T.s}
    try:
        for old in cache_dir.glob("imp_*.pkl"):
            old.unlink()
        cpath.write_bytes(pickle.dumps(res))
    except Exception:  # noqa: BLE001
        pass
    return res
