"""Fixed multi-module scenarios shared by the cross-file parts of C05 / C14 and by the import suite."""

SCENARIOS = {
    # the same imported callee called twice with different arguments; the callee calls on
    "imported_callee_twice": {
        "files": {
            "target.py": "from shapes import describe\n\ndef use(left, right):\n    describe(left)\n    describe(right)\n    return left.id\n",
            "shapes.py": "def area(shape):\n    return shape.w * shape.h\n\ndef describe(shape):\n    area(shape)\n    return shape.name\n",
        },
        "expect": {"use": {"gets": ["left", "left.h", "left.id", "left.name", "left.w", "right", "right.h", "right.name", "right.w"], "sets": [], "dels": []}},
        "reorder": ["target.py"],
    },
    # private helpers with the same name and signature in two imported modules
    "same_named_private_helpers": {
        "files": {
            "target.py": "from mod_one import run_one\nfrom mod_two import run_two\n\ndef first(item):\n    return run_one(item)\n\ndef second(item):\n    return run_two(item)\n",
            "mod_one.py": "def _check(item):\n    return item.checked_by_one\n\ndef run_one(item):\n    return _check(item)\n",
            "mod_two.py": "def _check(item):\n    return item.checked_by_two\n\ndef run_two(item):\n    return _check(item)\n",
        },
        "expect": {"first": {"gets": ["item", "item.checked_by_one"], "sets": [], "dels": []},
                   "second": {"gets": ["item", "item.checked_by_two"], "sets": [], "dels": []}},
        "reorder": ["target.py"],
    },
    # an ignored / excluded imported function: result generation must not register anything for it
    "ignored_imported_callee": {
        "files": {
            "target.py": "from audit_mod import audit, plain\n\ndef handle(record):\n    audit(record)\n    plain(record)\n    return record.done\n\ndef again(record):\n    return audit(record)\n",
            "audit_mod.py": "from rattr import rattr_ignore\n\n@rattr_ignore\ndef audit(record):\n    record.audited = True\n\ndef plain(record):\n    return record.plain\n",
        },
        "expect": {"handle": {"gets": ["record", "record.done", "record.plain"], "sets": [], "dels": []},
                   "again": {"gets": ["record"], "sets": [], "dels": []}},
        "reorder": ["target.py"],
    },
    # a diamond: two imported modules share a third; both paths are inlined
    "diamond_shared_leaf": {
        "files": {
            "target.py": "from left_mod import via_left\nfrom right_mod import via_right\n\ndef both(a, b):\n    via_left(a)\n    via_right(b)\n",
            "left_mod.py": "from leaf_mod import leaf\n\ndef via_left(x):\n    x.left\n    leaf(x)\n",
            "right_mod.py": "from leaf_mod import leaf\n\ndef via_right(y):\n    y.right\n    leaf(y)\n",
            "leaf_mod.py": "def leaf(z):\n    return z.leaf\n",
        },
        "expect": {"both": {"gets": ["a", "a.leaf", "a.left", "b", "b.leaf", "b.right"], "sets": [], "dels": []}},
        "reorder": ["target.py", "left_mod.py"],
    },
    # the target file defines a function and a class named (and shaped) like the ones an imported module uses internally
    "target_defines_same_names_as_import": {
        "files": {
            "target.py": "import helper_mod\n\ndef run(a):\n    return a.target_side\n\nclass Rec:\n    def __init__(self, a):\n        self.t = a.target_rec\n\n"
                         "def main(x):\n    return helper_mod.go(x)\n\ndef build(x):\n    return helper_mod.make(x)\n\ndef own(x):\n    run(x)\n    return Rec(x)\n",
            "helper_mod.py": "def run(a):\n    return a.helper_side\n\nclass Rec:\n    def __init__(self, a):\n        self.h = a.helper_rec\n\n"
                             "def go(a):\n    return run(a)\n\ndef make(a):\n    return Rec(a)\n",
        },
        "expect": {"main": {"gets": ["x", "x.helper_side"], "sets": [], "dels": []},
                   "build": {"gets": ["x", "x.helper_rec"], "sets": ["@ReturnValue.h"], "dels": []},
                   "own": {"gets": ["x", "x.target_rec", "x.target_side"], "sets": ["@ReturnValue.t"], "dels": []}},
        "reorder": ["target.py"],
    },
    # an imported function calls helpers that have no IR of their own there (they are @rattr_ignore'd);
    # functions of the same name and shape in the target file are unrelated to it
    "imported_callers_of_helpers_without_ir": {
        "files": {
            "target.py": "from freight_lib import report\n\ndef main(x):\n    return report(x.rows)\n",
            "freight_lib.py": "from rattr import rattr_ignore\n\n@rattr_ignore\ndef weight(parcel):\n    return parcel.kilograms\n\n"
                              "@rattr_ignore\ndef invoice(row):\n    return row.tariff\n\ndef report(rows):\n    return weight(rows.first), invoice(rows.last)\n",
        },
        "expect": {"main": {"gets": ["x.rows", "x.rows.first", "x.rows.last"], "sets": [], "dels": []}},
        "reorder": ["target.py"],
        "unrelated": {"target.py": ["def weight(parcel):\n    return parcel.kilograms_in_target\n", "def invoice(row):\n    return row.tariff_in_target\n",
                                    "def weight(parcel):\n    return parcel.w2\n\ndef invoice(row):\n    return row.t2\n"]},
    },
    # star re-exports two levels deep: lib/__init__ stars lib.core, whose __init__ stars the modules that define the callees
    "star_reexport_two_levels": {
        "files": {
            "target.py": "from lib import scale, label\n\ndef use_scale(item):\n    return scale(item)\n\ndef use_label(item):\n    return label(item)\n",
            "lib/__init__.py": "from .core import *\n",
            "lib/core/__init__.py": "from .ops import *\nfrom .fmt import *\n",
            "lib/core/ops.py": "def scale(i):\n    return i.factor\n",
            "lib/core/fmt.py": "def label(i):\n    return i.title\n",
        },
        "expect": {"use_scale": {"gets": ["item", "item.factor"], "sets": [], "dels": []},
                   "use_label": {"gets": ["item", "item.title"], "sets": [], "dels": []}},
        "reorder": ["target.py"],
    },
}
