#!/venv/bin/python
"""Confirm each sub-agent-produced breaking change in a scratch worktree and file it under /verif/seeded/.
For every /tmp/mut/out/<Cxx>/<v>/: apply the patch in a fresh worktree of /repo, run the pinned test suite
(must still give 1136 passed / the same 7 failures), run the demo against the patched tree (must fail) and
against an unpatched worktree (must pass).  Nothing is ever applied to /repo itself."""
import json
import re
import shutil
import subprocess
import sys
from pathlib import Path

import os
SRC = Path(os.environ.get("MUT_SRC", "/tmp/mut/out"))
SCRATCH = Path(os.environ.get("MUT_SCRATCH", "/tmp/mut"))
DST = Path("/verif/seeded")
PY = "/venv/bin/python"


def sh(cmd, cwd=None, timeout=900):
    p = subprocess.run(cmd, cwd=cwd, shell=isinstance(cmd, str), capture_output=True, text=True, timeout=timeout)
    return p.returncode, p.stdout + p.stderr


def main():
    only = sys.argv[1:]
    DST.mkdir(exist_ok=True)
    clean = SCRATCH / "confirm_clean"
    if clean.exists():
        sh(f"git -C /repo worktree remove --force {clean}")
    sh(f"git -C /repo worktree add -q --detach {clean} HEAD")
    try:
        for pdir in sorted(SRC.iterdir()):
            if not pdir.is_dir() or (only and pdir.name not in only):
                continue
            for vdir in sorted(pdir.iterdir()):
                if not (vdir / "patch.diff").exists():
                    continue
                sid = f"{pdir.name}-{vdir.name}"
                out = DST / sid
                if (out / "meta.json").exists():
                    continue
                wt = SCRATCH / f"confirm_{sid}"
                if wt.exists():
                    sh(f"git -C /repo worktree remove --force {wt}")
                sh(f"git -C /repo worktree add -q --detach {wt} HEAD")
                meta = {"id": sid, "breaks_property": pdir.name, "source": "fresh sub-agent given only the property text and a scratch worktree"}
                try:
                    rc, o = sh(f"git -C {wt} apply {vdir / 'patch.diff'}")
                    meta["patch_applies"] = rc == 0
                    rc, o = sh(f"cd {wt} && {PY} -m pytest -q -p no:cacheprovider --timeout=900 -x -q 2>&1 | tail -3", timeout=1200)
                    rc, o = sh(f"cd {wt} && {PY} -m pytest -q -p no:cacheprovider --timeout=900 2>&1 | tail -1", timeout=1200)
                    meta["test_suite_with_patch"] = o.strip().splitlines()[-1] if o.strip() else ""
                    m = re.search(r"(\d+) failed, (\d+) passed", meta["test_suite_with_patch"])
                    meta["tests_unchanged"] = bool(m and m.group(1) == "7" and m.group(2) == "1136")
                    demo = vdir / ("demo.py" if (vdir / "demo.py").exists() else "demo.sh")
                    runner = [PY, str(demo)] if demo.suffix == ".py" else ["sh", str(demo)]
                    rc1, o1 = sh(runner + [str(wt)], timeout=600)
                    rc0, o0 = sh(runner + [str(clean)], timeout=600)
                    meta["demo_exit_with_patch"] = rc1
                    meta["demo_exit_unchanged"] = rc0
                    meta["demo_output_with_patch"] = o1[-600:]
                    meta["confirmed"] = bool(meta["patch_applies"] and meta["tests_unchanged"] and rc1 != 0 and rc0 == 0)
                    notes = next(((vdir / n).read_text() for n in ("notes.md", "NOTES.md") if (vdir / n).exists()), "")
                    meta["needs_to_manifest"] = notes[:1500]
                    meta["ran"] = ["git apply patch.diff (scratch worktree)", "pytest -q -p no:cacheprovider --timeout=900", f"demo on patched worktree -> exit {rc1}", f"demo on unpatched worktree -> exit {rc0}"]
                    if meta["confirmed"]:
                        out.mkdir(parents=True, exist_ok=True)
                        shutil.copy(vdir / "patch.diff", out / "patch.diff")
                        shutil.copy(demo, out / demo.name)
                        (out / "meta.json").write_text(json.dumps(meta, indent=1))
                    print(sid, "confirmed" if meta["confirmed"] else f"NOT confirmed: {meta}", flush=True)
                finally:
                    sh(f"git -C /repo worktree remove --force {wt}")
                    shutil.rmtree(wt, ignore_errors=True)
    finally:
        sh(f"git -C /repo worktree remove --force {clean}")
        shutil.rmtree(clean, ignore_errors=True)


if __name__ == "__main__":
    main()
