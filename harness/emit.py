"""Python ast -> Coq `node` terms (coq/model/PyAst.v).

Special-cased classes get their own constructor; every other class becomes
`Other kind binds children` with children in `_fields` order (what generic_visit iterates).
"""
from __future__ import annotations

import ast
from collections import Counter

from common import cstr, clist, copt

SKIP = (ast.expr_context, ast.operator, ast.unaryop, ast.boolop, ast.cmpop)
counts: Counter = Counter()


class EmitError(Exception):
    pass


def _pos(n) -> str:
    return f"({getattr(n, 'lineno', 0)}, {getattr(n, 'col_offset', 0)})"


def _ctx(c) -> str:
    return {"Load": "Load", "Store": "Store", "Del": "Del"}[type(c).__name__]


def _list(nodes) -> str:
    return clist(emit(x) for x in nodes)


def _opt_list(n) -> str:
    return clist([emit(n)] if n is not None else [])


def params(a: ast.arguments) -> str:
    return (f"(mkParams {clist(cstr(x.arg) for x in a.posonlyargs)} {clist(cstr(x.arg) for x in a.args)} "
            f"{copt(a.vararg.arg if a.vararg else None)} {clist(cstr(x.arg) for x in a.kwonlyargs)} "
            f"{copt(a.kwarg.arg if a.kwarg else None)})")


def _arg_exprs(a: ast.arguments):
    out = list(a.defaults) + [d for d in a.kw_defaults if d is not None]
    for x in (*a.posonlyargs, *a.args, *([a.vararg] if a.vararg else []), *a.kwonlyargs, *([a.kwarg] if a.kwarg else [])):
        if x.annotation is not None:
            out.append(x.annotation)
    return out


def _children(n: ast.AST):
    for _, v in ast.iter_fields(n):
        if isinstance(v, list):
            for i in v:
                if isinstance(i, ast.AST) and not isinstance(i, SKIP):
                    yield i
        elif isinstance(v, ast.AST) and not isinstance(v, SKIP):
            yield v


BINDERS = {
    "ExceptHandler": ("name",), "MatchAs": ("name",), "MatchStar": ("name",), "MatchMapping": ("rest",),
}


def emit(n: ast.AST) -> str:
    k = type(n).__name__
    counts[k] += 1
    if isinstance(n, ast.Name):
        return f"(EName {cstr(n.id)} {_ctx(n.ctx)} {_pos(n)})"
    if isinstance(n, ast.Attribute):
        return f"(EAttr {emit(n.value)} {cstr(n.attr)} {_ctx(n.ctx)} {_pos(n)})"
    if isinstance(n, ast.Subscript):
        return f"(ESub {emit(n.value)} {emit(n.slice)} {_ctx(n.ctx)} {_pos(n)})"
    if isinstance(n, ast.Starred):
        return f"(EStar {emit(n.value)} {_ctx(n.ctx)} {_pos(n)})"
    if isinstance(n, ast.Call):
        return f"(ECall {emit(n.func)} {_list(n.args)} {_list(n.keywords)} {_pos(n)})"
    if isinstance(n, ast.keyword):
        return f"(EKw {copt(n.arg)} {emit(n.value)})"
    if isinstance(n, ast.Constant):
        if isinstance(n.value, str):
            try:
                return f"(EConst (Some {cstr(n.value)}))"
            except ValueError as e:
                raise EmitError(str(e)) from e
        return "(EConst None)"
    if isinstance(n, (ast.Tuple, ast.List, ast.Set)):
        return f"(ESeq K{k} {_list(n.elts)} {_pos(n)})"
    if isinstance(n, ast.Dict):
        ks = clist("ENoKey" if x is None else emit(x) for x in n.keys)
        return f"(EDict {ks} {_list(n.values)})"
    if isinstance(n, ast.Lambda):
        return f"(ELambda {params(n.args)} {_list(_arg_exprs(n.args))} {emit(n.body)} {_pos(n)})"
    if isinstance(n, ast.NamedExpr):
        return f"(ENamed {emit(n.target)} {emit(n.value)} {_pos(n)})"
    if isinstance(n, (ast.ListComp, ast.SetComp, ast.GeneratorExp)):
        kk = {"ListComp": "KListComp", "SetComp": "KSetComp", "GeneratorExp": "KGenExp"}[k]
        return f"(EComp {kk} {_list([n.elt])} {_list(n.generators)} {_pos(n)})"
    if isinstance(n, ast.DictComp):
        return f"(EComp KDictComp {_list([n.key, n.value])} {_list(n.generators)} {_pos(n)})"
    if isinstance(n, ast.comprehension):
        return f"(EGen {emit(n.target)} {emit(n.iter)} {_list(n.ifs)})"
    if isinstance(n, ast.Assign):
        return f"(SAssign {_list(n.targets)} {emit(n.value)} {_pos(n)})"
    if isinstance(n, ast.AnnAssign):
        return f"(SAnnAssign {emit(n.target)} {emit(n.annotation)} {_opt_list(n.value)} {_pos(n)})"
    if isinstance(n, ast.AugAssign):
        return f"(SAugAssign {emit(n.target)} {emit(n.value)} {_pos(n)})"
    if isinstance(n, ast.Delete):
        return f"(SDelete {_list(n.targets)} {_pos(n)})"
    if isinstance(n, (ast.For, ast.AsyncFor)):
        return f"(SFor {emit(n.target)} {emit(n.iter)} {_list(n.body)} {_list(n.orelse)} {_pos(n)})"
    if isinstance(n, (ast.With, ast.AsyncWith)):
        return f"(SWith {_list(n.items)} {_list(n.body)} {_pos(n)})"
    if isinstance(n, ast.withitem):
        return f"(EWithItem {emit(n.context_expr)} {_opt_list(n.optional_vars)})"
    if isinstance(n, ast.Return):
        return f"(SReturn {_opt_list(n.value)} {_pos(n)})"
    if isinstance(n, (ast.FunctionDef, ast.AsyncFunctionDef)):
        outer = list(n.decorator_list) + _arg_exprs(n.args) + ([n.returns] if n.returns else []) + list(getattr(n, "type_params", []))
        return f"(SFuncDef {cstr(n.name)} {params(n.args)} {_list(outer)} {_list(n.body)} {_pos(n)})"
    if isinstance(n, ast.ClassDef):
        return f"(SClassDef {cstr(n.name)} {_list(list(_children(n)))} {_pos(n)})"
    if isinstance(n, (ast.Global, ast.Nonlocal, ast.Import, ast.ImportFrom)):
        return f"(SForbidden {cstr(k)} {_pos(n)})"
    # generic
    binds = []
    for f in BINDERS.get(k, ()):
        v = getattr(n, f, None)
        if isinstance(v, str):
            binds.append(v)
    return f"(Other {cstr(k)} {clist(cstr(b) for b in binds)} {_list(list(_children(n)))})"


def c_nres(r) -> str:
    """('ok', base, full) | ('fatal',) | ('raise', cls)"""
    if r[0] == "ok":
        return f"(NOk {cstr(r[1])} {cstr(r[2])})"
    if r[0] == "fatal":
        return "NFatal"
    return f"(NRaise {cstr(r[1])})"
