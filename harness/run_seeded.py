#!/venv/bin/python
"""Applies every confirmed breaking change under /verif/seeded to /repo's working tree (never committed), runs
the quick check of the property it breaks (and optionally others), records what was reported, and reverts.
usage: run_seeded.py [ids...]   ->  seeded/RESULTS.json"""
import json
import subprocess
import sys
import time
from pathlib import Path

VERIF = Path(__file__).resolve().parents[1]
REPO = "/repo"
ALSO = {"C03-b": ["C09"], "C05-a": ["C06"], "C14-b": ["C06"]}


def sh(*a, **k):
    return subprocess.run(a, capture_output=True, text=True, **k)


def main():
    ids = sys.argv[1:] or sorted(p.name for p in (VERIF / "seeded").iterdir() if p.is_dir())
    out_path = VERIF / "seeded" / "RESULTS.json"
    results = json.loads(out_path.read_text()) if out_path.exists() else {}
    # the checks rewrite evidence/<id>.json on every run; what they write under a seeded change must not stay behind
    import shutil
    import tempfile
    keep = Path(tempfile.mkdtemp(prefix="rattrv_evidence_"))
    shutil.copytree(VERIF / "evidence", keep / "evidence")
    try:
        _run(ids, out_path, results)
    finally:
        shutil.rmtree(VERIF / "evidence", ignore_errors=True)
        shutil.copytree(keep / "evidence", VERIF / "evidence")
        shutil.rmtree(keep, ignore_errors=True)


def _run(ids, out_path, results):
    assert sh("git", "-C", REPO, "status", "--porcelain", "--untracked-files=no").stdout.strip() in ("", "M rattr/_version.py"), "repo not clean"
    for mid in ids:
        prop = mid.split("-")[0]
        patch = VERIF / "seeded" / mid / "patch.diff"
        ap = sh("git", "-C", REPO, "apply", str(patch))
        ported = VERIF / "seeded" / mid / "patch_on_fixed_tree.diff"
        used = "patch.diff"
        if ap.returncode != 0 and ported.exists():
            # the change was written against 85d519a; the same change re-based onto the tree with the fix commits
            ap = sh("git", "-C", REPO, "apply", str(ported))
            used = "patch_on_fixed_tree.diff"
        rec = {"applies": ap.returncode == 0, "patch_used": used, "checks": {}}
        if ap.returncode == 0:
            try:
                for c in [prop] + ALSO.get(mid, []):
                    t0 = time.time()
                    r = sh(str(VERIF / "check"), c, "--tier", "quick", cwd=VERIF)
                    v = [l for l in r.stdout.splitlines() if l.startswith("VIOLATION")]
                    rec["checks"][c] = {"exit": r.returncode, "violations": len(v), "with_failing_input": sum(1 for l in v if not l.endswith("no-failing-input-found")),
                                        "wall_s": round(time.time() - t0, 1)}
            finally:
                sh("git", "-C", REPO, "checkout", "--", ".")
        else:
            rec["apply_error"] = ap.stderr[-300:]
        results[mid] = rec
        out_path.write_text(json.dumps(results, indent=1) + "\n")
        print(mid, json.dumps(rec), flush=True)


if __name__ == "__main__":
    main()
