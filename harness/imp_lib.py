"""Multi-module projects for the import properties (C06, C12, C05/C14 across files): a generated program
(tree-shaped call graph of functions, classes, static methods with distinctive attribute names), split over
modules and packages with a chosen import form per cross-module reference, and the same program merged
into one file; runners of the real pipeline that snapshot contexts, IRs and call resolutions."""
from __future__ import annotations

import importlib
import os
import random
import sys
from pathlib import Path

import common as C
import fa_lib
import res_lib as R
import rt

MODULE_POOL = ["m1", "m2", "pkg.__init__", "pkg.a", "pkg.b", "pkg.sub.__init__", "pkg.sub.c", "other.__init__", "other.d"]
FORMS = ["import", "import_as", "from", "from_as", "relative", "relative_module", "reexport_init", "reexport_star",
         "import_pkg_member", "chain", "from_pkg_import_mod", "reexport_star_chain"]


def mod_file(mod: str) -> str:
    return mod.replace(".", "/") + ".py"


def mod_import_name(mod: str) -> str:
    return mod[: -len(".__init__")] if mod.endswith(".__init__") else mod


def package_of(mod: str) -> str | None:
    """The package a module lives in (for relative imports), None for top-level modules."""
    if mod.endswith(".__init__"):
        return mod[: -len(".__init__")]
    return mod.rsplit(".", 1)[0] if "." in mod else None


class Program:
    """callables: name -> dict(kind=func|class, param, children=[(callee, how)]) ; how in {call, init, static}"""

    def __init__(self, rng: random.Random, n: int, with_classes=True):
        self.names = [f"fn{i}" for i in range(n)]
        self.kind = {}
        self.children: dict[str, list[tuple[str, str]]] = {nm: [] for nm in self.names}
        self.parent = {}
        for i, nm in enumerate(self.names):
            self.kind[nm] = "class" if (with_classes and i > 0 and rng.random() < 0.25) else "func"
            if i > 0:
                # classes do not call on (keeps __init__ bodies simple); pick a function parent
                cands = [p for p in self.names[:i] if self.kind[p] == "func"]
                par = rng.choice(cands)
                self.parent[nm] = par
                how = "call" if self.kind[nm] == "func" else rng.choice(["init", "static"])
                self.children[par].append((nm, how))
        self.roots = [self.names[0]]

    def body(self, nm: str, ref) -> str:
        """Source of callable nm; ref(callee, how) gives the expression that names the callee at the call site."""
        if self.kind[nm] == "class":
            return (f"class {nm}:\n    def __init__(self, u):\n        self.held_{nm} = u.init_{nm}\n\n"
                    f"    @staticmethod\n    def sm(v):\n        return v.static_{nm}\n")
        lines = [f"p.own_{nm}", f"p.set_{nm} = 1"] if int(nm[2:]) % 2 else [f"p.own_{nm}"]
        for callee, how in self.children[nm]:
            r = ref(callee, how)
            if how == "init":
                lines.append(f"obj_{callee} = {r}(p)")
            elif how == "static":
                lines.append(f"{r}.sm(p)")
            else:
                lines.append(f"{r}(p)")
        return f"def {nm}(p):\n" + "\n".join("    " + l for l in lines) + "\n"

    def merged(self) -> str:
        # callees first: a static method is only resolvable when its class is defined above the caller (an
        # order dependence of the single-file analysis, recorded under C08), which is not what C06 is about
        return "\n".join(self.body(nm, lambda c, h: c) for nm in reversed(self.names))


def relative_spelling(src_mod: str, dst_mod: str) -> tuple[int, str | None] | None:
    """(level, module text) of `from <level dots><module> import ...` reaching dst_mod from src_mod, if both are in
    one top-level package."""
    pkg = package_of(src_mod)
    if pkg is None:
        return None
    dst = mod_import_name(dst_mod)
    pparts, dparts = pkg.split("."), dst.split(".")
    if pparts[0] != dparts[0]:
        return None
    common = 0
    while common < min(len(pparts), len(dparts)) and pparts[common] == dparts[common]:
        common += 1
    level = len(pparts) - common + 1
    rest = ".".join(dparts[common:])
    return level, (rest or None)


def split(prog: Program, rng: random.Random, *, forms=None, cycles=False, pool=None, back_to_target=0.0) -> dict:
    """Place the callables into modules and wire every cross-module reference with an import form.
    Returns {"files": {path: source}, "refs": [(caller, callee, form, spelling)], "place": {...}}."""
    pool = pool or MODULE_POOL
    forms = forms or FORMS
    place = {}
    for nm in prog.names:
        place[nm] = "target" if nm in prog.roots or rng.random() < back_to_target else rng.choice(pool)
    imports: dict[str, list[str]] = {}
    extra_lines: dict[str, list[str]] = {}
    refs = []
    alias_n = [0]

    def add_import(mod, line):
        imports.setdefault(mod, [])
        if line not in imports[mod]:
            imports[mod].append(line)

    def ref_for(caller):
        def ref(callee, how):
            src, dst = place[caller], place[callee]
            if src == dst:
                return callee
            if dst == "target":
                # a module calling back into the target file (an import cycle through the target)
                if rng.random() < 0.5:
                    add_import(src, "import target")
                    sp = f"target.{callee}"
                    fm = "import"
                else:
                    add_import(src, f"from target import {callee}")
                    sp = callee
                    fm = "from"
                refs.append({"caller": caller, "callee": callee, "how": how, "form": fm, "spelling": sp, "from": src, "to": dst})
                return sp
            dname = mod_import_name(dst)
            usable = list(forms)
            rel = relative_spelling(src, dst)
            dpkg = package_of(dst) if not dst.endswith(".__init__") else None
            form = rng.choice(usable)
            for _ in range(20):
                ok = True
                if form in ("relative", "relative_module") and rel is None:
                    ok = False
                if form == "relative_module" and (rel is None or rel[1] is None):
                    ok = False
                if form in ("reexport_init", "reexport_star", "import_pkg_member", "from_pkg_import_mod", "reexport_star_chain") and dpkg is None:
                    ok = False
                if dpkg is not None and form == "reexport_star_chain" and (src in (dpkg + ".__init__", dpkg + ".facade") or dst == dpkg + ".facade"):
                    ok = False
                if dpkg is not None and form in ("reexport_init", "reexport_star", "import_pkg_member") and src == dpkg + ".__init__":
                    ok = False
                # a module inside the package must not import a name back through the package's own __init__ (a re-export
                # cycle: not a valid program, Python raises ImportError on it at run time)
                spkg = package_of(src)
                if dpkg is not None and form in ("reexport_init", "reexport_star", "import_pkg_member", "reexport_star_chain") and spkg is not None \
                        and (spkg == dpkg or spkg.startswith(dpkg + ".") or src == dpkg + ".__init__"):
                    ok = False
                if form == "chain" and len([m for m in pool if m not in (src, dst)]) == 0:
                    ok = False
                if ok:
                    break
                form = rng.choice(usable)
            else:
                form = "from"
            if form == "import":
                add_import(src, f"import {dname}")
                sp = f"{dname}.{callee}"
            elif form == "import_as":
                alias_n[0] += 1
                al = f"al{alias_n[0]}"
                add_import(src, f"import {dname} as {al}")
                sp = f"{al}.{callee}"
            elif form == "from":
                add_import(src, f"from {dname} import {callee}")
                sp = callee
            elif form == "from_as":
                al = f"as_{callee}"
                add_import(src, f"from {dname} import {callee} as {al}")
                sp = al
            elif form == "relative":
                level, rest = rel
                add_import(src, f"from {'.' * level}{rest or ''} import {callee}")
                sp = callee
            elif form == "relative_module":
                level, rest = rel
                head, _, last = rest.rpartition(".")
                add_import(src, f"from {'.' * level}{head} import {last}")
                sp = f"{last}.{callee}"
            elif form == "reexport_init":
                sub = dname[len(dpkg) + 1:]
                add_import(dpkg + ".__init__", f"from .{sub} import {callee}")
                add_import(src, f"from {dpkg} import {callee}")
                sp = callee
            elif form == "reexport_star":
                sub = dname[len(dpkg) + 1:]
                add_import(dpkg + ".__init__", f"from .{sub} import *")
                add_import(src, f"from {dpkg} import {callee}")
                sp = callee
            elif form == "reexport_star_chain":
                # pkg/__init__: from .facade import * ; pkg/facade.py: from .sub import callee ; caller: from pkg import callee
                sub = dname[len(dpkg) + 1:]
                add_import(dpkg + ".facade", f"from .{sub} import {callee}")
                add_import(dpkg + ".__init__", "from .facade import *")
                add_import(src, f"from {dpkg} import {callee}")
                sp = callee
            elif form == "import_pkg_member":
                sub = dname[len(dpkg) + 1:]
                add_import(dpkg + ".__init__", f"from .{sub} import {callee}")
                add_import(src, f"import {dpkg}")
                sp = f"{dpkg}.{callee}"
            elif form == "from_pkg_import_mod":
                sub = dname[len(dpkg) + 1:]
                add_import(src, f"from {dpkg} import {sub}")
                sp = f"{sub}.{callee}"
            else:  # chain through a third module that re-exports the name
                via = rng.choice([m for m in pool if m not in (src, dst)])
                add_import(via, f"from {dname} import {callee}")
                add_import(src, f"from {mod_import_name(via)} import {callee}")
                sp = callee
            refs.append({"caller": caller, "callee": callee, "how": how, "form": form, "spelling": sp, "from": src, "to": dst})
            return sp
        return ref

    bodies = {nm: prog.body(nm, ref_for(nm)) for nm in prog.names}
    used = {place[nm] for nm in prog.names} | set(imports)
    # packages need their __init__ files
    for m in list(used):
        if m == "target":
            continue
        parts = mod_import_name(m).split(".")
        for i in range(1, len(parts) + (0 if not m.endswith(".__init__") else 0)):
            pk = ".".join(parts[:i])
            if pk != mod_import_name(m) or m.endswith(".__init__"):
                used.add(pk + ".__init__")
    if cycles:
        mods = sorted(m for m in used if m != "target")
        for m in mods:
            if rng.random() < 0.3:
                add_import(m, "import target")
            other = rng.choice(mods)
            if other != m:
                add_import(m, f"import {mod_import_name(other)}")
                add_import(other, f"import {mod_import_name(m)}")
    files = {}
    for m in sorted(used | set(imports)):
        path = "target.py" if m == "target" else mod_file(m)
        src = "\n".join(imports.get(m, [])) + ("\n\n" if imports.get(m) else "")
        # callees first, as in merged(): static-method resolution in one file depends on the class being defined above its caller
        src += "\n".join(bodies[nm] for nm in reversed(prog.names) if place[nm] == m)
        files[path] = src if src.strip() else "\n"
    return {"files": files, "refs": refs, "place": place}


# ---- running the real pipeline ------------------------------------------------------------------
def materialise(root: Path, files: dict[str, str]) -> None:
    for name, src in files.items():
        p = root / name
        p.parent.mkdir(parents=True, exist_ok=True)
        if src.startswith("@symlink:"):
            import os
            os.symlink(src[len("@symlink:"):], p, target_is_directory=True)
            continue
        p.write_text(src)


def msym_of(symbol) -> tuple:
    k = type(symbol).__name__
    if k == "Func":
        return ("MFunc",)
    if k == "Class":
        return ("MClass",)
    if k == "Import":
        return ("MImport", symbol.name, symbol.qualified_name)
    return ("MOther",)


def run_project(root: Path, target="target.py", *, follow=1, excluded_imports=None, excluded_names=None, record_locator=True) -> dict:
    """parse_and_analyse_file + generate_results_from_ir in this process, with snapshots."""
    import rattr.results.util as RU
    from rattr.analyser.file import parse_and_analyse_file
    from rattr.models.symbol import Import
    from rattr.module_locator.util import is_in_import_blacklist, is_in_pip, is_in_stdlib
    from rattr.results import generate_results_from_ir

    old0, oldcwd = sys.path[0], os.getcwd()
    sys.path[0] = str(root)
    os.chdir(root)
    importlib.invalidate_caches()
    rt.clear_caches()
    rt.set_config(target=target, current_file=None, _follow_imports_level=follow,
                  _excluded_imports=excluded_imports, _excluded_names=excluded_names)
    out = {"raised": None, "stage": "analyse", "results": None, "resolutions": [], "modules": None}
    try:
        with rt.capture_stderr() as buf, rt.time_limit(30):
            try:
                file_ir, import_irs, stats = parse_and_analyse_file()
                out["stage"] = "generate"
                out["import_keys"] = list(import_irs)
                out["stats"] = {"imports": stats.number_of_imports, "unique": stats.number_of_unique_imports}
                mods = {}
                locator = {}
                for name, ir in [("<target>", file_ir), *import_irs.items()]:
                    ctx = ir.context
                    symtab = [(s.id if hasattr(s, "id") else s.name, msym_of(s)) for s in ctx.symbol_table.symbols]
                    mods[name] = {"ctx": symtab, "file": str(ctx.file), "snapshot": R.snapshot_ir(ir)}
                    for s in ctx.symbol_table.symbols:
                        if isinstance(s, Import):
                            locator[s.qualified_name] = (s.module_name, None if s.module_spec is None else s.module_spec.origin)
                    for _sym, fir in ir.items():
                        for c in fir["calls"]:
                            if isinstance(c.target, Import):
                                t = c.target
                                locator[t.qualified_name] = (t.module_name, None if t.module_spec is None else t.module_spec.origin)
                out["modules"] = mods
                out["locator"] = locator
                out["classes"] = {mn: {"blacklisted": bool(is_in_import_blacklist(mn)), "pip": bool(is_in_pip(mn)), "stdlib": bool(is_in_stdlib(mn))}
                                  for mn in {v[0] for v in locator.values() if v[0]}}
                orig = RU.find_call_target_and_ir

                def wrapped(call, *, environment):
                    r = orig(call, environment=environment)
                    t = call.symbol.target
                    out["resolutions"].append({
                        "call": call.symbol.name, "target_kind": None if t is None else type(t).__name__,
                        "target": None if t is None else (t.name, getattr(t, "qualified_name", None)),
                        "resolved": None if r is None else (type(r.symbol).__name__, r.symbol.name, str(r.symbol.location.defined_in))})
                    return r
                RU.find_call_target_and_ir = wrapped
                try:
                    results = generate_results_from_ir(target_ir=file_ir, import_irs=import_irs)
                finally:
                    RU.find_call_target_and_ir = orig
                out["results"] = {k: {kk: sorted(vv) for kk, vv in v.items()} for k, v in results.items()}
                out["after"] = {name: R.snapshot_ir(ir) for name, ir in [("<target>", file_ir), *import_irs.items()]}
            except SystemExit as e:
                out["raised"] = f"SystemExit({e.code})"
            except BaseException as e:  # noqa: BLE001
                out["raised"] = f"{type(e).__name__}: {str(e)[:160]}"
        out["stderr"] = rt.strip_ansi(buf.getvalue()).splitlines()[-12:]
    finally:
        sys.path[0] = old0
        os.chdir(oldcwd)
        rt.clear_caches()
    return out
