"""Root contexts: a fail-closed translator from a module's top-level statements to the `tstmt` terms of
model/RootCtx.v, the observation of rattr's compile_root_context on the same module, and a generator of modules.

The translator reads Python's own `ast` only (nothing of rattr); what it cannot express raises Unsupported and the
module is set aside and counted.
"""
from __future__ import annotations

import ast
import random

import common as C


class Unsupported(Exception):
    pass


def _dotted(node: ast.expr) -> str:
    """a.b.c for a chain of attributes over a name (what fullname_of gives for such a target)."""
    if isinstance(node, ast.Name):
        return node.id
    if isinstance(node, ast.Attribute):
        return _dotted(node.value) + "." + node.attr
    raise Unsupported("target of a lambda / namedtuple assignment is not a dotted name")


def _base(node: ast.expr) -> str:
    """The left-most name of an assignment / deletion target."""
    if isinstance(node, ast.Name):
        return node.id
    if isinstance(node, (ast.Attribute, ast.Subscript, ast.Starred)):
        return _base(node.value)
    raise Unsupported(f"target with a {type(node).__name__} root")


def _unravel(node: ast.expr) -> list[str]:
    """The names an assignment registers: plain (possibly starred) names only - a store into an attribute or an item
    registers nothing (since the repair of KF_C17_6; the base names were registered before)."""
    if isinstance(node, (ast.Tuple, ast.List)):
        return [n for e in node.elts for n in _unravel(e)]
    _base(node)          # a target with an unnameable root stays outside the model
    inner = node
    while isinstance(inner, ast.Starred):
        inner = inner.value
    return [inner.id] if isinstance(inner, ast.Name) else []


def _py_names(node: ast.expr) -> list[str]:
    """The names PYTHON binds (or unbinds) through this target: plain names only, through tuples / lists / stars."""
    if isinstance(node, ast.Name):
        return [node.id]
    if isinstance(node, (ast.Tuple, ast.List)):
        return [n for e in node.elts for n in _py_names(e)]
    if isinstance(node, ast.Starred):
        return _py_names(node.value)
    return []


def _has_walrus(value) -> bool:
    return value is not None and any(isinstance(n, ast.NamedExpr) for n in ast.walk(value))


def _is_namedtuple_call(v) -> bool:
    if not isinstance(v, ast.Call):
        return False
    f = v.func
    if isinstance(f, ast.Name):
        return f.id == "namedtuple"
    if isinstance(f, ast.Attribute):
        try:
            _dotted(f)
        except Unsupported:
            raise Unsupported("call through an expression on the right-hand side")
        return f.attr == "namedtuple"
    raise Unsupported("call through an expression on the right-hand side")


def _assign(node) -> str:
    targets = node.targets if isinstance(node, ast.Assign) else [node.target]
    value = node.value
    bound = [] if (isinstance(node, ast.AnnAssign) and value is None) else [n for t in targets for n in _py_names(t)]
    return _assign_kind(node, targets, value) + " " + C.cstrs(bound) + ")"


def _assign_kind(node, targets, value) -> str:
    if _has_walrus(value):
        raise Unsupported("walrus on the right-hand side")
    iter_t = (ast.Tuple, ast.List)
    one_to_one = len(targets) == 1 and not isinstance(targets[0], iter_t) and not isinstance(value, iter_t)
    has_lambda = isinstance(value, ast.Lambda) or (isinstance(value, iter_t) and any(isinstance(v, ast.Lambda) for v in value.elts))
    if has_lambda:
        if not one_to_one:
            return "(TAssign (ALambda false \"\")"
        return f"(TAssign (ALambda true {C.cstr(_dotted(targets[0]))})"
    has_nt = _is_namedtuple_call(value) or (isinstance(value, iter_t) and any(_is_namedtuple_call(v) for v in value.elts if isinstance(v, ast.Call)))
    if has_nt:
        if not one_to_one:
            return "(TAssign (ANamedtuple false \"\" false)"
        args = value.args
        ok = (len(args) == 2 and not value.keywords and isinstance(args[0], ast.Constant) and isinstance(args[0].value, str)
              and ((isinstance(args[1], ast.List) and args[1].elts and all(isinstance(e, ast.Constant) and isinstance(e.value, str) and e.value.isidentifier() for e in args[1].elts))
                   or (isinstance(args[1], ast.Constant) and isinstance(args[1].value, str) and args[1].value.split()
                       and all(p.isidentifier() for p in args[1].value.split()) and "," not in args[1].value)))
        if not ok:
            raise Unsupported("namedtuple declaration outside the two plain forms")
        return f"(TAssign (ANamedtuple true {C.cstr(_dotted(targets[0]))} true)"
    names = [n for t in targets for n in _unravel(t)]
    return f"(TAssign (APlain {C.cstrs(names)})"


def _aliases(names) -> str:
    return C.clist(f"(mkAlias {C.cstr(a.name)} {C.copt(a.asname)})" for a in names)


def to_tstmt(node: ast.stmt) -> str:
    if isinstance(node, ast.Import):
        return f"(TImport {_aliases(node.names)})"
    if isinstance(node, ast.ImportFrom):
        if any(a.name == "*" for a in node.names) and len(node.names) != 1:
            raise Unsupported("star among several names")
        return f"(TImportFrom {C.copt(node.module)} {_aliases(node.names)} {node.level})"
    if isinstance(node, (ast.Assign, ast.AnnAssign, ast.AugAssign)):
        return _assign(node)
    if isinstance(node, ast.Delete):
        return f"(TDelete {C.cstrs([n for t in node.targets for n in _unravel(t)])} {C.cstrs([n for t in node.targets for n in _py_names(t)])})"
    if isinstance(node, (ast.FunctionDef, ast.AsyncFunctionDef)):
        return f"(TDef {C.cstr(node.name)})"
    if isinstance(node, ast.ClassDef):
        return f"(TClass {C.cstr(node.name)})"
    if isinstance(node, (ast.If, ast.For, ast.AsyncFor, ast.While)):
        return f"(TBlock {C.clist(to_tstmt(s) for s in [*node.body, *node.orelse])})"
    if isinstance(node, ast.Try):
        body = [*node.body, *node.orelse, *node.finalbody, *(s for h in node.handlers for s in h.body)]
        return f"(TBlock {C.clist(to_tstmt(s) for s in body)})"
    if isinstance(node, (ast.With, ast.AsyncWith)):
        return f"(TBlock {C.clist(to_tstmt(s) for s in node.body)})"
    if isinstance(node, (ast.Expr, ast.Pass, ast.Global, ast.Nonlocal, ast.Assert, ast.Raise, ast.Return, ast.Break, ast.Continue)):
        return "TIgnored"
    if hasattr(ast, "Match") and isinstance(node, ast.Match):
        return "TIgnored"
    if hasattr(ast, "TryStar") and isinstance(node, ast.TryStar):
        return "TIgnored"
    if hasattr(ast, "TypeAlias") and isinstance(node, ast.TypeAlias):
        return "TIgnored"
    raise Unsupported(type(node).__name__)


def module_term(source: str) -> str:
    return C.clist(to_tstmt(s) for s in ast.parse(source).body)


# ---------------------------------------------------------------------------------------------------------------
def sym_term(s) -> str:
    k = type(s).__name__
    kind = {"Name": "KName", "Builtin": "KBuiltin", "Func": "KFunc", "Class": "KClass"}.get(k)
    if k == "Import":
        kind = f"(KImport {C.cstr(s.qualified_name)})"
    if kind is None:
        raise Unsupported(f"symbol class {k}")
    return f"(mkSym {C.cstr(s.id)} {kind})"


def observe(path, source: str):
    """compile_root_context on a real file: ('ok', [symbols in table order]) | ('fatal', None) | ('raise', class name)."""
    import rt
    from rattr.config.state import enter_file
    from rattr.models.context import compile_root_context
    path.write_text(source)
    rt.clear_caches()
    rt.set_config(target=str(path), current_file=str(path))
    with rt.capture_stderr() as buf, rt.time_limit(20):
        try:
            with enter_file(path):
                ctx = compile_root_context(ast.parse(source))
            return "ok", list(ctx.symbol_table.symbols), buf.getvalue()
        except SystemExit:
            return "fatal", None, buf.getvalue()
        except BaseException as e:  # noqa: BLE001
            return "raise", type(e).__name__, buf.getvalue()


# ---------------------------------------------------------------------------------------------------------------
PROJECT = {
    "mod_a.py": "def fa(x):\n    return x.a\n\ndef fb(x):\n    return x.b\n",
    "mod_b.py": "def fb(x):\n    return x.bb\n\nclass Kb:\n    pass\n",
    "pkg/__init__.py": "from pkg.inner import deep\n\ndef pinit(x):\n    return x.p\n",
    "pkg/inner.py": "def deep(x):\n    return x.d\n",
    "pkg/sibling.py": "def sf(x):\n    return x.s\n",
    "pkg/nested/__init__.py": "",
    "pkg/nested/leaf.py": "def lf(x):\n    return x.l\n",
}
# where the generated module is written (the same statements are tried in several places: relative imports differ)
PLACES = ["target.py", "pkg/generated.py", "pkg/nested/generated.py", "pkg/nested/__init__.py"]

NAMES = ["alpha", "beta", "gamma", "fa", "fb", "mod_a", "len", "print", "__file__", "pkg", "Kb", "sf", "deep"]

SIMPLE = [
    "import mod_a", "import mod_a as {N}", "import mod_b as {N}", "import pkg.inner", "import pkg.inner as {N}", "import mod_a, mod_b", "import pkg",
    "from mod_a import fa", "from mod_a import fa as {N}", "from mod_a import fa, fb as {N}", "from mod_b import fb, Kb", "from mod_a import *", "from mod_b import *",
    "from pkg import inner", "from pkg import sibling as {N}", "from pkg.inner import deep", "from pkg.inner import deep as {N}", "from pkg import *",
    "from . import sibling", "from .sibling import sf", "from .sibling import sf as {N}", "from .. import sibling", "from ..inner import deep", "from . import *", "from .sibling import *",
    "from .nested import leaf", "from ... import mod_a",
    "import no_such_module_xyz", "from no_such_module_xyz import thing", "from mod_a import not_there", "import os", "import os.path as {N}", "from os import path", "from math import *",
    "import rattr", "from rattr import rattr_ignore",
    "def {N}(x):\n    return x", "async def {N}(x):\n    return x", "def {N}(x, *a, k=1, **kw):\n    pass", "class {N}:\n    pass", "class {N}(Base):\n    def m(self):\n        pass",
    "{N} = 1", "{N} = {M}", "{N} = lambda z: z.lam", "{N}, {M} = 1, 2", "{N} = {M} = 3", "{N}.attr = 1", "{N}[0] = 1", "{N}: int = 3", "{N}: int", "{N} += 1",
    "{N}, {M} = lambda: 1, 2", "{N} = {M} = lambda: 1", "({N}, ({M}, other)) = xs", "[{N}, *{M}] = xs", "{N}.a.b = lambda q: q", "{N} = [lambda: 1]", "{N}: object = lambda: 0",
    "{N} = namedtuple('{N}', ['a', 'b'])", "{N} = collections.namedtuple('{N}', 'a b')", "{N}, {M} = namedtuple('P', ['a']), 1",
    "del {N}", "del {N}, {M}", "del {N}.attr", "del ({N}, [{M}])", "del {N}[0]",
    "pass", "print({N})", "'docstring'", "{N}.y", "lambda: 0", "global {N}", "assert {N}", "{N}()", "({N} := 5)",
    "match {N}:\n    case 1:\n        {M} = 2",
]
BLOCKS = [
    "if {N}:\n{A}\nelse:\n{B}", "if TYPE_CHECKING:\n{A}", "try:\n{A}\nexcept ImportError:\n{B}", "try:\n{A}\nexcept KeyError:\n{B}\nelse:\n{C}\nfinally:\n{D}",
    "for {N} in xs:\n{A}", "for i in xs:\n{A}\nelse:\n{B}", "while cond:\n{A}", "with ctx() as {N}:\n{A}", "async def wrapper():\n{A}", "class Holder:\n{A}",
]


def _indent(src: str) -> str:
    return "\n".join("    " + l for l in src.split("\n"))


def gen_stmt(rng: random.Random, depth=0) -> str:
    if depth < 2 and rng.random() < 0.18:
        t = rng.choice(BLOCKS)
        out = t.replace("{N}", rng.choice(NAMES))
        for slot in "ABCD":
            if "{" + slot + "}" in out:
                body = "\n".join(gen_stmt(rng, depth + 1) for _ in range(rng.randint(1, 2)))
                out = out.replace("{" + slot + "}", _indent(body))
        return out
    t = rng.choice(SIMPLE)
    return t.replace("{N}", rng.choice(NAMES)).replace("{M}", rng.choice(NAMES))


def gen_module(rng: random.Random) -> str:
    return "\n".join(gen_stmt(rng) for _ in range(rng.randint(1, 7))) + "\n"


def fixed_modules() -> list[str]:
    """Every simple statement alone, and after / before a colliding binding; every block shape."""
    out = []
    for t in SIMPLE:
        s = t.replace("{N}", "alpha").replace("{M}", "beta")
        out += [s + "\n", "alpha = 0\n" + s + "\n", s + "\ndef alpha(q):\n    return q\n", "def alpha(q):\n    return q\n" + s + "\ndel alpha\n" + s + "\n"]
    for t in BLOCKS:
        s = t.replace("{N}", "alpha")
        for slot, body in zip("ABCD", ["import mod_a\ndef alpha(x):\n    pass", "from mod_b import fb as alpha\nbeta = 1", "gamma = lambda: 0", "del beta"]):
            s = s.replace("{" + slot + "}", _indent(body))
        out.append(s + "\n")
    return out
