#!/bin/sh
# usage: goal.sh file.v LINE  -> prints the goal just before LINE (1-based)
f=$1; n=$2
head -n $((n-1)) "$f" > /verif/.work/_goal.v
echo "Show. Abort." >> /verif/.work/_goal.v
cd /verif/.work && coqc -Q /verif/coq RattrV -w -all _goal.v 2>&1 | tail -${3:-40}
