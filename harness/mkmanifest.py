#!/venv/bin/python
"""Regenerates MANIFEST.json from the table below (single source of truth for the interface)."""
import json
from pathlib import Path

VERIF = Path(__file__).resolve().parents[1]

COMMON_NOTE = ("Trusted: Coq 8.16.1 kernel + vm_compute (no native_compute), no axioms declared (Print Assumptions text is copied "
               "into the evidence), the hand-written Gallina model (tied to /repo by the correspondence run of the same check), the "
               "Python harness (term emitters, generators, canonicalisers), CPython 3.12. ")

CHECKS = {
 "C04": dict(
   technique="Coq proof: model refines Python-binding spec by list induction + invariant over the keyword loop; exhaustive-within-bound differential correspondence; spec validated against real CPython calls",
   text=("Theorem C04_partial (coq/props/C04.v): for EVERY well-formed signature and call (no size bound) the model of "
         "construct_call_swaps yields exactly the substitution Python's own binding yields and no arity diagnostic when Python accepts, "
         "and an error diagnostic when Python rejects - outside two kernel-checked finding classes (C04_refuted, C04_refuted_KF1: "
         "fewer positionals than positional-only parameters; keyword spelled like a non-keywordable parameter with **kwargs present), "
         "which are listed as known findings. The model is tied to /repo by running it (vm_compute) and rattr on all signatures/calls "
         "within the size bound and comparing swaps and diagnostics exactly; the extracted-free spec checker check_C04 also judges rattr's "
         "own outputs, and the spec itself is validated by really calling a Python function of each signature."),
   note=COMMON_NOTE + "Every parameter is treated as optional (CallInterface stores no defaults). Calls with *iterable / **mapping unpacking are outside the model (rattr diagnoses them when the call record is built).",
   design_ref="DESIGN.md section 6 C04, section 11"),
}

CHECKS["C15"] = dict(
   technique="Coq proof over a model regenerated from source by a Python-ast -> Gallina translator: induction over diagnostic sequences; differential + end-to-end trace replay",
   text=("Theorems C15_exit_iff_contract, C15_buckets_are_sums, C15_exit_is_0_or_1, C15_documented_weights, "
         "C15_threshold_checked_after_simplification_before_output (coq/props/C15.v): for EVERY option setting with threshold >= 0 and EVERY "
         "sequence of diagnostics (levels, non-negative weights, places; analysis then simplification) the run built from the GENERATED "
         "functions (error.info/warning/error/fatal, Config.increment_badness, is_within_badness_threshold, main()'s phase order - "
         "translated from /repo's source on every run, fail-closed) exits 1 iff the documented contract says so, never raises, and each "
         "bucket is the sum of the weights emitted in its place. The generated model is additionally run against the real functions on random "
         "event sequences and against real runs of main() on generated programs at boundary thresholds; the Coq checker check_C15 judges "
         "rattr's own exit status and buckets."),
   note=COMMON_NOTE + "Additionally trusted: the translator harness/translate_decision.py and the primitives of coq/model/DiagMonad.v (State fields, current-file test, stderr print as log append, sys.exit, raise ValueError); the recording driver harness/run_main.py. Which weight each call site passes is covered by the generated table lemma explicit_weights_documented plus the end-to-end traces, not by a model of every call site.",
   design_ref="DESIGN.md section 4.2, 6 C15, 11")
CHECKS["C16"] = dict(
   technique="Coq proof (non-interference + subsequence by induction over diagnostic sequences) over the source-regenerated model; syntactic frame lemma over generated reader table; 16-combination end-to-end runs",
   text=("Theorems C16_verbosity_only_filters_lines, C16_exit_status_independent, C16_errors_and_fatals_always_printed (coq/props/C16.v) over the "
         "regenerated gen/DiagGen.v: for every diagnostic sequence and every two warning levels wl1 <= wl2 the badness buckets and outcome are equal and "
         "the lines printed at wl1 are a subsequence of those at wl2; errors/fatals always print. That no other module reads a verbosity or path-format "
         "option is the generated-table lemma flag_readers_confined. Each generated program is really run under all 4x2x2 -w/-H/-T combinations "
         "(x strict / boundary threshold, -o results / -o ir, deep relative and absolute-under-$HOME targets): stdout bytes, exit status, buckets equal; "
         "Coq checker check_C16_pair judges the chain none<=local<=default<=all."),
   note=COMMON_NOTE + "Path formatting (-H/-T) is outside the Coq model: its non-interference rests on the syntactic frame lemma (attribute reads by name, getattr with literal name) and on the end-to-end runs.",
   design_ref="DESIGN.md section 4.1, 4.2, 6 C16, 11")

CHECKS["C13"] = dict(
   technique="Coq proof: list arithmetic (firstn/length, lia) + split/join string lemmas for relative imports; induction on prefix/suffix lists parametric in the file system; refutation witness for the round trip; exhaustive-within-bound differential correspondence on synthesised trees",
   text=("Theorems C13a_relative_imports_resolve_as_python (for every module depth, level and dotted target the string built by "
         "derive_absolute_module_name equals importlib's _resolve_name answer, and an escape yields '' or a '.'-prefixed string, never another module), "
         "C13b_longest_existing_prefix (for every existence predicate), C13c_partial (for every file system and search path: derived name locates the same file "
         "when no longer path suffix names an existing module), C13c_refuted (kernel-checked name-clash layout; known finding KF_C13_1). "
         "The model (coq/model/ModNames.v) is run against rattr.module_locator.util on all (file, level, name) triples of fixed and random package trees; "
         "importlib.util.resolve_name and the real file system are oracles; the Coq checkers judge rattr's own answers."),
   note=COMMON_NOTE + "File system, search path, isort stdlib classification are parameters/oracles. Path components are assumed dot-free; the (base,target,level) memo of derive_absolute_module_name is cleared per case (a.py beside a/__init__.py is not modelled). The 'diagnosed' clause rests on find_module_name_and_spec answering None for ''/'.x' (checked per case on rattr) - the diagnostic call in RootContextBuilder is covered by C07's runs, not by this model.",
   design_ref="DESIGN.md section 6 C13, 11")

CHECKS["C10"] = dict(
   technique="Coq proof by structural induction over the expression tree (custom tree induction for nested getattr chains); refutation witnesses; exhaustive-to-depth differential correspondence of both namers",
   text=("Theorems C10_safe_naming_follows_readme, C10_namers_agree (for EVERY expression tree of any depth whose spine does not pass through an attribute-access builtin, "
         "both namers return exactly the README spelling and base and do not raise), C10_literal_getattr_chains (any nesting depth), C10_refuted / C10_refuted_agreement "
         "(kernel-checked witnesses for the getattr-spine cases; known finding KF_C10_1). The model (coq/model/Naming.v) is compared with rattr.ast.util.names_of (safe/unsafe x unravel) "
         "and get_basename_fullname_pair on all trees to a wrap depth over one atom per expression class plus random deeper trees; the Coq checker check_C10 judges rattr's answers; "
         "the generated tables (AstNodeWithName, AstLiterals, AstComprehensions, attr-access builtins, '@') are pinned by proofs/TablesOk.v."),
   note=COMMON_NOTE + "harness/emit.py (Python ast -> Coq terms) is trusted for coverage only: a wrong emission shows up as a divergence.",
   design_ref="DESIGN.md section 6 C10, 11")

FA_NOTE = COMMON_NOTE + ("Shared FunctionAnalyser model coq/model/FuncAn.v (+Context.v, Naming.v, Str.v): modelled are the IR, the scope chain, the 'potentially undefined' warnings and the outcome; "
   "NOT modelled: texts of other diagnostics (non-strict mode assumed), the sorted / collections.defaultdict custom analysers (such functions are set aside and counted). module_exists is an oracle. "
   "harness/fa_lib.py wraps FunctionAnalyser.analyse from outside; harness/emit.py converts ast to Coq terms.")
CHECKS["C01"] = dict(
   technique="Coq: refutation witnesses per finding class (vm_compute on the faithful model) + monotonicity of all visitors by tree induction + generic-visit equation; spec checker `occs`/`missed` judges rattr's IR on an exhaustive-within-bound position x kind x context catalogue; model/rattr differential correspondence",
   text=("The full statement (every access of a body is reported) is REFUTED: C01_refuted / C01_refuted_each_class give one kernel-checked witness per finding class (inner-call arguments, getattr-family arguments, "
         "nested-def defaults, deep unnameable root, namedtuple declaration, class-instantiation annotation), each replayed on rattr and listed in KNOWN_FINDINGS.json. Proved for every node, state and outcome: no visitor ever removes "
         "from the IR (C01_visitors_only_add, tree induction over all node classes) and a node class without dedicated visitor visits all its children (C01_generic_visit_descends_everywhere). The claim 'every access outside the "
         "finding-class positions is reported' is PROVED for load expressions of any depth built from names, attribute / subscript / starred chains, every node class without a dedicated visitor, tuples, lists, sets, dicts (C01_call_free_loads_are_complete) and additionally calls - with positional, starred and keyword arguments - whose callee no custom analyser claims in the current scope chain (C01_loads_with_calls_are_complete: the visit ends normally, leaves the scope chain alone, reports every get and every call `occs false` lists) and beyond that fragment is decided by the Coq specification `occs false` evaluated on rattr's own IR over the generated catalogue (every nameable kind x every statement/expression position x load/store/delete, "
         "depth 2 quick / 3 thorough, + random bodies) and by the exact model/rattr correspondence on the same inputs - exhaustive within the bound, not a theorem beyond it."),
   note=FA_NOTE, design_ref="DESIGN.md section 6 C01, Appendix B, section 11")
CHECKS["C02"] = dict(
   technique="Coq: leaf exactness theorem (a Name is reported under the kind of its context only), reader lemmas for all helpers; spec checker `phantoms` (allowed = occurrences + documented derivations) judges rattr's IR; differential correspondence",
   text=("Proved for all inputs: visiting a variable adds exactly that variable under the kind of its expression context and changes nothing else (C02_name_reported_under_its_kind_only); all naming / dispatch helpers only read the state (C02_helpers_are_readers); "
         "on the call-free load fragment of any depth the visit adds only gets that `occs false` lists and leaves sets, dels and calls untouched (C02_call_free_loads_report_nothing_else). "
         "That every reported get/set/del/call of a whole body is the spelling of an expression of the body of the right kind or a documented derivation (receiver prefixes, getattr-family targets) is decided by the Coq checker `phantoms` on rattr's own IR over the "
         "generated catalogue plus the exact model/rattr correspondence - exhaustive within the bound."),
   note=FA_NOTE, design_ref="DESIGN.md section 6 C02, section 11")
CHECKS["C09"] = dict(
   technique="Coq: theorem on the record construction for argument lists of any length (induction) + namer agreement (C10); spec checker `unmirrored` per call site with constructor context; differential correspondence",
   text=("Proved for all argument lists: the call record lists the constructed-instance stand-in first (if any) and then one spelling per positional argument in source order, the name with call brackets removed, "
         "and construction does not touch the state (C09_record_lists_arguments_in_order); argument spellings follow the README on plain expressions (C09_argument_spelling, from C10). Which stand-in is chosen per constructor context "
         "(assigned / returned incl. inside returned containers / discarded) is kernel-checked on examples (C09_constructor_contexts) and decided per call site by the Coq checker `unmirrored` on rattr's own call records over the generated catalogue."),
   note=FA_NOTE, design_ref="DESIGN.md section 6 C09, section 11")
CHECKS["C17"] = dict(
   technique="Coq: warning-decision theorem + scope-chain laws (for all chains), refutation witness per finding class; spec = forward binding pass (spec/Binding.v) judging rattr's warnings (`spurious`, `unwarned`); differential correspondence incl. warning positions",
   text=("Proved for all nodes/states: a warning is issued exactly when the base name is not visible in the scope chain, the expression is not a store and the base is not an '@' stand-in (C17_warning_decision); registering a name makes it visible "
         "and never hides another, nested scopes hide nothing and restore the chain (C17_registered_name_visible, C17_registering_never_hides, C17_scopes_nest). The full no-spurious statement is REFUTED (C17_refuted; four finding classes kernel-checked in "
         "C17_finding_classes: except names, match captures, del of attribute/item, del of a local) - listed as known findings. Whether each emitted warning is spurious w.r.t. Python's binding rules and whether unbound / deleted names are warned is decided by the Coq "
         "forward pass of spec/Binding.v on rattr's own warnings over the generated catalogue."),
   note=FA_NOTE, design_ref="DESIGN.md section 6 C17, section 11")

RES_NOTE = COMMON_NOTE + ("Shared result-generation model coq/model/Results.v: single-file environment (Import targets do not resolve here - imports are C06/C12); the iteration order of every call set "
   "is an input taken from the real run; diagnostics of simplification are not modelled; --exclude matching is an oracle. harness/res_lib.py snapshots the real IR before/after generate_results_from_ir.")
CHECKS["C03"] = dict(
   technique="Coq: refutation witnesses (vm_compute on the faithful model), store-monotonicity of the fold by induction over arbitrary trees, string-level unbind lemmas, single-node-tree theorem; closure spec (lower/upper bounds with Python binding) judging rattr's results; exact model/rattr correspondence incl. mutated IR",
   text=("Full statement REFUTED twice (C03_refuted_compound_argument, C03_refuted_shared_callee; known findings KF_C03_1/2). Proved for every tree/store/call: inlining only adds (C03_inlining_only_adds), names with unbound base pass unchanged and a bound prefix is replaced by the "
         "argument text with THAT TEXT as new base (C03_unbound_names_pass_unchanged, C03_bound_prefix_is_replaced - the exact statement of the compound-argument defect), a function without resolvable call gets a one-node tree (C03_no_resolvable_call_no_inlining), the call tree is always built - the BFS fuel is never exhausted (C03_call_tree_always_built), "
         "and at depth one, for every caller / leaf callee / call / store, the caller gets exactly own U unbind(callee, swaps) and nothing else changes (C03_one_level_tree, C03_one_level_closure). "
         "'results = closure' outside the two finding classes is decided by the Coq closure checkers (lower_ok / upper_ok / calls_ok, binding = spec/PyBind.v) on rattr's own results over tree-shaped and random call graphs x definition orders, with the model compared exactly to rattr."),
   note=RES_NOTE, design_ref="DESIGN.md section 6 C03, Appendix A, section 11")
CHECKS["C14"] = dict(
   technique="Coq: refutation witness, C14_partial (no resolvable call => IR untouched, for all files) and monotone-growth theorem by induction over arbitrary trees; exact model/rattr comparison of the IR after generation",
   text=("C14_full REFUTED (C14_refuted; known finding KF_C14_1). Proved for all files: if no function has a resolvable call generation returns the IR untouched (C14_partial); in every case the IR after generation contains the IR before (C14_ir_only_grows). "
         "Every case of the run compares the model's predicted mutated IR with rattr's IR after generation exactly, so a mutation outside the finding class or different from the prediction is reported with the program as replay; second generations are compared too."),
   note=RES_NOTE, design_ref="DESIGN.md section 6 C14, Appendix A, section 11")
CHECKS["C05"] = dict(
   technique="Coq: refutation witness for order dependence, order-independence of leaf functions and monotonicity theorems; runs under permutations / unrelated definitions / second generation (model-predicted) and real subprocesses under several PYTHONHASHSEED values",
   text=("C05_order_independent REFUTED (C05_refuted: same four functions, two orders; known finding KF_C05_1); hash-seed dependence reproduced from the corpus witness (KF_C05_2). Proved for all files: functions without resolvable call are unaffected by order (C05_leaf_functions_order_independent); "
         "earlier generations only add (C05_earlier_generations_only_add). Every program is run under permutations of its definitions, with unrelated definitions, and twice in one process; a difference is a known finding only if the program is in the finding class AND the model reproduces every variant exactly; "
         "otherwise it is reported with the two differing variants as replay. Hash-seed runs are real subprocesses."),
   note=RES_NOTE + " Hash-seed determinism of everything before result generation is covered by C18's checks.", design_ref="DESIGN.md section 6 C05, section 11")

CHECKS["C20"] = dict(
   technique="Coq: generic theorems over every well-formed option table (induction over item lists: last-wins per pass, two-pass precedence, list accumulation, independence, defaults never overwrite, wrong-type rejection) instantiated on tables regenerated by introspecting the parsers; exhaustive per-option and per-pair differential correspondence + real subprocess scenarios",
   text=("For EVERY well-formed option table, every option present in both parsers and ALL item lists: C20_cli_else_toml_else_default (command line, else TOML, else default; last occurrence wins within a source), C20_list_options_accumulate, "
         "C20_options_independent (an item changes only the dest of the option it names - so the product over options reduces to per-option reasoning, proved not assumed), C20_defaults_never_overwrite, C20_wrong_type_rejected. "
         "The tables are regenerated from the argparse parsers the current source builds (C20_generated_tables_well_formed, C20_documented_defaults are re-checked on every run). The model is compared with parse_arguments on every {absent, valid, invalid} TOML value x CLI value "
         "per option, every pair of options and a sampled product; -c / pyproject selection is exercised by real subprocess runs. Two findings are listed (values starting with '-', bool for int option)."),
   note=COMMON_NOTE + "argparse is modelled only for canonical long options with the value as a separate argument (prefix abbreviations, '=' forms and short-option clusters are outside the model); TOML file parsing (tomllib) and project-root discovery are exercised end-to-end only.",
   design_ref="DESIGN.md section 6 C20, section 11")

CHECKS["C18"] = dict(
   technique="Coq: round-trip theorem by structural recursion over symbols (all kinds, interface sentinels, nested call targets); generic theorem that sorting by an identifying key is permutation-invariant (insertion sort, Sorted/Permutation uniqueness, string order lemmas); refutation for the name-only IR sort; model/rattr comparison of symbol documents; object round trips; hash-seed subprocess runs",
   text=("Proved: C18_symbols_round_trip (every symbol kind x interface kind x nesting depth), C18_reserialising_reproduces_the_document, C18_sorting_by_identifying_key_is_canonical (any type, any key), C18_results_lists_canonical, "
         "C18_ir_lists_canonical_partial (names pairwise distinct); C18_ir_lists_refuted (name ties; known finding KF_C18_1). The model's document is compared key-by-key, in order, with rattr's serialise on thousands of symbols harvested from real analyses "
         "(every symbol and interface kind counted in the evidence); FileIr / FileResults / CacheableResults objects are round-tripped through the real serialise/deserialise; `-o results|ir|cacheable` run as subprocesses under several hash seeds must be byte-identical; emitted lists are checked sorted."),
   note=COMMON_NOTE + "cattrs and json are exercised, not modelled; JSON byte syntax (indentation, escaping) is outside the model - the model is at the level of JSON values with key order.",
   design_ref="DESIGN.md section 6 C18, section 11")

CHECKS["C19"] = dict(
   technique="Coq: invariant by induction over histories of operations (edits, option / version / plugin changes, outside interference with the cache file, runs, forced refreshes) with the analysis and the hash as section parameters; JSON-level model of the document structuring with read-back theorem; refutation witnesses; scripted histories of real subprocess runs + every truncation / type mutation of real cache files as correspondence and as test of the frame hypothesis",
   text=("C19_every_run_reports_fresh_results: for EVERY history (any length) every run - hit or miss - reports what a from-scratch analysis of the world at that moment gives, provided the hash is injective, the analysis depends only on what the cache records (FRAME) and the cache file "
         "is only ever deleted, made unreadable or replaced by a document some run wrote; C19_hit_only_if_unchanged; C19_missing_or_malformed_is_stale; document layer: C19_written_document_reads_back, C19_not_json_or_not_an_object_is_never_trusted, C19_wrongly_typed_field_is_malformed. "
         "Refuted without the side conditions: C19_tampered_document_refuted / C19_dropped_imports_still_structure (known finding KF_C19_2: lenient structuring), C19_unrecorded_dependency_refuted. FRAME is a hypothesis about the real analyser: it is tested, not proved - after every run of every scripted history "
         "(real `rattr -C cache [-r]` subprocesses on five projects: chain, package with relative imports, star import, re-export, non-ASCII identifiers) the cache file must equal the from-scratch document of that world; the model's hit flags and documents are compared with the observed ones; "
         "the real target_cache_file_is_up_to_date is compared with the model on every truncation offset and every type-level mutation / deletion of every field of real cache files. The wrong-shape crash the property text mentions was a genuine defect: repaired in /repo by fix commit e026aed."),
   note=COMMON_NOTE + "Theorem parameters (Section variables, no axioms): content/hash with hash_injective (md5 collisions outside the model; a missing file hashes like an empty one), analysis/recorded with FRAME. cattrs is modelled only as far as hit / no hit is concerned. A run that exceeds the badness threshold exits before writing the cache and is outside the model. Version / plugin changes are arranged by the harness driver from outside /repo. Creation of a module that did not resolve when the cache was written is outside the property's statement ('every module whose analysis fed the cached results') and outside the histories.",
   design_ref="DESIGN.md section 6 C19, section 11")

IMP_NOTE = COMMON_NOTE + ("Shared import model coq/model/Imports.v (+Results.v). Oracles: the module locator (module name / origin of a qualified name - modelled and proved for C13), is_in_import_blacklist / is_in_pip / is_in_stdlib as the real run evaluates them, the options. "
   "Root contexts and per-module IRs are taken from the real run (FunctionAnalyser behaviour is C01/C02/C09's). harness/imp_lib.py generates the projects and wraps find_call_target_and_ir from outside.")
CHECKS["C06"] = dict(
   technique="Coq: resolver theorem by induction over re-export chains of any length (inductive `chain` predicate), linking lemma into the result-generation model, kernel-checked refutations (aliased from-import; re-export cycle for every fuel); metamorphic comparison split-project vs single-file merge on the real pipeline over 12 import forms x package layouts x cycles; exact model/rattr correspondence of results, mutated IR, every call resolution and analysed modules",
   text=("C06_resolver_follows_reexport_chains (any chain length, functions and classes), C06_imported_call_expands_like_local_call (an imported call resolves to exactly the entry a local call to the definition resolves to, so the fold is the same), "
         "C06_unresolved_import_contributes_nothing, C06_reexport_cycle_terminates + C06_resolver_always_terminates (import cycles terminate: visited set, fix 99a8b20); REFUTED: C06_aliased_from_import_refuted (KF_C06_1). 'Same answer as the single file' is decided per generated project by comparing the real results of the split project with the real results of its merge; "
         "a difference is a known finding only when the project contains a reference of a listed finding class (aliased from-import, dotted import without alias, imported class instantiation, static method through module / through from-import) AND the model reproduces rattr's results, mutated IR and every call resolution exactly."),
   note=IMP_NOTE + " Function / class names are unique across modules of a generated project; call graphs are tree-shaped with plain-name arguments (outside the C03 finding classes).",
   design_ref="DESIGN.md section 6 C06, section 11")
CHECKS["C12"] = dict(
   technique="Coq: BFS invariants by induction on fuel for arbitrary import graphs (soundness w.r.t. the filter ladder, NoDup of origins, closure under imports of analysed modules = completeness), resolver answers only within analysed permitted modules; specification = closure of the import graph read from sources with Python's ast / PathFinder under an independent classification, judged in Coq against what rattr analysed; model/rattr correspondence of import_irs (names, origins, order)",
   text=("For every import graph (cycles, diamonds), queue, classification and option setting: C12_only_permitted_modules_are_analysed, C12_level_0_analyses_nothing, C12_each_origin_once, C12_analysed_set_is_closed (every import of the target and of every analysed module is unresolvable, not permitted, without Python source, or analysed), C12_every_reachable_permitted_module_is_analysed (inductive reachability through import statements naming permitted modules with source), "
         "C12_unanalysed_modules_contribute_nothing. The oracles (locator, blacklist / pip / stdlib predicates) are tied to the levels by the specification side of ./check C12: generated projects over local modules and packages, a site-packages directory (regular package, plain module, PEP 420 namespace package), stdlib modules and rattr itself, x follow level 0-3 x exclusion patterns; "
         "the set rattr analysed must equal the closure of the source-level import graph filtered by directory-based classification; distinctive attributes of functions in non-analysed modules must not appear in results; `-o stats` unique-import count must equal the number of analysed modules."),
   note=IMP_NOTE + " The specification's import graph counts the module an import statement names (for `from m import x`: m.x if that is a module, else m), not the package __init__ files Python executes on the way. Level 3 is exercised only with stdlib modules free of extension-module imports (README warning).",
   design_ref="DESIGN.md section 6 C12, section 11")

CHECKS["C11"] = dict(
   technique="Coq: decision model of entries + validator with an independently written inductive well-formedness predicate (accept <-> wf, proved), entry theorems over arbitrary definition lists, composition with the result-generation model (no entry => no contribution), refutation for excluded lambdas / static methods; differential runs of the real parser / FileAnalyser; metamorphic end-to-end scenarios (ignored = removed, declared = body performing exactly the declaration) in the target and behind an import",
   text=("C11_ignored_or_excluded_never_in_results + C11_no_entry_never_contributes (for every file and every environment: an ignored / excluded function or class has no IR entry, so it is no result key and no call expands to it), "
         "C11_declaration_accepted_iff_well_formed (validator <-> inductive wf predicate; the only other outcome is the fatal diagnostic), C11_malformed_declaration_is_fatal, C11_declared_function_has_exactly_the_declaration; "
         "REFUTED: C11_excluded_lambda_and_static_method_refuted (KF_C11_1). The model is compared with the real parse_rattr_results_from_annotation on every key x a pool of 21 argument values at every position of the nested shapes (a disagreement on accept / reject is reported with that decorator as failing input), "
         "with the real FileAnalyser on random annotated files, and the property itself is checked on real end-to-end runs against reference programs. The TypeError / AttributeError crashes on malformed arguments were a genuine defect: repaired by fix commit 66cc389."),
   note=COMMON_NOTE + "Oracles: --exclude regular expressions (re.fullmatch), rattr's identifier pattern (real is_name per string). How a declared entry is inlined into callers is the result-generation model's (C03); nested functions and methods other than static methods are outside (rattr does not analyse them).",
   design_ref="DESIGN.md section 6 C11, section 11")

CHECKS["C08"] = dict(
   technique="Coq: theorems about the call-target function over arbitrary scope chains (bare names follow the chain innermost-first, own-scope parameters shadow, non-import receivers give no target, special callees give no target, only function / class targets are expanded), kernel-checked refutation for parameters registered with a plain add; specification spec/Scoping.v judging real end-to-end inlining per cell of the symbol kind x call form x shadowing matrix; FunctionAnalyser model correspondence on every calling function",
   text=("C08_bare_call_follows_scope_chain, C08_parameter_in_own_scope_shadows, C08_variable_or_builtin_target_never_inlined, C08_method_on_non_import_has_no_target (whatever the module level defines), C08_special_callee_has_no_target, C08_module_member_call_targets_the_import, C08_member_of_non_module_import_has_no_target - for every scope chain and name; "
         "REFUTED: C08_parameter_named_like_function_refuted (KF_C08_1: parameters are added with a plain Context.add). Whether rattr's decision equals Python's is decided per call site by the Coq specification expected_inline on the real results of a module holding one calling function per matrix cell "
         "(wrong-callee detection through distinctive attribute names: same-named function / class in a followed import, re-bound function); a deviation is a known finding only for sites whose callee base is a parameter spelled like a module-level name and whose function passes the FunctionAnalyser correspondence."),
   note=FA_NOTE + " The specification reads the property's statement: parameters of the function and of enclosing lambdas shadow; locals are not judged; definitions precede callers in the matrix module.",
   design_ref="DESIGN.md section 6 C08, section 11")

CHECKS["C07"] = dict(
   technique="Coq (partial): termination theorem for the import BFS with an explicit fuel bound (measure = unseen origins x max imports + queue length), accept-or-fatal theorem for annotation validation, kernel-checked refutation witnesses (the faithful visitor model raises on unnameable store / del / for receivers; the resolver model never terminates on a re-export cycle); search by grammar-wide generated real runs (function bodies through the FunctionAnalyser correspondence, module shapes as subprocesses x option sets)",
   text=("PARTIAL, by nature of the property. Proved for all inputs: C07_import_bfs_terminates (any import graph, cycles included), C07_call_tree_bfs_terminates, C07_import_resolver_terminates (visited set; false before fix 99a8b20), C07_annotation_accepts_or_is_fatal, "
         "C07_call_free_code_never_raises (the call-free load fragment, any depth); the visitors of the model are structurally recursive Gallina functions, i.e. total. Refuted on the faithful model: C07_unnameable_receiver_refuted (KF_C07_4). Everything else this check does is testing, labelled so in the evidence: every function body of the C01 catalogue (an escaping exception is a violation unless the model predicts exactly that exception), "
         "and every module-level construct of the 3.12 grammar alone, on the imported side, combined, x 20 option sets, plus fixed projects (cycles, one file under two names, stdlib at -f 3, deep nesting, long chains) as real subprocesses judged by exit status, JSON validity and the last stderr lines, with a 60 s limit standing in for non-termination. "
         "Three finding classes remain listed (five were repaired by fix commits); any crash outside them (by construct label and exception class) is reported with the program and command line as replay."),
   note=COMMON_NOTE + "Crashes inside unmodelled library code (cattrs, argparse, isort, ast) can only be met by the generated runs. Repaired by fix commits: wrong-shape cache (e026aed), malformed annotation arguments (66cc389), non-name decorators (9f188b4), dotted star imports (af9886c), modules without source (abc9d1e), unresolved imports escaping as ImportError (2dc8e10), re-export cycles (99a8b20).",
   design_ref="DESIGN.md section 6 C07, section 11")

NOT_YET = {}

def main():
    props = [json.loads(l) for l in (VERIF / "properties.jsonl").read_text().splitlines() if l.strip()]
    checks = []
    na = []
    for p in props:
        pid = p["id"]
        if pid in CHECKS:
            c = CHECKS[pid]
            checks.append({
                "property_id": pid,
                "quick_cmd": f"./check {pid} --tier quick",
                "thorough_cmd": f"./check {pid} --tier thorough",
                "evidence_file": f"/verif/evidence/{pid}.json",
                "replay_cmd_template": f"./check {pid} --replay {{path}}",
                "engine": "coq-model+correspondence",
                "level_claimed": {"category": c.get("category", "proof"), "text": c["text"], "design_ref": c["design_ref"]},
                "level_note": c["note"],
                "technique": c["technique"],
            })
        else:
            na.append({"property_id": pid, "reason": NOT_YET.get(pid, "check not built yet in this session (model planned in DESIGN.md section 6); not claimed")})
    m = {
        "version": 1,
        "setup_cmd": "./setup.sh",
        "hooks": {
            "guard": "RATTR_VERIF",
            "enable": "no source hooks are needed: the harness wraps rattr functions from outside (RATTR_VERIF is reserved)",
            "baseline_off_cmd": "cd /repo && /venv/bin/python -m pytest -ra -q -p no:cacheprovider --timeout=900 --continue-on-collection-errors",
            "source_commits": [],
            "add_only": True,
        },
        "engines": [{
            "name": "coq-model+correspondence", "path": "/verif/coq + /verif/harness",
            "serves_properties": [c["property_id"] for c in checks],
            "kind_free_text": "Coq 8.16.1 development (model/, spec/, proofs/, props/) built by coq_makefile; Python harness regenerates coq/gen/*.v from /repo, runs model (vm_compute) and rattr on the same generated inputs, judges rattr's outputs with the Coq spec checkers",
        }],
        "checks": checks,
        "notes": "See DESIGN.md. ./check Cxx --tier quick|thorough; KNOWN_FINDINGS.json lists recorded defects; seeded/ holds confirmed breaking changes.",
        "not_applicable": na,
    }
    (VERIF / "MANIFEST.json").write_text(json.dumps(m, indent=1) + "\n")

if __name__ == "__main__":
    main()
