#!/venv/bin/python
"""Regenerates MANIFEST.json from the table below (single source of truth for the interface)."""
import json
from pathlib import Path

VERIF = Path(__file__).resolve().parents[1]

COMMON_NOTE = ("Trusted: Coq 8.16.1 kernel + vm_compute (no native_compute), no axioms declared (Print Assumptions text is copied "
               "into the evidence), the hand-written Gallina model (tied to /repo by the correspondence run of the same check), the "
               "Python harness (term emitters, generators, canonicalisers), CPython 3.12. ")

CHECKS = {
 "C04": dict(
   technique="Coq proof: model refines Python-binding spec by list induction + invariant over the keyword loop; exhaustive-within-bound differential correspondence; spec validated against real CPython calls",
   text=("Theorem C04_partial (coq/props/C04.v): for EVERY well-formed signature and call (no size bound) the model of "
         "construct_call_swaps yields exactly the substitution Python's own binding yields and no arity diagnostic when Python accepts, "
         "and an error diagnostic when Python rejects - outside two kernel-checked finding classes (C04_refuted, C04_refuted_KF1: "
         "fewer positionals than positional-only parameters; keyword spelled like a non-keywordable parameter with **kwargs present), "
         "which are listed as known findings. The model is tied to /repo by running it (vm_compute) and rattr on all signatures/calls "
         "within the size bound and comparing swaps and diagnostics exactly; the extracted-free spec checker check_C04 also judges rattr's "
         "own outputs, and the spec itself is validated by really calling a Python function of each signature."),
   note=COMMON_NOTE + "Every parameter is treated as optional (CallInterface stores no defaults). Calls with *iterable / **mapping unpacking are outside the model (rattr diagnoses them when the call record is built).",
   design_ref="DESIGN.md section 6 C04, section 11"),
}

NOT_YET = {}

def main():
    props = [json.loads(l) for l in (VERIF / "properties.jsonl").read_text().splitlines() if l.strip()]
    checks = []
    na = []
    for p in props:
        pid = p["id"]
        if pid in CHECKS:
            c = CHECKS[pid]
            checks.append({
                "property_id": pid,
                "quick_cmd": f"./check {pid} --tier quick",
                "thorough_cmd": f"./check {pid} --tier thorough",
                "evidence_file": f"/verif/evidence/{pid}.json",
                "replay_cmd_template": f"./check {pid} --replay {{path}}",
                "engine": "coq-model+correspondence",
                "level_claimed": {"category": c.get("category", "proof"), "text": c["text"], "design_ref": c["design_ref"]},
                "level_note": c["note"],
                "technique": c["technique"],
            })
        else:
            na.append({"property_id": pid, "reason": NOT_YET.get(pid, "check not built yet in this session (model planned in DESIGN.md section 6); not claimed")})
    m = {
        "version": 1,
        "setup_cmd": "./setup.sh",
        "hooks": {
            "guard": "RATTR_VERIF",
            "enable": "no source hooks are needed: the harness wraps rattr functions from outside (RATTR_VERIF is reserved)",
            "baseline_off_cmd": "cd /repo && /venv/bin/python -m pytest -ra -q -p no:cacheprovider --timeout=900 --continue-on-collection-errors",
            "source_commits": [],
            "add_only": True,
        },
        "engines": [{
            "name": "coq-model+correspondence", "path": "/verif/coq + /verif/harness",
            "serves_properties": [c["property_id"] for c in checks],
            "kind_free_text": "Coq 8.16.1 development (model/, spec/, proofs/, props/) built by coq_makefile; Python harness regenerates coq/gen/*.v from /repo, runs model (vm_compute) and rattr on the same generated inputs, judges rattr's outputs with the Coq spec checkers",
        }],
        "checks": checks,
        "notes": "See DESIGN.md. ./check Cxx --tier quick|thorough; KNOWN_FINDINGS.json lists recorded defects; seeded/ holds confirmed breaking changes.",
        "not_applicable": na,
    }
    (VERIF / "MANIFEST.json").write_text(json.dumps(m, indent=1) + "\n")

if __name__ == "__main__":
    main()
