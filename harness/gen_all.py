"""Regenerate every coq/gen/*.v from the current /repo (translators are added per property)."""
import os
import sys

sys.path.insert(0, os.path.dirname(os.path.abspath(__file__)))

def main():
    import importlib
    for name in ("translate_tables", "translate_decision"):
        try:
            mod = importlib.import_module(name)
        except ModuleNotFoundError:
            continue
        mod.write()

if __name__ == "__main__":
    main()
