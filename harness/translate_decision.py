"""Translator II: the decision-logic cluster of rattr -> Gallina (coq/gen/DiagGen.v).

Reads the *current* source of
  rattr/config/_types.py  (Arguments.show_warnings, State.badness / full_badness / is_in_any_file,
                           Config.is_in_target_file / do_not_show_warnings / increment_badness /
                           is_within_badness_threshold)
  rattr/error/error.py    (info, warning, error, fatal)
  rattr/__main__.py       (the order of analyse / simplify / threshold check / output in main)
and emits one Gallina definition per function over the primitives of coq/model/DiagMonad.v.

Fail-closed: any statement or expression form outside the small supported subset raises
TranslationError, which the checks report as a broken obligation.
"""
from __future__ import annotations

import ast
from pathlib import Path

from common import COQ, REPO, write_if_changed


class TranslationError(Exception):
    pass


def fail(node, why):
    src = ast.unparse(node) if isinstance(node, ast.AST) else str(node)
    raise TranslationError(f"{why}: `{src}` (line {getattr(node, 'lineno', '?')})")


# --------------------------------------------------------------------------------------
# expressions
# --------------------------------------------------------------------------------------

STATE_FIELDS = {
    "badness_from_target_file": "(w_target w)",
    "badness_from_imports": "(w_imports w)",
    "badness_from_simplification": "(w_simpl w)",
    "is_in_any_file": "(state_is_in_any_file w)",
    "badness": "(state_badness w)",
    "full_badness": "(state_full_badness w)",
}
ARG_FIELDS = {
    "is_strict": "(a_is_strict a)",
    "threshold": "(a_threshold a)",
    "show_warnings": "(show_warnings a)",
}
CONFIG_PROPS = {
    "is_in_target_file": "(config_is_in_target_file a w)",
    "do_not_show_warnings": "(config_do_not_show_warnings a w)",
    "is_within_badness_threshold": "(config_is_within_badness_threshold a w)",
}
SW_FLAGS = {"target", "target_low_priority", "inherited_high_priority", "inherited_low_priority"}


def attr_path(node):
    parts = []
    while isinstance(node, ast.Attribute):
        parts.append(node.attr)
        node = node.value
    if isinstance(node, ast.Name):
        parts.append(node.id)
        return list(reversed(parts))
    return None


class Ctx:
    def __init__(self, self_kind, locals_=()):
        self.self_kind = self_kind  # "config" | "state" | "arguments" | None
        self.locals = set(locals_)


def tr_expr(e, cx: Ctx) -> str:
    if isinstance(e, ast.Constant):
        if isinstance(e.value, bool):
            return "true" if e.value else "false"
        if isinstance(e.value, int):
            return f"({e.value})"
        fail(e, "unsupported constant")
    if isinstance(e, ast.Name):
        if e.id in cx.locals:
            return e.id
        fail(e, "unknown name")
    if isinstance(e, ast.UnaryOp) and isinstance(e.op, ast.Not):
        return f"(negb {tr_expr(e.operand, cx)})"
    if isinstance(e, ast.BoolOp):
        op = "&&" if isinstance(e.op, ast.And) else "||"
        return "(" + f" {op} ".join(tr_expr(v, cx) for v in e.values) + ")"
    if isinstance(e, ast.BinOp):
        if isinstance(e.op, ast.Add):
            return f"({tr_expr(e.left, cx)} + {tr_expr(e.right, cx)})"
        if isinstance(e.op, ast.BitOr):
            return f"({tr_swset(e.left, cx)} ++ {tr_swset(e.right, cx)})"
        fail(e, "unsupported binary operator")
    if isinstance(e, ast.Call):
        p = attr_path(e.func)
        if p == ["ShowWarnings"] and len(e.args) == 1 and isinstance(e.args[0], ast.Constant) and e.args[0].value == 0:
            return "(@nil swflag)"
        fail(e, "unsupported call in expression")
    if isinstance(e, ast.Compare) and len(e.ops) == 1:
        l, op, r = e.left, e.ops[0], e.comparators[0]
        lp, rp = attr_path(l), attr_path(r)
        # current-file tests
        if isinstance(op, ast.IsNot) and isinstance(r, ast.Constant) and r.value is None and lp and lp[-1] == "current_file":
            return "(current_file_is_not_none w)"
        if isinstance(op, ast.Eq) and lp and rp and {lp[-1], rp[-1]} == {"target", "current_file"}:
            return "(target_eq_current_file w)"
        # flag set tests
        if isinstance(op, (ast.In, ast.NotIn)):
            inner = f"(flag_in {tr_swflag(l, cx)} {tr_expr(r, cx)})"
            return inner if isinstance(op, ast.In) else f"(negb {inner})"
        if isinstance(op, ast.Eq) and isinstance(r, ast.Call) and attr_path(r.func) == ["ShowWarnings"]:
            if tr_expr(r, cx) == "(@nil swflag)":
                return f"(swset_is_empty {tr_expr(l, cx)})"
        # integer comparisons
        zops = {ast.Lt: "<?", ast.LtE: "<=?", ast.Gt: ">?", ast.GtE: ">=?", ast.Eq: "=?"}
        for k, sym in zops.items():
            if isinstance(op, k):
                return f"({tr_expr(l, cx)} {sym} {tr_expr(r, cx)})"
        fail(e, "unsupported comparison")
    if isinstance(e, ast.Attribute):
        p = attr_path(e)
        if p is None:
            fail(e, "unsupported attribute base")
        root, rest = p[0], p[1:]
        kind = cx.self_kind if root == "self" else ("config" if root == "config" else None)
        if root == "ShowWarnings" and len(rest) == 1 and rest[0] in SW_FLAGS:
            return f"[SW_{rest[0]}]"
        if kind == "state" and len(rest) == 1 and rest[0] in STATE_FIELDS:
            return STATE_FIELDS[rest[0]]
        if kind == "config":
            if len(rest) == 2 and rest[0] == "state" and rest[1] in STATE_FIELDS:
                return STATE_FIELDS[rest[1]]
            if len(rest) == 2 and rest[0] == "arguments" and rest[1] in ARG_FIELDS:
                return ARG_FIELDS[rest[1]]
            if len(rest) == 1 and rest[0] in CONFIG_PROPS:
                return CONFIG_PROPS[rest[0]]
        fail(e, "attribute read outside the translation table")
    fail(e, "unsupported expression")


def tr_swflag(e, cx):
    if isinstance(e, ast.Name) and e.id in cx.locals:
        return e.id
    p = attr_path(e)
    if p and p[0] == "ShowWarnings" and len(p) == 2 and p[1] in SW_FLAGS:
        return f"SW_{p[1]}"
    fail(e, "expected a ShowWarnings member")


def tr_swset(e, cx):
    s = tr_expr(e, cx)
    return s


# --------------------------------------------------------------------------------------
# statements (monadic: every block has type M T)
# --------------------------------------------------------------------------------------

LEVELS = {"rattr": "LRattr", "info": "LInfo", "warning": "LWarning", "error": "LError", "fatal": "LFatal"}
ERROR_FUNCS = ("info", "warning", "error", "fatal")


class FnInfo:
    def __init__(self):
        self.default_badness: dict[str, int] = {}


def tr_block(stmts, cx: Ctx, info: FnInfo, ret_unit=True) -> str:
    """Translate a statement list into a Gallina term of type M unit (or M T)."""
    if not stmts:
        return "(ret tt)"
    s, rest = stmts[0], stmts[1:]

    def then(m):  # sequence m : M unit with the rest
        if not rest:
            return m
        return f"(bind {m} (fun _ => {tr_block(rest, cx, info)}))"

    # docstring
    if isinstance(s, ast.Expr) and isinstance(s.value, ast.Constant) and isinstance(s.value.value, str):
        return tr_block(rest, cx, info)
    # config = Config()
    if isinstance(s, ast.Assign) and len(s.targets) == 1 and isinstance(s.targets[0], ast.Name) \
            and isinstance(s.value, ast.Call) and attr_path(s.value.func) == ["Config"] and not s.value.args:
        if s.targets[0].id != "config":
            fail(s, "Config() must be bound to `config`")
        return tr_block(rest, cx, info)
    if isinstance(s, ast.Return):
        if rest:
            fail(rest[0], "statement after return")
        if s.value is None:
            return "(ret tt)"
        return f"(fun w => ret {tr_expr(s.value, cx)} w)"
    if isinstance(s, ast.Raise):
        if rest:
            fail(rest[0], "statement after raise")
        if isinstance(s.exc, ast.Call) and attr_path(s.exc.func) == ["ValueError"]:
            return "raise_value_error"
        fail(s, "unsupported raise")
    if isinstance(s, ast.AugAssign) and isinstance(s.op, ast.Add):
        p = attr_path(s.target)
        table = {"badness_from_target_file": "add_target", "badness_from_imports": "add_imports",
                 "badness_from_simplification": "add_simpl"}
        if p and p[-1] in table and p[-2] == "state":
            return then(f"(fun w => {table[p[-1]]} {tr_expr(s.value, cx)} w)")
        fail(s, "unsupported augmented assignment")
    if isinstance(s, ast.Expr) and isinstance(s.value, ast.Call):
        c = s.value
        p = attr_path(c.func)
        if p == ["config", "increment_badness"] and len(c.args) == 1 and not c.keywords:
            return then(f"(fun w => config_increment_badness a {tr_expr(c.args[0], cx)} w)")
        if p == ["sys", "exit"] and len(c.args) == 1 and isinstance(c.args[0], ast.Constant) and c.args[0].value == 1:
            if rest:
                fail(rest[0], "statement after sys.exit")
            return "sys_exit"
        if p and len(p) == 1 and p[0] == "__log":
            lv = attr_path(c.args[0]) if c.args else None
            if lv and lv[0] == "Level" and lv[1] in LEVELS:
                return then(f"(log {LEVELS[lv[1]]})")
            fail(s, "unsupported __log call")
        if p and len(p) == 1 and p[0] in ERROR_FUNCS:
            b = None
            for kw in c.keywords:
                if kw.arg == "badness":
                    b = tr_expr(kw.value, cx)
            if len(c.args) >= 3:
                b = tr_expr(c.args[2], cx)
            if b is None:
                b = f"default_badness_{p[0]}"
            return then(f"(error_{p[0]} a {b})")
        fail(s, "unsupported call statement")
    if isinstance(s, ast.If):
        # `if c: v = A else: v = B`  ->  let v := if c then A else B
        if (len(s.body) == 1 and len(s.orelse) == 1 and isinstance(s.body[0], ast.Assign)
                and isinstance(s.orelse[0], ast.Assign)
                and isinstance(s.body[0].targets[0], ast.Name) and isinstance(s.orelse[0].targets[0], ast.Name)
                and s.body[0].targets[0].id == s.orelse[0].targets[0].id):
            v = s.body[0].targets[0].id
            cond = tr_expr(s.test, cx)
            av = tr_swflag(s.body[0].value, cx)
            bv = tr_swflag(s.orelse[0].value, cx)
            cx2 = Ctx(cx.self_kind, cx.locals | {v})
            return f"(fun w => let {v} := (if {cond} then {av} else {bv}) in {tr_block(rest, cx2, info)} w)"
        cond = tr_expr(s.test, cx)
        body_terminates = _terminates(s.body)
        if s.orelse:
            else_terminates = _terminates(s.orelse)
            if rest and (not body_terminates or not else_terminates):
                # both branches fall through: if .. then b else e ; rest
                b = tr_block(s.body, cx, info)
                e = tr_block(s.orelse, cx, info)
                return then(f"(fun w => if {cond} then {b} w else {e} w)")
            b = tr_block(s.body, cx, info)
            e = tr_block(s.orelse, cx, info)
            return f"(fun w => if {cond} then {b} w else {e} w)"
        if body_terminates:
            b = tr_block(s.body, cx, info)
            e = tr_block(rest, cx, info)
            return f"(fun w => if {cond} then {b} w else {e} w)"
        b = tr_block(s.body, cx, info)
        return then(f"(fun w => if {cond} then {b} w else ret tt w)")
    fail(s, "unsupported statement")


def _terminates(stmts) -> bool:
    if not stmts:
        return False
    last = stmts[-1]
    if isinstance(last, (ast.Return, ast.Raise)):
        return True
    if isinstance(last, ast.Expr) and isinstance(last.value, ast.Call):
        p = attr_path(last.value.func)
        if p == ["sys", "exit"] or p == ["fatal"]:
            return p == ["sys", "exit"]
    if isinstance(last, ast.If) and last.orelse:
        return _terminates(last.body) and _terminates(last.orelse)
    return False


# --------------------------------------------------------------------------------------
# the files
# --------------------------------------------------------------------------------------

def find_class(mod, name):
    for n in mod.body:
        if isinstance(n, ast.ClassDef) and n.name == name:
            return n
    raise TranslationError(f"class {name} not found")


def find_func(body, name):
    for n in body:
        if isinstance(n, (ast.FunctionDef,)) and n.name == name:
            return n
    raise TranslationError(f"function {name} not found")


def tr_show_warnings(fn) -> str:
    """`if self._warning_level == "<lit>": return <flags>` x4, then raise NotImplementedError."""
    arms = {}
    body = [s for s in fn.body if not (isinstance(s, ast.Expr) and isinstance(s.value, ast.Constant))]
    for s in body[:-1]:
        ok = (isinstance(s, ast.If) and not s.orelse and len(s.body) == 1 and isinstance(s.body[0], ast.Return)
              and isinstance(s.test, ast.Compare) and isinstance(s.test.ops[0], ast.Eq)
              and attr_path(s.test.left) == ["self", "_warning_level"]
              and isinstance(s.test.comparators[0], ast.Constant))
        if not ok:
            fail(s, "show_warnings: unsupported shape")
        lit = s.test.comparators[0].value
        if lit in arms:
            fail(s, "show_warnings: duplicate level")
        arms[lit] = tr_expr(s.body[0].value, Ctx("arguments"))
    if not (isinstance(body[-1], ast.Raise)):
        fail(body[-1], "show_warnings: expected a final raise")
    want = {"none": "WNone", "local": "WLocal", "default": "WDefault", "all": "WAll"}
    if set(arms) != set(want):
        raise TranslationError(f"show_warnings covers {sorted(arms)}, expected {sorted(want)}")
    lines = ["Definition show_warnings (a : args) : swset :=", "  match a_warning_level a with"]
    for lit, c in want.items():
        lines.append(f"  | {c} => {arms[lit]}")
    lines.append("  end.")
    return "\n".join(lines)


def tr_pure_property(fn, name, cx, ty, sig="(a : args) (w : world)") -> str:
    body = [s for s in fn.body if not (isinstance(s, ast.Expr) and isinstance(s.value, ast.Constant))]
    # chain of `if c: return e` ... `return e`
    def go(stmts):
        s = stmts[0]
        if isinstance(s, ast.Return):
            return tr_expr(s.value, cx)
        if isinstance(s, ast.If) and not s.orelse and len(s.body) == 1 and isinstance(s.body[0], ast.Return):
            return f"(if {tr_expr(s.test, cx)} then {tr_expr(s.body[0].value, cx)} else {go(stmts[1:])})"
        fail(s, f"{name}: unsupported shape")
    return f"Definition {name} {sig} : {ty} :=\n  {go(body)}."


def main_phase_order(main_fn) -> list[str]:
    """The order in which main() analyses, simplifies, checks the threshold and prints."""
    phases = []
    for s in main_fn.body:
        src = ast.unparse(s)
        if isinstance(s, ast.Expr) and isinstance(s.value, ast.Constant):
            continue
        if "parse_and_analyse_file()" in src:
            phases.append("PAnalyse")
        elif "generate_results_from_ir(" in src:
            phases.append("PSimplify")
        elif isinstance(s, ast.If) and "is_within_badness_threshold" in ast.unparse(s.test):
            t = s.test
            ok = (isinstance(t, ast.UnaryOp) and isinstance(t.op, ast.Not)
                  and attr_path(t.operand) == ["config", "is_within_badness_threshold"] and not s.orelse)
            calls = [n for n in ast.walk(s) if isinstance(n, ast.Call) and attr_path(n.func) == ["error", "fatal"]]
            if not ok or len(calls) != 1 or not isinstance(s.body[-1], ast.Expr) or s.body[-1].value is not calls[0]:
                fail(s, "main: unsupported threshold check")
            phases.append("PThresholdCheck")
        elif isinstance(s, ast.If) and ("cache_file" in ast.unparse(s.test)) and "target_cache_file_is_up_to_date" in src:
            phases.append("PCacheLookup")
        elif isinstance(s, ast.If) and ("config.arguments.stdout ==" in ast.unparse(s.test)):
            if not phases or phases[-1] != "POutput":
                phases.append("POutput")
        elif isinstance(s, ast.If) and "cache_file is not None" in ast.unparse(s.test) and "write_cache_file" in src:
            phases.append("PWriteCache")
        elif isinstance(s, ast.Assign) and "deferred_execute_once" in src:
            continue
        elif isinstance(s, ast.Return) and ast.unparse(s.value) == "EXIT_SUCCESS":
            phases.append("PReturnSuccess")
        else:
            fail(s, "main: statement outside the recognised phases")
    return phases


def generate() -> str:
    types_src = (REPO / "rattr/config/_types.py").read_text()
    error_src = (REPO / "rattr/error/error.py").read_text()
    main_src = (REPO / "rattr/__main__.py").read_text()
    tmod, emod, mmod = ast.parse(types_src), ast.parse(error_src), ast.parse(main_src)

    out = [
        "(* GENERATED by harness/translate_decision.py from /repo - do not edit. *)",
        "From RattrV Require Export DiagMonad.",
        "Open Scope Z_scope.",
        "",
    ]
    info = FnInfo()
    A = find_class(tmod, "Arguments")
    S = find_class(tmod, "State")
    Cf = find_class(tmod, "Config")

    out.append(tr_show_warnings(find_func(A.body, "show_warnings")))
    out.append("")
    scx = Ctx("state")
    for nm, ty in (("is_in_any_file", "bool"), ("badness", "Z"), ("full_badness", "Z")):
        out.append(tr_pure_property(find_func(S.body, nm), f"state_{nm}", scx, ty, sig="(w : world)"))
    ccx = Ctx("config")
    for nm, ty in (("is_in_target_file", "bool"), ("do_not_show_warnings", "bool")):
        out.append(tr_pure_property(find_func(Cf.body, nm), f"config_{nm}", ccx, ty))
    out.append(tr_pure_property(find_func(Cf.body, "is_within_badness_threshold"),
                                "config_is_within_badness_threshold", ccx, "bool"))
    out.append("")
    inc = find_func(Cf.body, "increment_badness")
    if [x.arg for x in inc.args.args] != ["self", "badness"]:
        fail(inc, "increment_badness signature")
    out.append("Definition config_increment_badness (a : args) (badness : Z) : M unit :=\n  "
               + tr_block(inc.body, Ctx("config", {"badness"}), info) + ".")
    out.append("")

    # error.py: defaults first
    fns = {n: find_func(emod.body, n) for n in ERROR_FUNCS}
    for n, fn in fns.items():
        names = [x.arg for x in fn.args.args]
        if names != ["message", "culprit", "badness"]:
            fail(fn, f"error.{n} signature")
        d = fn.args.defaults[-1]
        if not (isinstance(d, ast.Constant) and isinstance(d.value, int)):
            fail(fn, f"error.{n} badness default")
        out.append(f"Definition default_badness_{n} : Z := {d.value}.")
    out.append("")
    # fatal first (error calls it), then the others
    for n in ("fatal", "info", "warning", "error"):
        body = tr_block(fns[n].body, Ctx(None, {"badness"}), info)
        if n == "fatal":
            # fatal ignores its badness argument name-wise but still passes it to increment_badness
            pass
        out.append(f"Definition error_{n} (a : args) (badness : Z) : M unit :=\n  {body}.")
        out.append("")

    phases = main_phase_order(find_func(mmod.body, "main"))
    out.append("Inductive phase := PCacheLookup | PAnalyse | PSimplify | PThresholdCheck | POutput | PWriteCache | PReturnSuccess.")
    out.append("Definition main_phases : list phase := [" + "; ".join(phases) + "].")
    out.append("")
    # the threshold check of main: `if not config.is_within_badness_threshold: error.fatal(...)`
    out.append("Definition main_threshold_check (a : args) : M unit :=\n"
               "  (fun w => if (negb (config_is_within_badness_threshold a w)) then (error_fatal a default_badness_fatal) w else ret tt w).")
    text = "\n".join(out) + "\n"
    return text


def write() -> tuple[bool, str | None]:
    """(changed, error)"""
    try:
        text = generate()
    except TranslationError as e:
        text = ("(* GENERATED: translation FAILED - the source left the supported subset. *)\n"
                f"(* {str(e).replace('*)', '* )')} *)\n"
                "Definition translation_failed : True := I.\n")
        changed = write_if_changed(COQ / "gen" / "DiagGen.v", text)
        return changed, str(e)
    return write_if_changed(COQ / "gen" / "DiagGen.v", text), None


if __name__ == "__main__":
    ch, err = write()
    print("changed" if ch else "unchanged", err or "")
    print((COQ / "gen" / "DiagGen.v").read_text())
