"""Running rattr (from $RATTR_REPO, default /repo) in-process: Config singleton, cache reset, stderr capture."""
from __future__ import annotations

import contextlib
import io
import re
import sys
from pathlib import Path
from unittest import mock

from common import REPO

if str(REPO) not in sys.path:
    sys.path.insert(0, str(REPO))



HANGS = [0]      # in-process runs that hit their time limit in this process (runners stop early after a few)


class HangTimeout(BaseException):
    """Raised inside an in-process run of rattr that does not terminate within the limit (stands in for a hang)."""


@contextlib.contextmanager
def time_limit(seconds: float):
    import signal
    import threading
    if threading.current_thread() is not threading.main_thread():
        yield
        return

    def handler(signum, frame):
        HANGS[0] += 1
        raise HangTimeout(f"no termination within {seconds} s")
    old = signal.signal(signal.SIGALRM, handler)
    signal.setitimer(signal.ITIMER_REAL, seconds)
    try:
        yield
    finally:
        signal.setitimer(signal.ITIMER_REAL, 0)
        signal.signal(signal.SIGALRM, old)


_memo_fns = None


def _find_memoised():
    global _memo_fns
    if _memo_fns is not None:
        return _memo_fns
    import importlib
    import pkgutil

    import rattr

    fns = []
    seen = set()
    for m in pkgutil.walk_packages(rattr.__path__, "rattr."):
        try:
            mod = importlib.import_module(m.name)
        except Exception:
            continue
        for name, obj in vars(mod).items():
            if callable(obj) and hasattr(obj, "cache_clear") and id(obj) not in seen:
                seen.add(id(obj))
                fns.append(obj)
    _memo_fns = fns
    return fns


def clear_caches() -> None:
    for f in _find_memoised():
        f.cache_clear()


def set_config(target="target.py", current_file="target.py", **kw):
    """(Re)create the Config singleton without validating that the target exists."""
    from rattr.config import Arguments, Config, Output, State
    from rattr.config._types import ConfigMetaclass

    defaults = dict(
        pyproject_toml_override=None,
        _follow_imports_level=1,
        _excluded_imports=None,
        _excluded_names=None,
        _warning_level="all",
        collapse_home=False,
        truncate_deep_paths=False,
        is_strict=False,
        threshold=0,
        stdout=Output.results,
        force_refresh_cache=False,
        cache_file=None,
        target=Path(target),
    )
    defaults.update(kw)
    ConfigMetaclass._instance = None
    Config._instance = None
    with mock.patch("rattr.config._types.validate_arguments", lambda a: a):
        cfg = Config(arguments=Arguments(**defaults), state=State())
    if current_file is not None:
        cfg.state.current_file = Path(current_file)
    return cfg


_ANSI = re.compile(r"\x1b\[[0-9;]*m")


def strip_ansi(s: str) -> str:
    return _ANSI.sub("", s)


@contextlib.contextmanager
def capture_stderr():
    buf = io.StringIO()
    old = sys.stderr
    sys.stderr = buf
    try:
        yield buf
    finally:
        sys.stderr = old


def parse_diag_lines(text: str) -> list[tuple[str, str]]:
    """stderr -> [(level, message-with-location-stripped)]"""
    out = []
    for line in strip_ansi(text).splitlines():
        m = re.match(r"^(rattr|info|warning|error|fatal): (.*)$", line)
        if not m:
            out.append(("?", line))
            continue
        out.append((m.group(1), m.group(2)))
    return out
