"""Shared machinery of the /verif checks: paths, Coq build / evaluation, evidence, verdicts."""
from __future__ import annotations

import fcntl
import hashlib
import json
import os
import re
import shutil
import subprocess
import sys
import time
from concurrent.futures import ThreadPoolExecutor
from contextlib import contextmanager
from pathlib import Path

VERIF = Path(__file__).resolve().parents[1]
REPO = Path(os.environ.get("RATTR_REPO", "/repo")).resolve()
COQ = VERIF / "coq"
WORK = VERIF / ".work"
EVIDENCE = VERIF / "evidence"
REPLAYS = VERIF / "replays"
PY = "/venv/bin/python"
NPROC = min(16, os.cpu_count() or 4)

TIER = os.environ.get("VERIF_TIER", "quick")
SEED = int(os.environ.get("VERIF_SEED", "0") or 0)


def set_tier(t: str) -> None:
    global TIER
    TIER = t


# ----------------------------------------------------------------------------------------
# Coq term emission
# ----------------------------------------------------------------------------------------

def cstr(s: str) -> str:
    """A Coq string literal.  Only printable ASCII is allowed in generated inputs."""
    for ch in s:
        if not (32 <= ord(ch) < 127):
            raise ValueError(f"non-ASCII / control character in {s!r}")
    return '"' + s.replace('"', '""') + '"'


def clist(items) -> str:
    items = list(items)
    return "[" + "; ".join(items) + "]"


def cstrs(items) -> str:
    return clist(cstr(x) for x in items)


def copt(x, f=cstr) -> str:
    return "None" if x is None else f"(Some {f(x)})"


def cpair(a: str, b: str) -> str:
    return f"({a}, {b})"


def cdict(d) -> str:
    """dict / list of pairs of strings -> Coq `dict` in insertion order."""
    items = d.items() if isinstance(d, dict) else d
    return clist(cpair(cstr(k), cstr(v)) for k, v in items)


def cbool(b: bool) -> str:
    return "true" if b else "false"


def cnat(n: int) -> str:
    return f"{int(n)}"


# ----------------------------------------------------------------------------------------
# Coq build (full .vo build through coq_makefile; never -vos)
# ----------------------------------------------------------------------------------------

@contextmanager
def build_lock():
    WORK.mkdir(exist_ok=True)
    with open(WORK / "build.lock", "w") as fh:
        fcntl.flock(fh, fcntl.LOCK_EX)
        try:
            yield
        finally:
            fcntl.flock(fh, fcntl.LOCK_UN)


def write_if_changed(path: Path, text: str) -> bool:
    if path.exists() and path.read_text() == text:
        return False
    path.parent.mkdir(parents=True, exist_ok=True)
    path.write_text(text)
    return True


class BuildResult:
    def __init__(self):
        self.ok_targets: list[str] = []
        self.failed: dict[str, str] = {}  # target -> error text (tail)
        self.log = ""

    @property
    def ok(self) -> bool:
        return not self.failed


def coq_makefile() -> None:
    mk = COQ / "Makefile"
    proj = COQ / "_CoqProject"
    if not mk.exists() or mk.stat().st_mtime < proj.stat().st_mtime:
        subprocess.run(["coq_makefile", "-f", "_CoqProject", "-o", "Makefile"], cwd=COQ, check=True,
                       stdout=subprocess.DEVNULL, stderr=subprocess.DEVNULL)


def coq_build(targets: list[str], timeout: int = 1500) -> BuildResult:
    """Build the given .vo targets (paths relative to coq/), each as far as it goes.

    `make -k` so that one broken proof file does not hide the state of the others.
    """
    res = BuildResult()
    with build_lock():
        coq_makefile()
        vo = [t[:-2] + ".vo" if t.endswith(".v") else t for t in targets]
        p = subprocess.run(
            ["timeout", str(timeout), "make", "-k", f"-j{NPROC}", *vo],
            cwd=COQ, capture_output=True, text=True,
        )
        res.log = p.stdout[-4000:] + "\n" + p.stderr[-8000:]
        # a target counts as built only if make itself now considers it up to date (a stale .vo left
        # over from before a dependency changed does not count)
        def up_to_date(v):
            q = subprocess.run(["make", "-q", v], cwd=COQ, capture_output=True, text=True)
            return q.returncode == 0 and (COQ / v).exists()

        status = [up_to_date(v) or up_to_date(v) for v in vo]   # sequential: concurrent make -q runs interfere
        for t, v, ok in zip(targets, vo, status):
            if ok:
                res.ok_targets.append(t)
            else:
                res.failed[t] = _error_for(p.stderr, v)
                try:
                    (COQ / v).unlink()
                except FileNotFoundError:
                    pass
    return res


def _error_for(stderr: str, vo: str) -> str:
    src = vo[:-3] + ".v"
    idx = stderr.find(f'File "./{src}"')
    if idx < 0:
        idx = stderr.find(src)
    if idx < 0:
        return "not built (a dependency failed):\n" + stderr[-1500:]
    return stderr[idx: idx + 1500]


def coq_run(name: str, text: str, timeout: int = 900) -> str:
    """Compile one scratch .v file against the built development; return coqc's stdout."""
    WORK.mkdir(exist_ok=True)
    path = WORK / f"{name}.v"
    path.write_text(text)
    p = subprocess.run(
        ["timeout", str(timeout), "coqc", "-Q", str(COQ), "RattrV", "-w", "-all", str(path)],
        cwd=WORK, capture_output=True, text=True,
    )
    if p.returncode != 0:
        raise RuntimeError(f"coqc failed on {path}:\n{p.stdout[-2000:]}\n{p.stderr[-4000:]}")
    return p.stdout


_NAT_LIST = re.compile(r"=\s*\[([^\]]*)\]\s*:\s*list nat", re.S)


def parse_nat_lists(out: str) -> list[list[int]]:
    res = []
    for m in _NAT_LIST.finditer(out):
        body = m.group(1).strip()
        res.append([int(x) for x in re.findall(r"\d+", body)])
    return res


def coq_eval_codes(name: str, header: str, case_type: str, code_fn: str, cases: list[str],
                   shard: int = 600, timeout: int = 900) -> list[int]:
    """Evaluate `code_fn : case_type -> nat` on every case term with vm_compute, sharded over
    several coqc processes.  Returns one code per case, in order."""
    if not cases:
        return []
    shards = [cases[i: i + shard] for i in range(0, len(cases), shard)]

    def run(ix_sh):
        ix, sh = ix_sh
        body = ";\n ".join(sh)
        text = (
            f"{header}\n"
            f"Definition cases : list ({case_type}) :=\n [{body}].\n"
            f"Eval vm_compute in (map ({code_fn}) cases).\n"
        )
        out = coq_run(f"{name}_{ix}", text, timeout=timeout)
        lists = parse_nat_lists(out)
        if len(lists) != 1 or len(lists[0]) != len(sh):
            raise RuntimeError(f"unexpected coqc output for shard {ix} of {name}: {out[:500]}")
        return lists[0]

    with ThreadPoolExecutor(max_workers=NPROC) as ex:
        parts = list(ex.map(run, enumerate(shards)))
    for ix in range(len(shards)):
        for suf in (".v", ".vo", ".glob", ".vok", ".vos"):
            try:
                (WORK / f"{name}_{ix}{suf}").unlink()
            except FileNotFoundError:
                pass
        try:
            (WORK / f".{name}_{ix}.aux").unlink()
        except FileNotFoundError:
            pass
    return [c for part in parts for c in part]


def print_assumptions(prop_file: str) -> str:
    """Re-run the property file in a scratch copy to capture its Print Assumptions output."""
    src = (COQ / prop_file).read_text()
    out = coq_run("pa_" + Path(prop_file).stem, src, timeout=600)
    return out.strip()


# ----------------------------------------------------------------------------------------
# Known findings, replays, evidence, verdict
# ----------------------------------------------------------------------------------------

def known_findings(prop: str) -> list[dict]:
    path = VERIF / "KNOWN_FINDINGS.json"
    if not path.exists():
        return []
    data = json.loads(path.read_text())
    return [f for f in data.get("findings", []) if f.get("property") == prop and f.get("status", "open") == "open"]


def write_replay(prop: str, payload: dict) -> Path:
    REPLAYS.mkdir(exist_ok=True)
    blob = json.dumps(payload, indent=1, sort_keys=True, default=str)
    h = hashlib.sha256(blob.encode()).hexdigest()[:12]
    path = REPLAYS / f"{prop}-{h}.json"
    path.write_text(blob)
    return path


class Verdict:
    """Collects what a check found and turns it into stdout lines + exit status."""

    def __init__(self, prop: str):
        self.prop = prop
        self.known_lines: list[str] = []
        self.violations: list[tuple[Path, bool]] = []  # (replay, has failing input)
        self.notes: list[str] = []

    def known(self, what: str) -> None:
        line = f"KNOWN-FINDING: property={self.prop} {what}"
        if line not in self.known_lines:
            self.known_lines.append(line)

    def violation(self, payload: dict, *, failing_input: bool = True) -> None:
        path = write_replay(self.prop, payload)
        self.violations.append((path, failing_input))

    def finish(self) -> int:
        for line in self.known_lines:
            print(line)
        for n in self.notes:
            print("note:", n)
        seen = set()
        for path, has_input in self.violations[:20]:
            if path in seen:
                continue
            seen.add(path)
            tail = "" if has_input else " no-failing-input-found"
            print(f"VIOLATION property={self.prop} replay={path}{tail}")
        sys.stdout.flush()
        return 1 if self.violations else 0


def write_evidence(prop: str, *, coverage: dict, wall_s: float, assumptions: list[str],
                   violations: int, level: str = "proof") -> None:
    EVIDENCE.mkdir(exist_ok=True)
    doc = {
        "property_id": prop,
        "tier": TIER if TIER in ("quick", "thorough") else "quick",
        "seed": SEED,
        "level": level,
        "coverage": coverage,
        "assumptions": assumptions,
        "wall_s": round(wall_s, 2),
        "violations": violations,
    }
    (EVIDENCE / f"{prop}.json").write_text(json.dumps(doc, indent=1, default=str) + "\n")


TRUSTED_BASE_COMMON = [
    "Coq 8.16.1 kernel (coqc), vm_compute; no native_compute",
    "no axioms declared by the development (Print Assumptions output recorded per property)",
    "hand-written Gallina model tied to /repo by the correspondence run reported here (differential, exhaustive within the stated bound)",
    "harness: Python emitters of Coq terms, canonicalisers, generators (/verif/harness)",
    "CPython 3.12 ast / runtime as installed in /venv",
]


def obligations_from(build: BuildResult, files: list[str]) -> tuple[int, int, list[str]]:
    """Count `Theorem|Lemma|Corollary|Example` statements in the given proof/prop files and how
    many are discharged (all statements of a file that compiled; none of a file that did not)."""
    total = 0
    done = 0
    broken = []
    for f in files:
        n = len(re.findall(r"^\s*(?:Theorem|Lemma|Corollary|Example|Fact|Proposition)\s+\w+", (COQ / f).read_text(), re.M))
        total += n
        if f in build.ok_targets:
            done += n
        else:
            broken.append(f)
    return total, done, broken


class Timer:
    def __init__(self):
        self.t0 = time.time()

    @property
    def s(self) -> float:
        return time.time() - self.t0


def generic_replay(prop: str, path: str) -> int:
    """Re-runs the input recorded in a replay file on the implementation (real `python -m rattr` in a scratch
    directory) and prints what was recorded next to what happens now."""
    import tempfile
    payload = json.loads(Path(path).read_text())
    print(f"replay of {path} (property {prop})")
    print("recorded:", json.dumps({k: v for k, v in payload.items() if k not in ("files", "reference_files", "source", "merged_source", "module_prelude")}, indent=1, default=str)[:4000])
    files = None
    for key in ("files", "files_a"):
        if isinstance(payload.get(key), dict):
            files = dict(payload[key])
            break
    if files is None:
        for key in ("source", "function", "module_source_tail"):
            if isinstance(payload.get(key), str):
                files = {"target.py": payload[key]}
                break
    if files is None and isinstance(payload.get("call_site"), str):
        files = {"target.py": payload.get("module_prelude", "") + "\n" + payload["call_site"], "mod_imp.py": "def mfunc(z):\n    return z.attr_mfunc\n"}
    if files is None and isinstance(payload.get("definitions"), list):
        files = {"target.py": "\n".join(payload["definitions"])}
    if files is None:
        print("no runnable program is recorded in this replay (it names a theorem / correspondence suite: see `broken`)")
        return 0
    opts = payload.get("command_line") or payload.get("options") or []
    opts = [o for o in opts if isinstance(o, str)]
    if not any(o.endswith(".py") for o in opts):
        opts = [*opts, "target.py"]
    if payload.get("follow_imports") is not None and "-f" not in opts:
        opts = ["-f", str(payload["follow_imports"]), *opts]
    for pat in payload.get("exclude_imports") or []:
        opts = ["-F", pat, *opts]
    root = Path(tempfile.mkdtemp(prefix="rattrv_replay_"))
    try:
        for name, src in files.items():
            f = root / name
            f.parent.mkdir(parents=True, exist_ok=True)
            f.write_text(src)
        sub = payload.get("cwd_inside_project") or "."
        env = dict(os.environ)
        env.update({"PYTHONPATH": f"{REPO}:{root}" if sub != "." else str(REPO), "PYTHONHASHSEED": str(payload.get("PYTHONHASHSEED", 0)), "PYTHONDONTWRITEBYTECODE": "1"})
        p = subprocess.run([PY, "-m", "rattr", *opts], cwd=root / sub, env=env, capture_output=True, text=True, timeout=120)
        print(f"now: python -m rattr {' '.join(opts)}  ->  exit {p.returncode}")
        print("stdout:", p.stdout[:3000])
        print("stderr:", re.sub(r"\x1b\[[0-9;]*m", "", p.stderr)[-2000:])
    finally:
        shutil.rmtree(root, ignore_errors=True)
    return 0
