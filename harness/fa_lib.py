"""Running rattr's FunctionAnalyser on real modules and recording, per analysed callable, what the
Coq model needs: the function's AST, the context chain at entry, the resulting IR, the
'potentially undefined' warnings and how the analysis ended."""
from __future__ import annotations

import ast
import re
import sys
from pathlib import Path

import common as C
import emit
import rt

KIND = {"Name": "KName", "Builtin": "KBuiltin", "Func": "KFunc", "Class": "KClass"}
_WARN = re.compile(r"^warning: \S+?:(\d+):(\d+): '(.+)' potentially undefined$")


def sym_tuple(s):
    k = type(s).__name__
    if k == "Import":
        return (s.id, "KImport", s.qualified_name)
    return (s.id, KIND[k], None)


def ctx_chain(ctx):
    """[[(id, kind, qualified)]...] innermost first."""
    out = []
    while ctx is not None:
        out.append([sym_tuple(s) for s in ctx.symbol_table.symbols])
        ctx = ctx.parent
    return out


def c_sym(t) -> str:
    name, kind, q = t
    k = f"(KImport {C.cstr(q)})" if kind == "KImport" else kind
    return f"(mkSym {C.cstr(name)} {k})"


def c_scope(sc, base=None) -> str:
    if base is not None and sc[: len(base)] == base:
        return f"(builtins_scope ++ {C.clist(c_sym(t) for t in sc[len(base):])})"
    return C.clist(c_sym(t) for t in sc)


def c_target(t) -> str:
    return "None" if t is None else f"(Some {c_sym(t)})"


def ir_to_py(ir):
    def names(xs):
        return sorted({(n.name, n.basename) for n in xs})
    calls = []
    for c in ir["calls"]:
        calls.append((c.name, tuple(c.args.args), tuple(c.args.kwargs.items()),
                      None if c.target is None else sym_tuple(c.target)))
    return {"gets": names(ir["gets"]), "sets": names(ir["sets"]), "dels": names(ir["dels"]),
            "calls": sorted(calls, key=repr)}


def c_names(xs) -> str:
    return C.clist(f"({C.cstr(a)}, {C.cstr(b)})" for a, b in xs)


def c_calls(cs) -> str:
    return C.clist(f"(mkCallRec {C.cstr(n)} {C.cstrs(a)} {C.cdict(k)} {c_target(t)})" for n, a, k, t in cs)


def analyse_module(path: Path, source: str, *, follow=0):
    """Analyse one real file with FileAnalyser; returns a list of per-callable records."""
    from rattr.analyser import function as F
    from rattr.analyser.file import FileAnalyser
    from rattr.config.state import enter_file
    from rattr.models.context import compile_root_context
    from rattr.module_locator.util import module_exists

    path.write_text(source)
    rt.clear_caches()
    rt.set_config(target=str(path), current_file=str(path), _follow_imports_level=follow)
    records = []
    depth = [0]
    orig = F.FunctionAnalyser.analyse

    def wrapped(self):
        if depth[0] > 0:
            return orig(self)
        depth[0] += 1
        chain = ctx_chain(self.context)
        try:
            modname = self.context.modulename
        except Exception:  # noqa: BLE001
            modname = None
        outcome = ("ok",)
        old_err = sys.stderr
        import io
        buf = io.StringIO()
        sys.stderr = buf
        try:
            try:
                orig(self)
            except SystemExit:
                outcome = ("fatal",)
            except BaseException as e:  # noqa: BLE001
                outcome = ("raise", type(e).__name__)
        finally:
            sys.stderr = old_err
            depth[0] -= 1
        warns = []
        others = []
        for line in rt.strip_ansi(buf.getvalue()).splitlines():
            m = _WARN.match(line)
            if m:
                warns.append((m.group(3), int(m.group(1)), int(m.group(2))))
            else:
                others.append(line)
        imports = {t[2] for sc in chain for t in sc if t[1] == "KImport"}
        records.append({"fn": self.ast, "chain": chain, "modulename": modname, "ir": ir_to_py(self.func_ir),
                        "warnings": warns, "outcome": outcome, "other_diagnostics": others,
                        "mexists": {q: bool(module_exists(q)) for q in sorted(imports)}})
        return self.func_ir

    F.FunctionAnalyser.analyse = wrapped
    file_outcome = ("ok",)
    try:
        with rt.capture_stderr(), rt.time_limit(120):
            try:
                with enter_file(path):
                    tree = ast.parse(source)
                    context = compile_root_context(tree).expand_starred_imports()
                    FileAnalyser(tree, context).analyse()
            except SystemExit:
                file_outcome = ("fatal",)
            except BaseException as e:  # noqa: BLE001
                file_outcome = ("raise", type(e).__name__, str(e)[:200])
    finally:
        F.FunctionAnalyser.analyse = orig
    return records, file_outcome


_base_scope = None


def base_scope(scratch: Path):
    """The root scope of an empty module: dunder names and builtins."""
    global _base_scope
    if _base_scope is None:
        from rattr.config.state import enter_file
        from rattr.models.context import compile_root_context
        p = scratch / "empty_mod.py"
        p.write_text("")
        rt.set_config(target=str(p), current_file=str(p))
        with enter_file(p):
            ctx = compile_root_context(ast.parse(""))
        _base_scope = [sym_tuple(s) for s in ctx.symbol_table.symbols]
    return _base_scope


def header(scratch: Path) -> str:
    b = base_scope(scratch)
    return ("From RattrV Require Import Base Str PyAst Naming Context FuncAn FaCheck Occurs FaSpecCheck.\n"
            "Open Scope string_scope.\nOpen Scope list_scope.\n"
            f"Definition builtins_scope : scope := {C.clist(c_sym(t) for t in b)}.\n")


def c_outcome(o) -> str:
    return {"ok": "OOk", "fatal": "OFatal"}.get(o[0]) or f"(ORaise {C.cstr(o[1])})"


def c_record(r, scratch: Path) -> str | None:
    base = base_scope(scratch)
    try:
        fn = emit.emit(r["fn"])
    except emit.EmitError:
        return None
    chain = C.clist(c_scope(sc, base) for sc in r["chain"])
    mex = C.clist(f"({C.cstr(q)}, {C.cbool(v)})" for q, v in r["mexists"].items())
    warns = C.clist(f"({C.cstr(b)}, ({l}, {c}))" for b, l, c in r["warnings"])
    ir = r["ir"]
    return (f"(mkFaCase {fn} {chain} {C.copt(r['modulename'])} {mex} "
            f"(mkFaObs {c_names(ir['gets'])} {c_names(ir['sets'])} {c_names(ir['dels'])} {c_calls(ir['calls'])} {warns} {c_outcome(r['outcome'])}))")
