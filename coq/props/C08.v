(* C08 - Calls resolve to the callee that Python's scoping rules would pick.
   Model: model/Context.v get_call_target over the scope chain (compared with rattr on every generated call site
   through the FunctionAnalyser correspondence), model/Results.v resolve (which targets are expanded).
   Specification: spec/Scoping.v expected_inline judges rattr's end-to-end answer per call site. *)
From RattrV Require Import Base Str ModNames Context CallSwaps FuncAn Results C08Proofs C08Member RootCtx RootCheck RootSpec RootProofs C08Module.
Open Scope string_scope.
Open Scope list_scope.

Theorem C08_bare_call_follows_scope_chain :
  forall mexists c n, plain n -> get_call_target mexists c n = ctx_get c n.
Proof. exact bare_call_follows_scope_chain. Qed.

Theorem C08_parameter_in_own_scope_shadows :
  forall mexists params root n, plain n -> scope_get params n = Some (mkSym n KName) ->
    get_call_target mexists [params; root] n = Some (mkSym n KName).
Proof. exact parameter_in_own_scope_shadows. Qed.

Theorem C08_variable_or_builtin_target_never_inlined :
  forall excluded (E : env) c nm,
    c_target c = Some (mkSym nm KName) \/ c_target c = Some (mkSym nm KBuiltin) \/ c_target c = None ->
    resolve excluded E c = None.
Proof. exact variable_or_builtin_target_never_inlined. Qed.

Theorem C08_method_on_non_import_has_no_target :
  forall mexists c obj f,
    let name := (obj ++ "." ++ f)%string in
    replace_all "*" "" (without_call_brackets name) = name -> split_dot name = [obj; f] ->
    starts_with "@" name = false -> contains "[]" name = false ->
    ctx_get c name = None -> is_import (ctx_get c obj) = false ->
    get_call_target mexists c name = None.
Proof. exact method_on_non_import_has_no_target. Qed.

Theorem C08_special_callee_has_no_target :
  forall mexists c callee,
    (starts_with "@" (replace_all "*" "" (without_call_brackets callee)) = true
     \/ contains "[]" (replace_all "*" "" (without_call_brackets callee)) = true) -> get_call_target mexists c callee = None.
Proof. exact special_callee_has_no_target. Qed.
Print Assumptions C08_bare_call_follows_scope_chain.
Print Assumptions C08_method_on_non_import_has_no_target.

(* parameters are registered with is_argument=True (fix 1134bd3; finding KF_C08_1 before it): in ANY context, after the
   parameter p is added in a fresh scope, a bare call to p gets the parameter - whatever the enclosing scopes hold *)
Theorem C08_parameter_shadows_in_any_context :
  forall mexists c p,
    replace_all "*" "" (without_call_brackets p) = p -> split_dot p = [p] -> starts_with "@" p = false ->
    contains "[]" p = false -> contains "." p = false ->
    get_call_target mexists (ctx_add (ctx_push c) (mkSym p KName) true) p = Some (mkSym p KName).
Proof. exact argument_add_shadows. Qed.
Theorem C08_parameter_named_like_function_shadows :
  get_call_target (fun _ => false) after_params "helper" = Some (mkSym "helper" KName)
  /\ get_call_target (fun _ => false) after_params "x" = Some (mkSym "x" KName).
Proof. exact parameter_named_like_function_shadows. Qed.
Print Assumptions C08_parameter_shadows_in_any_context.

(* REFUTED: a call on a call result f(x)(y) gets f as its target (finding KF_C08_2) *)
Theorem C08_target_depends_only_on_the_unbracketed_name :
  forall mexists c a b, without_call_brackets a = without_call_brackets b ->
    get_call_target mexists c a = get_call_target mexists c b.
Proof. exact target_depends_only_on_the_unbracketed_name. Qed.
Theorem C08_call_on_call_result_targets_the_function_refuted :
  without_call_brackets "helper()()" = without_call_brackets "helper"
  /\ get_call_target (fun _ => false) [root_ex] "helper()()" = Some (mkSym "helper" KFunc).
Proof. exact call_on_call_result_targets_the_function_refuted. Qed.
Print Assumptions C08_call_on_call_result_targets_the_function_refuted.

(* a dotted call m.f() where m is an imported module gets the import m.f as target (then followed by the import
   resolver, C06); where m is an import that is not a module (a from-imported class, function, constant) it gets none *)
Theorem C08_module_member_call_targets_the_import :
  forall mexists c m f q,
    let name := (m ++ "." ++ f)%string in
    replace_all "*" "" (without_call_brackets name) = name -> split_dot name = [m; f] ->
    starts_with "@" name = false -> contains "[]" name = false -> contains "." name = true ->
    replace_all (m ++ ".") "" name = f ->
    ctx_get c name = None -> ctx_get c m = Some (mkSym m (KImport q)) -> mexists q = true ->
    get_call_target mexists c name = Some (mkSym f (KImport (q ++ "." ++ f))).
Proof. exact module_member_call_targets_the_import. Qed.
Theorem C08_member_of_non_module_import_has_no_target :
  forall mexists c m f q,
    let name := (m ++ "." ++ f)%string in
    replace_all "*" "" (without_call_brackets name) = name -> split_dot name = [m; f] ->
    starts_with "@" name = false -> contains "[]" name = false -> contains "." name = true ->
    ctx_get c name = None -> ctx_get c m = Some (mkSym m (KImport q)) -> mexists q = false ->
    get_call_target mexists c name = None.
Proof. exact member_of_non_module_import_has_no_target. Qed.
Print Assumptions C08_module_member_call_targets_the_import.

(* ---------- module level: which symbol a name has when the functions are analysed ---------- *)
(* model/RootCtx.v (compile_root_context / RootContextBuilder; compared with rattr on generated modules placed at the
   top level, inside packages and as a package __init__ - harness/root_run.py).  For a module without deletions and
   starred imports: after the statements a name means what it meant before (builtins, dunder names), else what the
   FIRST statement that offers it says - blocks flattened in the order register_stmts walks them. *)
Theorem C08_first_module_level_binding_wins :
  forall locatable blacklisted base is_init stmts sc sc',
    forallb plain_stmt stmts = true ->
    regs locatable blacklisted base is_init stmts sc = ROk sc' ->
    forall n, scope_get sc' n = match scope_get sc n with
                                | Some x => Some x
                                | None => first_of (flat_map (binds base is_init) stmts) n
                                end.
Proof. exact regs_extends. Qed.
Print Assumptions C08_first_module_level_binding_wins.

(* REFUTED against Python (finding KF_C08_3): Python's rule is that the LAST binding wins - here an import is kept
   although a function of that name is defined afterwards.  spec/RootSpec.v judges every generated straight-line
   module against Python's rule (last_binding); all disagreements found are re-bindings. *)
Theorem C08_first_binding_wins_refutes_last_binding :
  regs (fun _ => true) (fun _ => false) "m" false
       [TImportFrom (Some "lib") [mkAlias "parse" (Some "handle")] 0; TDef "handle"] []
  = ROk [mkSym "handle" (KImport "lib.parse")]
  /\ last_binding (flat_map (py_events "m" false) [TImportFrom (Some "lib") [mkAlias "parse" (Some "handle")] 0; TDef "handle"]) "handle" None
     = Some (mkSym "handle" KFunc).
Proof. split; reflexivity. Qed.
(* `import p.x` binds the dotted name only (finding KF_C06_2): the name p stays unbound, so p.f() can never be inlined
   from the wrong module *)
Theorem C08_dotted_import_does_not_bind_the_package :
  exists sc, regs (fun _ => true) (fun _ => false) "m" false [TImport [mkAlias "p.x" None]] [] = ROk sc
             /\ scope_get sc "p" = None /\ scope_get sc "p.x" = Some (mkSym "p.x" (KImport "p.x")).
Proof. exact dotted_import_does_not_bind_the_package. Qed.

(* ---------- module level to call site (proofs/C08Module.v) ---------- *)
(* a bare call n(...) in a function whose own scope does not hold n gets the symbol of the FIRST module-level statement
   that offers n, provided n is no builtin / dunder name *)
Theorem C08_module_level_definition_is_the_call_target :
  forall locatable blacklisted base is_init mexists stmts init root params n s,
    forallb plain_stmt stmts = true ->
    regs locatable blacklisted base is_init stmts init = ROk root ->
    scope_get init n = None ->
    first_of (flat_map (binds base is_init) stmts) n = Some s ->
    plain n -> scope_get params n = None ->
    get_call_target mexists [params; root] n = Some s.
Proof. exact module_level_definition_is_the_call_target. Qed.
(* the root table is a dictionary: never two symbols of one name, whatever the module says *)
Theorem C08_root_table_has_unique_names :
  forall locatable blacklisted base is_init stmts sc sc',
    NoDup (names sc) -> regs locatable blacklisted base is_init stmts sc = ROk sc' -> NoDup (names sc').
Proof. exact root_table_has_unique_names. Qed.
(* `del n` then `def n`: the definition is registered, whatever n was before *)
Theorem C08_delete_then_define_registers_the_definition :
  forall locatable blacklisted base is_init sc sc' n u,
    NoDup (names sc) ->
    regs locatable blacklisted base is_init [TDelete u [n]; TDef n] sc = ROk sc' -> scope_get sc' n = Some (mkSym n KFunc).
Proof. exact delete_then_define_registers_the_definition. Qed.
Print Assumptions C08_module_level_definition_is_the_call_target.
