(* C08 - Calls resolve to the callee that Python's scoping rules would pick.
   Model: model/Context.v get_call_target over the scope chain (compared with rattr on every generated call site
   through the FunctionAnalyser correspondence), model/Results.v resolve (which targets are expanded).
   Specification: spec/Scoping.v expected_inline judges rattr's end-to-end answer per call site. *)
From RattrV Require Import Base Str Context CallSwaps FuncAn Results C08Proofs C08Member.
Open Scope string_scope.
Open Scope list_scope.

Theorem C08_bare_call_follows_scope_chain :
  forall mexists c n, plain n -> get_call_target mexists c n = ctx_get c n.
Proof. exact bare_call_follows_scope_chain. Qed.

Theorem C08_parameter_in_own_scope_shadows :
  forall mexists params root n, plain n -> scope_get params n = Some (mkSym n KName) ->
    get_call_target mexists [params; root] n = Some (mkSym n KName).
Proof. exact parameter_in_own_scope_shadows. Qed.

Theorem C08_variable_or_builtin_target_never_inlined :
  forall excluded (E : env) c nm,
    c_target c = Some (mkSym nm KName) \/ c_target c = Some (mkSym nm KBuiltin) \/ c_target c = None ->
    resolve excluded E c = None.
Proof. exact variable_or_builtin_target_never_inlined. Qed.

Theorem C08_method_on_non_import_has_no_target :
  forall mexists c obj f,
    let name := (obj ++ "." ++ f)%string in
    replace_all "*" "" (without_call_brackets name) = name -> split_dot name = [obj; f] ->
    starts_with "@" name = false -> contains "[]" name = false ->
    ctx_get c name = None -> is_import (ctx_get c obj) = false ->
    get_call_target mexists c name = None.
Proof. exact method_on_non_import_has_no_target. Qed.

Theorem C08_special_callee_has_no_target :
  forall mexists c callee,
    (starts_with "@" (replace_all "*" "" (without_call_brackets callee)) = true
     \/ contains "[]" (replace_all "*" "" (without_call_brackets callee)) = true) -> get_call_target mexists c callee = None.
Proof. exact special_callee_has_no_target. Qed.
Print Assumptions C08_bare_call_follows_scope_chain.
Print Assumptions C08_method_on_non_import_has_no_target.

(* REFUTED: parameters are registered with a plain add (finding KF_C08_1) *)
Theorem C08_parameter_named_like_function_refuted :
  get_call_target (fun _ => false) after_params "helper" = Some (mkSym "helper" KFunc)
  /\ get_call_target (fun _ => false) after_params "x" = Some (mkSym "x" KName).
Proof. exact parameter_named_like_function_refuted. Qed.
Print Assumptions C08_parameter_named_like_function_refuted.

(* a dotted call m.f() where m is an imported module gets the import m.f as target (then followed by the import
   resolver, C06); where m is an import that is not a module (a from-imported class, function, constant) it gets none *)
Theorem C08_module_member_call_targets_the_import :
  forall mexists c m f q,
    let name := (m ++ "." ++ f)%string in
    replace_all "*" "" (without_call_brackets name) = name -> split_dot name = [m; f] ->
    starts_with "@" name = false -> contains "[]" name = false -> contains "." name = true ->
    replace_all (m ++ ".") "" name = f ->
    ctx_get c name = None -> ctx_get c m = Some (mkSym m (KImport q)) -> mexists q = true ->
    get_call_target mexists c name = Some (mkSym f (KImport (q ++ "." ++ f))).
Proof. exact module_member_call_targets_the_import. Qed.
Theorem C08_member_of_non_module_import_has_no_target :
  forall mexists c m f q,
    let name := (m ++ "." ++ f)%string in
    replace_all "*" "" (without_call_brackets name) = name -> split_dot name = [m; f] ->
    starts_with "@" name = false -> contains "[]" name = false -> contains "." name = true ->
    ctx_get c name = None -> ctx_get c m = Some (mkSym m (KImport q)) -> mexists q = false ->
    get_call_target mexists c name = None.
Proof. exact member_of_non_module_import_has_no_target. Qed.
Print Assumptions C08_module_member_call_targets_the_import.
