(* C02 - Nothing is reported that the body does not do (no phantom name, right kind).
   Model: model/FuncAn.v; spec: spec/Occurs.v (allowed_body = every access of the body, full traversal,
   plus the documented derivations: receiver prefixes of called methods, targets of getattr-family
   calls and their prefixes).  The unbounded soundness claim is carried, in this version, by the
   exhaustive-within-bound correspondence (./check C02 judges rattr's own IR with the Coq checker
   `phantoms`); what is proved for all inputs is below. *)
From RattrV Require Import Base Str PyAst Naming Spell Context FuncAn Occurs FaCheck FaSpecCheck FaFacts FaMono C01Proofs C02Proofs C01Complete C02Sound.
Open Scope string_scope.
Open Scope list_scope.

(* a variable is reported under the kind of its expression context and under no other kind; nothing
   else of the IR changes - for every identifier, context, position and state *)
Theorem C02_name_reported_under_its_kind_only :
  forall mexists modulename id c p s,
    let s' := snd (visit mexists modulename (EName id c p) s) in
    fst (visit mexists modulename (EName id c p) s) = Ok tt /\
    v_calls s' = v_calls s /\ v_ctx s' = v_ctx s /\
    match c with
    | Load => v_gets s' = radd (id, id) (v_gets s) /\ v_sets s' = v_sets s /\ v_dels s' = v_dels s
    | Store => v_sets s' = radd (id, id) (v_sets s) /\ v_gets s' = v_gets s /\ v_dels s' = v_dels s
    | Del => v_dels s' = radd (id, id) (v_dels s) /\ v_gets s' = v_gets s /\ v_sets s' = v_sets s
    end.
Proof. exact visit_name_exact. Qed.
Print Assumptions C02_name_reported_under_its_kind_only.

(* helper functions never touch the IR (they only read the state) *)
Theorem C02_helpers_are_readers :
  (forall n, reader (unravel_names n)) /\ (forall a, reader (arg_names a)) /\
  (forall mexists v, reader (class_in_rhs mexists v)) /\ (forall v, reader (namedtuple_in_rhs v)).
Proof.
  repeat split; intros; first [apply reader_unravel_names | apply reader_arg_names | apply reader_class_in_rhs | apply reader_namedtuple_in_rhs].
Qed.

Example C02_no_phantoms_on_samples : phantoms_of sample_body = [] /\ phantoms_of w2 = [] /\ phantoms_of w3 = [].
Proof. exact sample_no_phantoms. Qed.
Example C02_receiver_prefix_rule :
  receiver_prefixes "a.b.c.m()" = [("a.b", "a"); ("a.b.c", "a")] /\ receiver_prefixes "f()" = [] /\ receiver_prefixes "a.m()" = [].
Proof. exact receiver_prefix_example. Qed.

(* PROVED on the call-free load fragment (proofs/C01Complete.v), any depth: whatever the visit adds to the gets is
   an access `occs false` lists for the expression, and sets, dels and calls are untouched - no phantom name, no
   wrong kind *)
Theorem C02_call_free_loads_report_nothing_else :
  forall mexists modulename n, CF n -> forall s,
    (forall x, rmem x (v_gets (snd (visit mexists modulename n s))) = true ->
               rmem x (v_gets s) = true \/ In (AGet, fst x) (occs false n))
    /\ v_sets (snd (visit mexists modulename n s)) = v_sets s
    /\ v_dels (snd (visit mexists modulename n s)) = v_dels s
    /\ v_calls (snd (visit mexists modulename n s)) = v_calls s.
Proof. intros mexists modulename n Hcf s. exact (call_free_loads_report_nothing_else mexists modulename n Hcf s). Qed.
Print Assumptions C02_call_free_loads_report_nothing_else.
