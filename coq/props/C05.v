(* C05 - Results are deterministic and independent of definition order and unrelated code.
   Model: model/Results.v; the definition order (order of the file IR) and the iteration order of each
   call set are explicit inputs of `generate`.  ./check C05 runs every program under permutations of its
   definitions, with unrelated definitions added, a second generation in the same process, and as real
   subprocesses under several PYTHONHASHSEED values. *)
From RattrV Require Import Base Str ModNames Context CallSwaps PyBind FuncAn Results ResCheck Closure ResSpecCheck ResProofs RootCtx RootCheck RootSpec RootProofs.
From Coq Require Import Permutation.
Open Scope string_scope.
Open Scope list_scope.

Definition C05_order_independent : Prop :=
  forall E1 E2 s id, (forall e, In e E1 <-> In e E2) ->
    gets_of (generate noexcl E1 E1 s []) id = gets_of (generate noexcl E2 E2 s []) id.

(* REFUTED: the same four functions in two definition orders (known finding KF_C05_1) *)
Theorem C05_refuted : ~ C05_order_independent.
Proof.
  intros H. destruct order_dependence as (A & B & _).
  assert (P : forall e, In e E_root_first <-> In e E_root_last).
  { intros e. unfold E_root_first, E_root_last. simpl. tauto. }
  specialize (H E_root_first E_root_last S_dia "root" P). rewrite A, B in H. discriminate.
Qed.
Print Assumptions C05_refuted.

(* What is order-independent for all files: a function with no resolvable call (results = own accesses),
   and monotonicity - whatever was already folded into a callee earlier can only add to a later caller *)
Theorem C05_leaf_functions_order_independent :
  forall excluded E e, (forall c, In c (fe_calls e) -> resolve excluded E c = None) ->
    forall s, fold_tree (match build_tree excluded E e with Some n => n | None => [] end) s = Some s.
Proof.
  intros excluded E e H s. rewrite (no_resolvable_call_single_node excluded E e H). reflexivity.
Qed.
Theorem C05_earlier_generations_only_add :
  forall nodes s s', fold_tree nodes s = Some s' -> store_incl s s'.
Proof. exact fold_tree_grows. Qed.
Print Assumptions C05_leaf_functions_order_independent.

(* ---------- the analysis phase: the root context does not depend on where a definition stands ---------- *)
(* model/RootCtx.v.  For a module that offers every name once and neither deletes nor star-imports (the boolean
   premises are spec/RootSpec.v order_premises, evaluated per generated module), ANY reordering of the top-level
   statements is registered without a fatal diagnostic exactly when the original is, and gives every name the same
   symbol: forward references and reordered definitions resolve alike.  ./check C05 re-analyses such modules with
   their statements reversed and shuffled and compares the symbol tables. *)
Theorem C05_root_context_independent_of_statement_order :
  forall locatable blacklisted base is_init stmts stmts' sc sc1,
    Permutation stmts stmts' ->
    forallb plain_stmt stmts && nodupb (map s_name (flat_map (binds base is_init) stmts)) = true ->
    regs locatable blacklisted base is_init stmts sc = ROk sc1 ->
    exists sc2, regs locatable blacklisted base is_init stmts' sc = ROk sc2 /\ forall n, scope_get sc2 n = scope_get sc1 n.
Proof. exact root_context_independent_of_statement_order_b. Qed.
Print Assumptions C05_root_context_independent_of_statement_order.
