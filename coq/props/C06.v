(* C06 - Following an import gives the same answer as defining the callee locally.
   Model: model/Imports.v (resolve_import's ladder and re-export recursion; linking of call records into the
   single-environment model of model/Results.v).  Oracles: the module locator (C13), blacklist / pip / stdlib
   classification, the options.  What the call site records for each import form comes from the real
   FunctionAnalyser run (C09 / C10 / the FuncAn model); ./check C06 compares every generated project, split
   over modules with every import form, with its single-file merge on the real pipeline. *)
From RattrV Require Import Base Str Context CallSwaps FuncAn Results Imports ImpProofs.
Open Scope string_scope.
Open Scope list_scope.

Section C06.
  Variable module_of : string -> option string.
  Variable blacklisted in_pip in_stdlib : string -> bool.
  Variable follow_pip follow_stdlib : bool.

  (* through any chain of re-exports that keeps the local name - of any length - the resolver reaches the
     defining module's function or class *)
  Theorem C06_resolver_follows_reexport_chains :
    forall irs vis tn tq mn ln c,
      chain module_of blacklisted in_pip in_stdlib follow_pip follow_stdlib irs vis tn tq mn ln c ->
      exists n, forall fuel, n <= fuel ->
        resolve_import module_of blacklisted in_pip in_stdlib true follow_pip follow_stdlib fuel irs vis tn tq = RTarget mn ln c.
  Proof. intros. eapply resolve_follows_chain; [reflexivity|eassumption]. Qed.

  (* and an imported call then expands exactly like a local call to that definition: same entry, same call
     swaps, same fold *)
  Theorem C06_imported_call_expands_like_local_call :
    forall fl fuel irs owner excluded E c nm q mn ln,
      c_target c = Some (mkSym nm (KImport q)) ->
      resolve_import module_of blacklisted in_pip in_stdlib fl follow_pip follow_stdlib fuel irs [] nm q = RTarget mn ln false ->
      resolve excluded E (link_call module_of blacklisted in_pip in_stdlib fl follow_pip follow_stdlib fuel irs owner c)
      = resolve excluded E (mkCallRec (c_name c) (c_args c) (c_kw c) (Some (mkSym (qid mn ln) KFunc))).
  Proof. intros. eapply link_import_like_local; eassumption. Qed.

  (* a call that does not resolve contributes nothing *)
  Theorem C06_unresolved_import_contributes_nothing :
    forall fl fuel irs owner excluded E c nm q,
      c_target c = Some (mkSym nm (KImport q)) ->
      (forall mn ln k, resolve_import module_of blacklisted in_pip in_stdlib fl follow_pip follow_stdlib fuel irs [] nm q <> RTarget mn ln k) ->
      resolve excluded E (link_call module_of blacklisted in_pip in_stdlib fl follow_pip follow_stdlib fuel irs owner c) = None.
  Proof. intros. eapply link_unresolved_contributes_nothing; eassumption. Qed.
End C06.
Print Assumptions C06_resolver_follows_reexport_chains.
Print Assumptions C06_imported_call_expands_like_local_call.

Example C06_chain_of_two : resolve_import ex_locator no no no true false false 5 ch [] "f" "a.f" = RTarget "m" "f" false.
Proof. exact chain_example. Qed.

(* REFUTED on the faithful model:
   - `from m import f as g` : the definition is looked up under the alias (finding KF_C06_1) *)
Theorem C06_aliased_from_import_refuted :
  resolve_import ex_locator no no no true false false 3 [ex_m] [] "f" "m.f" = RTarget "m" "f" false
  /\ resolve_import ex_locator no no no true false false 3 [ex_m] [] "g" "m.f" = RNone.
Proof. split; [exact plain_from_import_resolves|exact aliased_from_import_refuted]. Qed.

(* import cycles terminate: a name re-exported in a cycle is cut at its second visit, and the resolver never
   runs out of fuel in any environment (after fix 99a8b20; before it the model ran out of every fuel and rattr
   ended in RecursionError) *)
Theorem C06_reexport_cycle_terminates :
  forall fuel, 3 <= fuel -> resolve_import ex_locator no no no true false false fuel cyc [] "f" "a.f" = RNone.
Proof. exact reexport_cycle_terminates. Qed.
Theorem C06_resolver_always_terminates :
  forall module_of blacklisted in_pip in_stdlib follow_local follow_pip follow_stdlib irs (Q : list string),
    (forall m ln n q, In m irs -> clookup (m_ctx m) ln = Some (MImport n q) -> In q Q) ->
    forall fuel vis tn tq, In tq Q -> unvisited Q vis + 1 <= fuel ->
      resolve_import module_of blacklisted in_pip in_stdlib follow_local follow_pip follow_stdlib fuel irs vis tn tq <> RFuel.
Proof. intros. eapply resolve_never_out_of_fuel; eassumption. Qed.
Print Assumptions C06_resolver_always_terminates.
