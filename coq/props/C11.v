(* C11 - rattr_ignore, rattr_results and exclusion patterns are honoured everywhere.
   Model: model/Annot.v (which definitions get an IR entry and from where; safe_eval / argument parsing /
   validate_rattr_results) on top of model/Results.v (what an entry contributes to callers).
   Oracles: the --exclude regular expressions, rattr's identifier pattern. *)
From RattrV Require Import Base Str Context CallSwaps FuncAn Results Annot C11Proofs.
Open Scope string_scope.
Open Scope list_scope.

Section C11.
  Variable name_ok : string -> bool.
  Variable excluded : string -> bool.

  (* an ignored or excluded function / class has no IR entry: it cannot be a key of the results ... *)
  Theorem C11_ignored_or_excluded_never_in_results :
    forall defs l t src,
      file_entries name_ok excluded defs = FEntries l ->
      (forall t', In t' defs -> td_name t' = td_name t -> t' = t) -> In t defs ->
      (td_kind t = DFunc \/ td_kind t = DClass) -> (td_ignore t = true \/ excluded (td_name t) = true) ->
      ~ In (td_name t, src) l.
  Proof. exact (ignored_or_excluded_has_no_entry name_ok excluded). Qed.

  (* ... and no call, from any function of any file, expands to it *)
  Theorem C11_no_entry_never_contributes :
    forall excl (E : env) c nm k, c_target c = Some (mkSym nm k) -> (forall e, In e E -> fe_id e <> nm) -> resolve excl E c = None.
  Proof. exact no_entry_no_contribution. Qed.

  (* a rattr_results declaration is accepted exactly when it is well formed (independent inductive
     definition); everything else is the fatal diagnostic - the model has no third outcome *)
  Theorem C11_declaration_accepted_iff_well_formed :
    forall pos kw, (exists d, annotation name_ok pos kw = AOk d) <-> wf_annotation name_ok pos kw.
  Proof. exact (annotation_accepts_iff_wf name_ok). Qed.

  Theorem C11_malformed_declaration_is_fatal :
    forall defs t pos kw,
      In t defs -> (td_kind t = DFunc \/ td_kind t = DClass) -> td_ignore t = false -> excluded (td_name t) = false ->
      td_results t = Some (pos, kw) -> ~ wf_annotation name_ok pos kw -> file_entries name_ok excluded defs = FFatal.
  Proof. exact (malformed_declaration_is_fatal name_ok excluded). Qed.

  (* the entry of a declared function is its declaration, whatever its body *)
  Theorem C11_declared_function_has_exactly_the_declaration :
    forall defs l t pos kw src,
      file_entries name_ok excluded defs = FEntries l -> (forall t', In t' defs -> td_name t' = td_name t -> t' = t) -> In t defs ->
      (td_kind t = DFunc \/ td_kind t = DClass) -> td_results t = Some (pos, kw) ->
      In (td_name t, src) l -> exists d, annotation name_ok pos kw = AOk d /\ src = FromDecl d.
  Proof. exact (results_entry_is_declaration name_ok excluded). Qed.
End C11.
Print Assumptions C11_ignored_or_excluded_never_in_results.
Print Assumptions C11_declaration_accepted_iff_well_formed.
Print Assumptions C11_declared_function_has_exactly_the_declaration.

(* REFUTED for lambdas and static methods (finding KF_C11_1): the exclusion is not consulted for them *)
Theorem C11_excluded_lambda_and_static_method_refuted :
  file_entries (fun _ => true) secret [mkDef "lam_secret" DLambda false None; mkDef "K.sm_secret" (DStatic "K") false None; mkDef "fn_secret" DFunc false None]
  = FEntries [("lam_secret", FromBody); ("K.sm_secret", FromBody)].
Proof. exact excluded_lambda_still_has_entry. Qed.
