(* C01 - Every access in a function body is reported.

   Model: model/FuncAn.v (FunctionAnalyser; tied to /repo by the shared correspondence run of
   ./check C01|C02|C09|C17 on generated bodies).  Spec: spec/Occurs.v (`occs true body` = every access
   the body performs; `occs false body` = the same outside the positions of the listed finding classes). *)
From RattrV Require Import Base Str PyAst Naming Spell Context FuncAn Occurs FaCheck FaSpecCheck FaFacts FaMono C01Proofs.
Open Scope string_scope.
Open Scope list_scope.

(* Full statement: whenever the analysis of a body ends normally, every access it performs is reported. *)
Definition C01_full : Prop :=
  forall body x, fst (run body) = Ok tt -> occ_mem x (flat_map (occs true) body) = true ->
                 reported_in (snd (run body)) x = true.

(* REFUTED, once per finding class, by kernel-checked witnesses that are also replayed on rattr *)
Theorem C01_refuted : ~ C01_full.
Proof.
  intros H. destruct miss_slice as (Hok & Hin & Hno).
  rewrite (H w1 (AGet, "i.j") Hok Hin) in Hno. discriminate.
Qed.
Print Assumptions C01_refuted.
Theorem C01_refuted_each_class :
  misses w1 (AGet, "i.j") /\ misses w2 (AGet, "y.z") /\ misses w2 (ACall, "p.m") /\ misses w3 (AGet, "v.w")
  /\ misses w4 (AGet, "x.dv") /\ misses w5 (AGet, "a").
Proof.
  repeat split; first [apply miss_slice | apply miss_inner_call_arg | apply miss_inner_call
                      | apply miss_attr_call_arg | apply miss_nested_default | apply miss_deep_root].
Qed.

(* What holds for every node, every state and every outcome: no visitor ever removes anything from
   the IR or from the warnings (so what was reported while visiting one statement is still
   reported at the end, and a run that ended Fatal / Raise still only added) *)
Theorem C01_visitors_only_add :
  forall mexists modulename n s, ext s (snd (visit mexists modulename n s)).
Proof. exact visit_only_adds. Qed.
Print Assumptions C01_visitors_only_add.

(* a statement kind without a dedicated visitor (every present and future ast class that lands in
   `Other`, plus displays, dict displays, keywords, with-items) visits ALL of its children, in order *)
Theorem C01_generic_visit_descends_everywhere :
  forall mexists modulename kind binds children,
    visit mexists modulename (Other kind binds children) = mapM_ (visit mexists modulename) children.
Proof. exact visit_other. Qed.

Example C01_no_finding_position_all_reported :
  fst (run sample_body) = Ok tt
  /\ forallb (reported_in (snd (run sample_body))) (flat_map (occs true) sample_body) = true
  /\ List.length (flat_map (occs true) sample_body) = 13.
Proof. exact sample_all_reported. Qed.
