(* C01 - Every access in a function body is reported.

   Model: model/FuncAn.v (FunctionAnalyser; tied to /repo by the shared correspondence run of
   ./check C01|C02|C09|C17 on generated bodies).  Spec: spec/Occurs.v (`occs true body` = every access
   the body performs; `occs false body` = the same outside the positions of the listed finding classes). *)
From RattrV Require Import Base Str PyAst Naming Spell Context FuncAn Occurs FaCheck FaSpecCheck FaFacts FaMono C01Proofs C01Complete C01Calls C01Assign.
Open Scope string_scope.
Open Scope list_scope.

(* Full statement: whenever the analysis of a body ends normally, every access it performs is reported. *)
Definition C01_full : Prop :=
  forall body x, fst (run body) = Ok tt -> occ_mem x (flat_map (occs true) body) = true ->
                 reported_in (snd (run body)) x = true.

(* REFUTED, once per finding class, by kernel-checked witnesses that are also replayed on rattr *)
Theorem C01_refuted : ~ C01_full.
Proof.
  intros H. destruct miss_inner_call_arg as (Hok & Hin & Hno).
  rewrite (H w2 (AGet, "y.z") Hok Hin) in Hno. discriminate.
Qed.
Print Assumptions C01_refuted.
Theorem C01_refuted_each_class :
  misses w2 (AGet, "y.z") /\ misses w2 (ACall, "p.m") /\ misses w3 (AGet, "v.w")
  /\ misses w4 (AGet, "x.dv") /\ misses w5 (AGet, "a").
Proof.
  repeat split; first [apply miss_inner_call_arg | apply miss_inner_call
                      | apply miss_attr_call_arg | apply miss_nested_default | apply miss_deep_root].
Qed.

(* the index / slice of every subscript on a spine IS visited (finding KF_C01_1 before its repair) *)
Example C01_slices_are_reported :
  fst (run w1) = Ok tt /\ forallb (reported_in (snd (run w1))) [(AGet, "i.j"); (AGet, "i.a"); (AGet, "i.b")] = true.
Proof. exact slices_are_reported. Qed.

(* What holds for every node, every state and every outcome: no visitor ever removes anything from
   the IR or from the warnings (so what was reported while visiting one statement is still
   reported at the end, and a run that ended Fatal / Raise still only added) *)
Theorem C01_visitors_only_add :
  forall mexists modulename n s, ext s (snd (visit mexists modulename n s)).
Proof. exact visit_only_adds. Qed.
Print Assumptions C01_visitors_only_add.

(* a statement kind without a dedicated visitor (every present and future ast class that lands in
   `Other`, plus displays, dict displays, keywords, with-items) visits ALL of its children, in order *)
Theorem C01_generic_visit_descends_everywhere :
  forall mexists modulename kind binds children,
    visit mexists modulename (Other kind binds children) =
    match binds with
    | [nm] => if String.eqb kind "ExceptHandler"
              then (* the handler's name is defined around the visit of ALL the children (fix 5c7d323) *)
                   mod_ctx (fun c => ctx_add c (mkSym nm KName) false) ;;; mapM_ (visit mexists modulename) children ;;;
                   mod_ctx (fun c => ctx_remove c nm)
              else mapM_ (visit mexists modulename) children
    | _ => mapM_ (visit mexists modulename) children
    end.
Proof. exact visit_other_gen. Qed.

Example C01_no_finding_position_all_reported :
  fst (run sample_body) = Ok tt
  /\ forallb (reported_in (snd (run sample_body))) (flat_map (occs true) sample_body) = true
  /\ List.length (flat_map (occs true) sample_body) = 13.
Proof. exact sample_all_reported. Qed.

(* PROVED for every expression of the call-free load fragment, of any depth: names, attribute / subscript / starred
   chains over them, and ANY node class without a dedicated visitor (binary, boolean, comparison, conditional, unary
   operators, f-strings, expression statements, if / while / assert / raise bodies, ...), tuples, lists, sets, dicts -
   the visit ends normally and reports every access `occs false` lists, all of them gets *)
Theorem C01_call_free_loads_are_complete :
  forall mexists modulename n, CF n -> forall s,
    fst (visit mexists modulename n s) = Ok tt
    /\ forall nm, In (AGet, nm) (occs false n) -> exists b, rmem (nm, b) (v_gets (snd (visit mexists modulename n s))) = true.
Proof. intros mexists modulename n Hcf s. exact (call_free_loads_are_complete mexists modulename n Hcf s). Qed.
Theorem C01_call_free_occurrences_are_gets :
  forall n, CF n -> forall o, In o (occs false n) -> fst o = AGet.
Proof. exact cf_occs_are_gets. Qed.
Print Assumptions C01_call_free_loads_are_complete.

(* non-vacuity: (a.b + c[0]) * -d.e, written with the generic node class *)
Definition cf_example : node :=
  Other "BinOp" [] [Other "BinOp" [] [EAttr (EName "a" Load (1, 1)) "b" Load (1, 1); ESub (EName "c" Load (1, 7)) (EConst None) Load (1, 7)];
                    Other "UnaryOp" [] [EAttr (EName "d" Load (1, 16)) "e" Load (1, 16)]].
Example C01_fragment_is_inhabited :
  CF cf_example /\ map snd (occs false cf_example) = ["a.b"; "c[]"; "d.e"].
Proof.
  split; [|reflexivity].
  repeat (constructor; simpl; try exact I; try reflexivity).
Qed.

(* ... and with CALLS: load expressions whose callees no custom analyser claims in the current scope chain (the
   getattr family, sorted, collections.defaultdict are the custom ones), arguments and keyword arguments included,
   nested to any depth - the visit ends normally, leaves the scope chain alone and reports every get and every call
   that `occs false` lists (which prunes exactly the finding-class positions: slices, arguments of a call that sits
   inside a spine) *)
Theorem C01_loads_with_calls_are_complete :
  forall mexists modulename c n, CFC n -> NoCustom mexists modulename c n -> forall s, v_ctx s = c ->
    fst (visit mexists modulename n s) = Ok tt /\ v_ctx (snd (visit mexists modulename n s)) = c
    /\ (forall nm, In (AGet, nm) (occs false n) -> reported nm (snd (visit mexists modulename n s)))
    /\ (forall nm, In (ACall, nm) (occs false n) -> call_reported nm (snd (visit mexists modulename n s))).
Proof. intros mexists modulename c n Hcf Hnc. exact (loads_with_calls_are_complete mexists modulename c n Hcf Hnc). Qed.
Print Assumptions C01_loads_with_calls_are_complete.

(* non-vacuity: f(a.b, k=c.d).e + g( *h )  in an empty scope chain *)
Definition cfc_example : node :=
  Other "BinOp" []
    [EAttr (ECall (EName "f" Load (1, 0)) [EAttr (EName "a" Load (1, 2)) "b" Load (1, 2)] [EKw (Some "k") (EAttr (EName "c" Load (1, 9)) "d" Load (1, 9))] (1, 0)) "e" Load (1, 0);
     ECall (EName "g" Load (1, 18)) [EStar (EName "h" Load (1, 21)) Load (1, 20)] [] (1, 18)].
Example C01_calls_fragment_is_inhabited :
  CFC cfc_example /\ NoCustom (fun _ => false) None [[]] cfc_example
  /\ occs false cfc_example = [(AGet, "f().e"); (ACall, "g"); (AGet, "*h")].
Proof.
  split; [|split; [|reflexivity]]; repeat (constructor; simpl; try exact I; try reflexivity).
Qed.

(* ---------- a binding statement (proofs/C01Assign.v) ---------- *)
(* `t = v` with one variable on the left and any expression of the fragment above on the right that is not itself a
   call, a tuple / list display or a lambda: the statement ends normally, t is reported under sets and is visible
   afterwards (the link to C17), every load and call of v is reported *)
Theorem C01_simple_assignment_is_complete :
  forall mexists modulename c t pt v p,
    CFC v -> FuncAn.is_call v = false -> FuncAn.is_seq_tl v = false -> mem t ATTR_BUILTINS = false ->
    isidentifier t = true ->
    NoCustom mexists modulename (ctx_add c (mkSym t KName) false) v ->
    forall s, v_ctx s = c ->
      let r := visit mexists modulename (SAssign [EName t Store pt] v p) s in
      fst r = Ok tt
      /\ v_ctx (snd r) = ctx_add c (mkSym t KName) false
      /\ ctx_in (v_ctx (snd r)) t = true
      /\ rmem (t, t) (v_sets (snd r)) = true
      /\ (forall nm, In (AGet, nm) (occs false v) -> reported nm (snd r))
      /\ (forall nm, In (ACall, nm) (occs false v) -> call_reported nm (snd r)).
Proof. exact simple_assignment_is_complete. Qed.
Print Assumptions C01_simple_assignment_is_complete.
