(* C19 - A cache hit is declared only when a fresh run would give the cached results.
   Model: model/Cache.v (what a run records, when a hit is declared, main()'s protocol over histories of
   edits, option changes, outside interference with the cache file, runs and forced refreshes) and
   model/CacheJson.v (how the file's JSON structures into a cache document, attrs defaults included).
   Parameters of the theorems, recorded in the trusted base: file contents and their hash (md5) with
   hash_injective; the analysis as a function of the world with the FRAME hypothesis "it depends only on what
   the cache records" - ./check C19 tests that hypothesis on every real run (cache file after each run of a
   scripted history = the from-scratch document of that moment). *)
From RattrV Require Import Base Str Json Cache CacheJson C19Proofs C19Json.
Open Scope string_scope.
Open Scope list_scope.

Section C19.
  Variable content : Type.
  Variable hash : content -> string.
  Variable results : Type.
  Variable analysis : world content -> results.
  Variable recorded : world content -> list string.
  Hypothesis hash_injective : forall a b, hash a = hash b -> a = b.
  Hypothesis frame : forall w0 w, agree content recorded w0 w -> analysis w = analysis w0.

  (* every run of every history - whatever was edited (target, direct or transitive import, anything else),
     whichever option, version or plugin set changed, however often the cache file was deleted, truncated,
     replaced by something that does not structure or by an older document, refreshed or not - reports what
     a from-scratch analysis of the world at that moment gives, hit or miss *)
  Theorem C19_every_run_reports_fresh_results :
    forall ops st,
      Forall (benign content hash results analysis recorded) ops ->
      Inv content hash results analysis recorded (snd st) ->
      Forall (fun wr => r_results (snd wr) = analysis (fst wr))
             (snd (run_history content hash results analysis recorded st ops)).
  Proof. exact (every_run_reports_fresh_results content hash results analysis recorded hash_injective frame). Qed.

  (* a hit means nothing the cache records has changed *)
  Theorem C19_hit_only_if_unchanged :
    forall w0 w,
      ~ agree content recorded w0 w ->
      r_hit (snd (run_step content hash results analysis recorded false w
                           (CDoc (snapshot content hash results analysis recorded w0)))) = false.
  Proof. exact (change_is_detected content hash results analysis recorded hash_injective). Qed.

  (* missing or malformed: never a hit; the run re-analyses and writes the from-scratch document *)
  Theorem C19_missing_or_malformed_is_stale :
    forall w cf, (cf = CMalformed \/ cf = CAbsent) ->
      r_hit (snd (run_step content hash results analysis recorded false w cf)) = false
      /\ fst (run_step content hash results analysis recorded false w cf)
         = CDoc (snapshot content hash results analysis recorded w).
  Proof. exact (malformed_is_stale content hash results analysis recorded). Qed.
End C19.
Print Assumptions C19_every_run_reports_fresh_results.
Print Assumptions C19_hit_only_if_unchanged.

(* the document layer *)
Theorem C19_written_document_reads_back :
  forall c, c_filepath c <> "" -> Forall (fun ph : string * string => fst ph <> "") (c_imports c) ->
            wf_results (c_results c) -> de_cache (ser_cache c) = CDoc c.
Proof. exact read_back. Qed.
Theorem C19_not_json_or_not_an_object_is_never_trusted :
  forall d, match d with DAbsent | DNotJson => True | DJson (JObj _) => False | DJson _ => True end ->
            match read_cache d with CDoc _ => False | _ => True end.
Proof. exact not_a_document_is_never_trusted. Qed.
Theorem C19_wrongly_typed_field_is_malformed :
  forall kvs,
  (exists j, jget kvs "filepath" = Some j /\ match j with JStr _ => False | _ => True end)
  \/ (exists j, jget kvs "imports" = Some j /\ match j with JArr _ | JObj _ | JStr _ => False | _ => True end)
  \/ (exists j, jget kvs "results" = Some j /\ match j with JObj _ => False | _ => True end) ->
  de_cache (JObj kvs) = CMalformed.
Proof. exact wrong_type_is_malformed. Qed.
Print Assumptions C19_written_document_reads_back.

(* non-vacuity: a concrete world, hash and analysis satisfy the hypotheses; its history hits and misses *)
Example C19_instance_hits :
  map (fun wr => r_hit (snd wr)) (snd (run_history string ex_hash (list string) ex_analysis ex_recorded (ex_world, CAbsent) ex_ops))
  = [false; true; false; true; true; false; false; false; false; false].
Proof. exact ex_history_hits. Qed.

(* REFUTED without the side conditions:
   - a document no run wrote (imports emptied, which structuring accepts: finding KF_C19_2) *)
Theorem C19_tampered_document_refuted :
  exists ops, ~ Forall (fun wr => r_results (snd wr) = ex_analysis (fst wr))
                       (snd (run_history string ex_hash (list string) ex_analysis ex_recorded (ex_world, CAbsent) ops)).
Proof. exact tampered_document_refuted. Qed.
Theorem C19_dropped_imports_still_structure :
  exists kvs c, jget kvs "imports" = None /\ de_cache (JObj kvs) = CDoc c /\ c_imports c = [].
Proof. exact dropped_imports_still_structure. Qed.
(* - an analysis that reads a file the cache does not record *)
Theorem C19_unrecorded_dependency_refuted :
  exists ops, Forall (benign string ex_hash (list string) leaky_analysis leaky_recorded) ops /\
              ~ Forall (fun wr => r_results (snd wr) = leaky_analysis (fst wr))
                       (snd (run_history string ex_hash (list string) leaky_analysis leaky_recorded (ex_world, CAbsent) ops)).
Proof. exact unrecorded_dependency_refuted. Qed.
Print Assumptions C19_unrecorded_dependency_refuted.
