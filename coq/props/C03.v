(* C03 - Results are the call-graph closure of own accesses under argument substitution.
   Model: model/Results.v (BFS call tree with per-root `seen`, reverse-BFS fold into ONE shared store,
   string-level unbind_name); spec: spec/Closure.v (lower = derivations along call paths repeating no call
   record, upper = derivable by finitely many substitutions, binding by Python's rules).  ./check C03 judges
   rattr's own results with the Coq checkers lower_ok / upper_ok / calls_ok and compares model and rattr
   exactly (results and mutated IR). *)
From RattrV Require Import Base Str Context CallSwaps PyBind FuncAn Results ResCheck Closure ResSpecCheck ResProofs ResFuel ResOneLevel.
Open Scope string_scope.
Open Scope list_scope.

(* The full statement is refuted twice (both listed as known findings): *)
(* (1) a compound argument leaks the callee's parameter at the second level *)
Theorem C03_refuted_compound_argument :
  gets_of (generate noexcl E_chain E_chain S_chain []) "top" = ["t.outer"; "t.outer.inner"; "m.inner.leafattr"]
  /\ map fst (fst (fst (lower noexcl E_chain S_chain (mkF "top" KFunc (if1 "t") [mkCallRec "mid" ["t.outer"] [] (fsym "mid")]))))
     = ["t.outer"; "t.outer.inner"; "t.outer.inner.leafattr"]
  /\ KF_C03_1 noexcl E_chain = true.
Proof. exact compound_argument_leaks. Qed.
Print Assumptions C03_refuted_compound_argument.
(* (2) a callee reached under two bindings is expanded once per root; what the caller gets depends on definition order *)
Theorem C03_refuted_shared_callee :
  gets_of (generate noexcl E_root_first E_root_first S_dia []) "root" = ["a"; "b"; "a.gattr"]
  /\ gets_of (generate noexcl E_root_last E_root_last S_dia []) "root" = ["a"; "b"; "a.gattr"; "b.gattr"]
  /\ KF_C03_2 noexcl E_root_first = true.
Proof. exact order_dependence. Qed.

(* Proved for every tree, store and call (no bound on graph size):
   the fold only ever adds to the store - nothing a function already reports is lost by inlining *)
Theorem C03_inlining_only_adds :
  forall nodes s s', fold_tree nodes s = Some s' -> store_incl s s'.
Proof. exact fold_tree_grows. Qed.
Print Assumptions C03_inlining_only_adds.

(* a name whose base is not a bound parameter passes unchanged; a bound parameter's prefix is replaced by
   the argument text and the new base is THAT TEXT - exactly the compound-argument defect *)
Theorem C03_unbound_names_pass_unchanged :
  forall swaps x, dget swaps (snd x) = None -> unbind_name x (swap_for swaps (snd x)) = Some x.
Proof. exact unbind_unmapped. Qed.
Theorem C03_bound_prefix_is_replaced :
  forall b rest a, b <> a -> starts_with "*" (b ++ rest)%string = false ->
    unbind_name ((b ++ rest)%string, b) a = Some ((a ++ rest)%string, a).
Proof. exact unbind_rebases. Qed.
Print Assumptions C03_bound_prefix_is_replaced.

(* a function with no resolvable call gets a one-node tree: its results are its own accesses *)
Theorem C03_no_resolvable_call_no_inlining :
  forall excluded E e, (forall c, In c (fe_calls e) -> resolve excluded E c = None) ->
    build_tree excluded E e = Some [mkT e None []].
Proof. exact no_resolvable_call_single_node. Qed.

(* non-vacuity: a tree-shaped program with simple arguments (positional, keyword, *args) is exactly the closure *)
Example C03_simple_tree_is_closure :
  lower_ok ok_case = true /\ upper_ok ok_case = true /\ calls_ok ok_case = true
  /\ KF_C03_1 noexcl E_ok = false /\ KF_C03_2 noexcl E_ok = false
  /\ gets_of (generate noexcl E_ok E_ok S_ok []) "top" = ["t.own"; "u.pa"; "@Tuple.count"; "t.ma"; "u.kb"].
Proof. exact simple_tree_is_closure. Qed.

(* the call tree of every function of the environment is always built: the BFS never runs out of its fuel
   2 + total_calls E - recursion, cycles and diamonds included *)
Theorem C03_call_tree_always_built :
  forall excluded (E : env) root, In root E -> build_tree excluded E root <> None.
Proof. exact build_tree_total. Qed.
Print Assumptions C03_call_tree_always_built.

(* depth one, for EVERY caller, callee, call and store: a function whose only call resolves to a function without
   resolvable calls gets exactly its own accesses plus the callee's accesses rewritten by the call's substitution
   (the substitution itself is C04's) - and no other entry of the store changes *)
Theorem C03_one_level_tree :
  forall excluded (E : env) f g c,
    fe_calls f = [c] -> resolve excluded E c = Some g -> (forall c', In c' (fe_calls g) -> resolve excluded E c' = None) ->
    build_tree excluded E f = Some [mkT f None [1]; mkT g (Some c) []].
Proof. exact one_level_tree. Qed.
Theorem C03_one_level_closure :
  forall (f g : fentry) (c : callrec) s,
    let swaps := fst (construct_call_swaps (fe_iface g) (mkCall (c_args c) (c_kw c))) in
    let '(gg, gs, gd) := get_ir s (fe_id g) in
    fold_tree [mkT f None [1]; mkT g (Some c) []] s =
    match unbind_all swaps gg, unbind_all swaps gs, unbind_all swaps gd with
    | Some ug, Some us, Some ud =>
      let '(pg, ps, pd) := get_ir s (fe_id f) in
      Some (set_ir s (fe_id f) (union pg ug, union ps us, union pd ud))
    | _, _, _ => None
    end.
Proof. exact one_level_fold. Qed.
Print Assumptions C03_one_level_closure.
