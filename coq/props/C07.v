(* C07 - rattr always ends with results or its own diagnostic, never a traceback or hang.
   What a theorem can carry here: (a) termination of the modelled loops for every input - the import BFS with
   an explicit fuel bound, the visitors and resolvers that are structurally recursive Gallina functions (total
   by construction; the two fuelled recursions are the call-tree BFS and resolve_import); (b) which modelled
   stages can only end in a result or the fatal diagnostic (diagnostics / threshold cluster, rattr_results
   validation, cache reading); (c) kernel-checked witnesses that the faithful model RAISES on the listed shapes
   (the re-export cycle that used to recurse without bound is cut since fix 99a8b20: C07_import_resolver_terminates).  Crashes in code that is not modelled can only be met by the
   generated runs of ./check C07, which are testing and are labelled so in the evidence. *)
From RattrV Require Import Base Str PyAst Naming Context CallSwaps FuncAn Results Imports Annot ImpProofs ResFuel C07Proofs C11Proofs FaMono C01Complete.
Open Scope string_scope.
Open Scope list_scope.

(* the import BFS terminates: with a finite universe of origins and at most B imports per module the
   explicit fuel |queue| + |U| * B + 1 is never exhausted - for every import graph, cycles included *)
Theorem C07_import_bfs_terminates :
  forall module_of origin_of blacklisted in_pip in_stdlib follow_pip follow_stdlib imports_in has_source (U : list string) (B : nat),
    (forall q mn o, module_of q = Some mn -> origin_of mn = Some o -> In o U) ->
    (forall o, List.length (imports_in o) <= B) ->
    forall fuel queue seen acc,
      List.length queue + ImpProofs.unseen U seen * B + 1 <= fuel ->
      Imports.bfs module_of origin_of blacklisted in_pip in_stdlib follow_pip follow_stdlib imports_in has_source fuel queue seen acc <> None.
Proof. intros. eapply bfs_terminates; eassumption. Qed.
Print Assumptions C07_import_bfs_terminates.

(* the call-tree BFS of result generation terminates: its fuel is never exhausted *)
Theorem C07_call_tree_bfs_terminates :
  forall excluded (E : env) root, In root E -> build_tree excluded E root <> None.
Proof. exact build_tree_total. Qed.

(* a rattr_results declaration is accepted or answered with the fatal diagnostic - nothing else *)
Theorem C07_annotation_accepts_or_is_fatal :
  forall name_ok pos kw, (exists d, annotation name_ok pos kw = AOk d) \/ annotation name_ok pos kw = AFatal.
Proof. intros. destruct (annotation name_ok pos kw) as [d|]; [left; exists d; reflexivity|right; reflexivity]. Qed.

(* on the call-free load fragment (proofs/C01Complete.v) the visit always ends normally: neither the fatal
   diagnostic nor an escaping exception *)
Theorem C07_call_free_code_never_raises :
  forall mexists modulename n, CF n -> forall s, fst (visit mexists modulename n s) = Ok tt.
Proof. intros mexists modulename n Hcf s. exact (proj1 (call_free_loads_are_complete mexists modulename n Hcf s)). Qed.

(* REFUTED: the faithful model raises (finding KF_C07_4) ... *)
Theorem C07_unnameable_receiver_refuted :
  fst (analyse no_modules None w_store (init_state [[]])) = Raise "RattrBinOpInNameable"
  /\ fst (analyse no_modules None w_del (init_state [[]])) = Raise "RattrBinOpInNameable"
  /\ fst (analyse no_modules None w_for (init_state [[]])) = Raise "RattrBinOpInNameable".
Proof. exact store_through_unnameable_receiver_raises. Qed.
(* the import resolver terminates in every environment, re-export cycles included (after fix 99a8b20) *)
Theorem C07_import_resolver_terminates :
  forall module_of blacklisted in_pip in_stdlib follow_local follow_pip follow_stdlib irs (Q : list string),
    (forall m ln n q, In m irs -> clookup (m_ctx m) ln = Some (MImport n q) -> In q Q) ->
    forall fuel vis tn tq, In tq Q -> unvisited Q vis + 1 <= fuel ->
      resolve_import module_of blacklisted in_pip in_stdlib follow_local follow_pip follow_stdlib fuel irs vis tn tq <> RFuel.
Proof. intros. eapply resolve_never_out_of_fuel; eassumption. Qed.
Print Assumptions C07_unnameable_receiver_refuted.
