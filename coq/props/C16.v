(* C16 - Diagnostic verbosity and path formatting never change the analysis.
   About the GENERATED model gen/DiagGen.v (see props/C15.v).  -H / -T are not parameters of any
   generated function at all (the translator would fail closed if error.* or the threshold check
   read them); that no other module reads a verbosity / path-format option is the generated table
   lemma flag_readers_confined (proofs/TablesOk.v). *)
From RattrV Require Import DiagRun ExitSpec DiagAbs C15Proofs C16Proofs.
Open Scope Z_scope.

(* same badness buckets, same outcome; lines printed at the lower level are a subsequence *)
Theorem C16_verbosity_only_filters_lines :
  forall a wl1 wl2 evA evS,
    weights_nonneg evA -> weights_nonneg evS -> wlevel_le wl1 wl2 = true ->
    same_outcome (run (with_wlevel a wl1) evA evS) (run (with_wlevel a wl2) evA evS) /\
    log_sub (run (with_wlevel a wl1) evA evS) (run (with_wlevel a wl2) evA evS).
Proof. exact run_verbosity. Qed.
Print Assumptions C16_verbosity_only_filters_lines.

Theorem C16_exit_status_independent :
  forall a wl1 wl2 evA evS,
    weights_nonneg evA -> weights_nonneg evS ->
    exit_status (run (with_wlevel a wl1) evA evS) = exit_status (run (with_wlevel a wl2) evA evS).
Proof. exact exit_status_independent_of_verbosity. Qed.
Print Assumptions C16_exit_status_independent.

Theorem C16_errors_and_fatals_always_printed :
  forall a e w, 0 <= e_weight e -> (e_level e = DError \/ e_level e = DFatal) ->
    exists l, w_log (snd (emit a e w)) = w_log w ++ [l] /\ (l = LError \/ l = LFatal).
Proof. exact error_always_logged. Qed.
Print Assumptions C16_errors_and_fatals_always_printed.

Example C16_levels_form_a_chain :
  w_log (snd (run (mkArgs false 0 WNone) ex_events ex_simpl)) = [LError; LError; LError] /\
  w_log (snd (run (mkArgs false 0 WLocal) ex_events ex_simpl)) = [LWarning; LError; LError; LError] /\
  w_log (snd (run (mkArgs false 0 WDefault) ex_events ex_simpl)) = [LWarning; LError; LError; LWarning; LError] /\
  w_log (snd (run (mkArgs false 0 WAll) ex_events ex_simpl)) = [LWarning; LError; LInfo; LError; LWarning; LError].
Proof. exact verbosity_example. Qed.
