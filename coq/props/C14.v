(* C14 - Generating results does not change the intermediate representation.
   Model: model/Results.v - the IR sets are shared between the file IR and every call-tree node, and
   the fold unions into them in place; the model threads ONE store through all folds and is compared
   with rattr's IR after generation on every case of ./check C14. *)
From RattrV Require Import Base Str Context CallSwaps PyBind FuncAn Results ResCheck Closure ResSpecCheck ResProofs.
Open Scope string_scope.
Open Scope list_scope.

Definition C14_full : Prop :=
  forall excluded E s rs s1, generate excluded E E s [] = GOk rs s1 -> s1 = s.

(* REFUTED: the IR of a caller gains its callees' accesses (known finding KF_C14_1) *)
Theorem C14_refuted : ~ C14_full.
Proof.
  intros H. pose proof ir_is_mutated as M.
  destruct (generate noexcl E_chain E_chain S_chain []) as [rs s1| |] eqn:E; try contradiction.
  rewrite (H _ _ _ _ _ E) in M. vm_compute in M. discriminate.
Qed.
Print Assumptions C14_refuted.

(* What holds for all files: if no function has a resolvable call, generation returns the IR untouched *)
Theorem C14_partial :
  forall excluded E todo s acc,
    (forall e, In e todo -> forall c, In c (fe_calls e) -> resolve excluded E c = None) ->
    exists rs, generate excluded E todo s acc = GOk rs s.
Proof. exact generate_leaves_ir_unchanged. Qed.
Print Assumptions C14_partial.

(* and in every case the change is monotone: the IR after generation contains the IR before (per function
   and per kind), for every tree - so a second generation can only report more, never less *)
Theorem C14_ir_only_grows :
  forall nodes s s', fold_tree nodes s = Some s' -> store_incl s s'.
Proof. exact fold_tree_grows. Qed.

