(* C18 - Serialised output is canonical JSON and round-trips.
   Model: model/Json.v (symbols with the "type" tag, the "any" interface sentinel, nested call targets;
   sorted results lists; IR lists sorted by name), compared with rattr's serialise on symbols harvested
   from real analyses by ./check C18. *)
From RattrV Require Import Base Str CallSwaps Json C18Proofs.
From Coq Require Import Sorting.Permutation.
Open Scope string_scope.
Open Scope list_scope.

(* round trip: every symbol kind x interface kind (null / "any" / explicit) x nesting depth of call targets *)
Theorem C18_symbols_round_trip : forall s, de_symbol (depth s) (ser_symbol s) = Some s.
Proof. exact symbol_roundtrip. Qed.
Print Assumptions C18_symbols_round_trip.
Theorem C18_reserialising_reproduces_the_document :
  forall s s', de_symbol (depth s) (ser_symbol s) = Some s' -> ser_symbol s' = ser_symbol s.
Proof. exact symbol_reserialise. Qed.

(* canonical: a collection sorted by a key that identifies its elements serialises to the same list
   whatever the iteration order (any type, any key) *)
Theorem C18_sorting_by_identifying_key_is_canonical :
  forall (A : Type) (key : A -> string) (xs ys : list A),
    Permutation xs ys -> (forall x y, In x xs -> In y xs -> key x = key y -> x = y) ->
    sort_by key xs = sort_by key ys.
Proof. intros A key. exact (sort_by_canonical key). Qed.
Print Assumptions C18_sorting_by_identifying_key_is_canonical.
(* hence the results document (plain strings, sorted by themselves) is canonical *)
Theorem C18_results_lists_canonical :
  forall xs ys : list string, Permutation xs ys -> jstrs (sort_by id xs) = jstrs (sort_by id ys).
Proof. exact results_lists_canonical. Qed.

(* the IR lists are sorted by the symbol NAME only: REFUTED whenever two elements share a name
   (known finding KF_C18_1) *)
Definition C18_ir_lists_canonical : Prop :=
  forall xs ys : list symbol, Permutation xs ys -> ser_ir_list xs = ser_ir_list ys.
Theorem C18_ir_lists_refuted : ~ C18_ir_lists_canonical.
Proof.
  intros H. destruct ir_list_depends_on_iteration_order as (Hne & Hp). exact (Hne (H _ _ Hp)).
Qed.
Print Assumptions C18_ir_lists_refuted.
(* ... and holds when names are pairwise distinct *)
Theorem C18_ir_lists_canonical_partial :
  forall xs ys : list symbol, Permutation xs ys ->
    (forall x y, In x xs -> In y xs -> sym_name x = sym_name y -> x = y) ->
    ser_ir_list xs = ser_ir_list ys.
Proof. intros xs ys Hp Hinj. unfold ser_ir_list. f_equal. f_equal. apply (sort_by_canonical sym_name); assumption. Qed.

Example C18_nested_call_target_round_trips :
  let s := SyCall "C" ["z"; "x.p"] [("k", "y")]
                  (Some (SyClass "C" L0 (IFace (mkIface [] ["self"; "a"] (Some "r") ["k"] (Some "kw"))))) L0 in
  de_symbol 2 (ser_symbol s) = Some s.
Proof. exact roundtrip_example. Qed.
