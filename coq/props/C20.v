(* C20 - Command-line options override pyproject options, which override defaults.
   Tables: gen/CliTable.v is regenerated on every run by introspecting the argparse parsers that the
   current source builds (make_cli_parser / make_toml_parser) and the TOML type / rename maps.
   Model: model/Cli.v (TOML validation + translation, two argparse passes into one namespace);
   spec: spec/Precedence.v.  The generic theorems hold for every well-formed option table; they are
   instantiated below on the generated tables. *)
From RattrV Require Import Base Str Cli Precedence CliTable C20Proofs ProjRoot C20Root.
Open Scope string_scope.
Open Scope list_scope.

(* the generated tables are well formed (no option string or dest shared by two actions), and every
   option the TOML parser knows is the SAME action in the command-line parser *)
Theorem C20_generated_tables_well_formed :
  wf_table toml_descs = true /\ wf_table cli_descs = true /\
  forallb (fun d => existsb (fun e => String.eqb (od_dest d) (od_dest e) && strs_eqb (od_flags d) (od_flags e)) cli_descs) toml_descs = true.
Proof. vm_compute. auto. Qed.

(* the documented defaults *)
Theorem C20_documented_defaults :
  map (fun d => (od_dest d, od_default d)) toml_descs =
  [("_follow_imports_level", VStr "1"); ("_excluded_imports", VNone); ("_excluded_names", VNone);
   ("_warning_level", VStr "default"); ("collapse_home", VBool false); ("truncate_deep_paths", VBool false);
   ("is_strict", VBool false); ("threshold", VStr "0"); ("force_refresh_cache", VBool false); ("stdout", VStr "results")].
Proof. reflexivity. Qed.

(* precedence, for every well-formed pair of tables, every single-valued option present in both and ALL
   item lists: command line (last occurrence) else TOML (last occurrence) else default *)
Theorem C20_cli_else_toml_else_default :
  forall toml_descs cli_descs d ty ch titems citems n1 n2,
    wf_table toml_descs = true -> wf_table cli_descs = true ->
    In d toml_descs -> In d cli_descs -> od_action d = AStore ty ch ->
    parse_pass toml_descs [] titems = Some n1 ->
    parse_pass cli_descs n1 citems = Some n2 ->
    ns_get n2 (od_dest d) =
    Some (match last_named d citems with
          | Some s => VStr s
          | None => match last_named d titems with Some s => VStr s | None => od_default d end
          end).
Proof. exact two_pass_precedence. Qed.
Print Assumptions C20_cli_else_toml_else_default.

(* list-valued options accumulate, in order, over any item list (so TOML values come first, then the
   command line's, since the second pass starts from the first pass's namespace) *)
Theorem C20_list_options_accumulate :
  forall descs, wf_table descs = true -> forall d, In d descs -> od_action d = AAppend ->
    forall items st st', parse_items descs (Some st) items = Some st' ->
      list_of (ns_get (p_ns st') (od_dest d)) = list_of (ns_get (p_ns st) (od_dest d)) ++ named_values d items.
Proof. exact pass_append_accumulates. Qed.
Print Assumptions C20_list_options_accumulate.

(* options are independent: an item only ever changes the dest of the option it names; and the
   second pass's defaults never overwrite what the first pass set *)
Theorem C20_options_independent :
  forall descs st it st' e dst,
    parse_item descs st it = Some st' -> find_desc descs (it_flag it) = Some e -> od_dest e <> dst ->
    ns_get (p_ns st') dst = ns_get (p_ns st) dst.
Proof. exact parse_item_other. Qed.
Theorem C20_defaults_never_overwrite :
  forall descs n d v, ns_get n d = Some v -> ns_get (apply_defaults descs n) d = Some v.
Proof. exact defaults_never_overwrite. Qed.

(* invalid TOML is rejected: a value of the wrong type for a supported key makes the whole parse fail *)
Theorem C20_wrong_type_rejected :
  forall toml_descs cli_descs types rename conf cli,
    existsb (fun kv => match type_of_key types (fst kv) with Some t => negb (toml_type_ok t (snd kv)) | None => false end) conf = true ->
    parse_arguments toml_descs cli_descs types rename conf cli = None.
Proof.
  intros td cd types rename conf cli H. unfold parse_arguments, validate_toml.
  destruct (forallb _ (filter _ conf)) eqn:E; [|reflexivity]. exfalso.
  apply existsb_exists in H as ((k, v) & Hin & Hbad). simpl in Hbad.
  destruct (type_of_key types k) as [t|] eqn:Et; [|discriminate].
  rewrite forallb_forall in E.
  assert (Hf : In (k, v) (filter (fun kv => match type_of_key types (fst kv) with Some _ => true | None => false end) conf)).
  { apply filter_In. split; [exact Hin|]. simpl. rewrite Et. reflexivity. }
  specialize (E _ Hf). simpl in E. rewrite Et in E. rewrite E in Hbad. discriminate.
Qed.
Print Assumptions C20_wrong_type_rejected.

(* instances on the generated tables *)
Example C20_examples :
  ns_get (match parse_arguments toml_descs cli_descs toml_types toml_rename
                  [("follow-imports", TInt "2"); ("exclude", TList [TStr "a"]); ("unknown", TInt "9"); ("stdout", TStr "ir")]
                  [mkItem "--exclude" (Some "b"); mkItem "--stdout" (Some "stats")] with Some n => n | None => [] end) "_follow_imports_level" = Some (VStr "2")
  /\ parse_arguments toml_descs cli_descs toml_types toml_rename [("warning-level", TStr "loud")] [] = None
  /\ parse_arguments toml_descs cli_descs toml_types toml_rename [("threshold", TFloat "1.5")] [] = None
  (* a value that starts with "-" is a value (it was taken for an option before fix 896d4cc) *)
  /\ spec_outcome toml_descs toml_types toml_rename cli_descs [("exclude", TList [TStr "-foo"])] [] <> None
  /\ parse_arguments toml_descs cli_descs toml_types toml_rename [("exclude", TList [TStr "-foo"])] [] <> None
  (* a boolean is no integer (it passed the type check before fix 954a4ba) *)
  /\ parse_arguments toml_descs cli_descs toml_types toml_rename [("follow-imports", TBool false)] [] = None
  /\ parse_arguments toml_descs cli_descs toml_types toml_rename [("threshold", TBool true)] [] = None.
Proof. vm_compute. repeat split; try reflexivity; discriminate. Qed.

(* ---------- which TOML file is selected ---------- *)
(* model/ProjRoot.v: the chain is the working directory followed by its ancestors, with the markers the harness
   stats in each; compared with rattr's find_project_root / find_pyproject_toml and with the configuration real
   runs visibly use *)
Theorem C20_root_is_nearest_marked_directory :
  forall chain,
  (exists d, nth_error chain (find_root chain) = Some d /\ is_root d = true
             /\ forall j dj, j < find_root chain -> nth_error chain j = Some dj -> is_root dj = false)
  \/ (find_root chain = 0 /\ forall d, In d chain -> is_root d = false).
Proof. exact root_is_nearest_marked_directory. Qed.
Theorem C20_project_toml_is_in_the_root :
  forall chain i, project_toml chain = Some i ->
    i = find_root chain /\ exists d, nth_error chain i = Some d /\ d_pyproject d = IsFile.
Proof. exact project_toml_is_in_the_root. Qed.
Theorem C20_nested_checkout_hides_outer_configuration :
  forall d rest, is_root d = true -> d_pyproject d <> IsFile -> project_toml (d :: rest) = None.
Proof. exact nested_checkout_hides_outer_configuration. Qed.
Theorem C20_override_wins_when_it_exists : forall chain, select_toml true true chain = TOverride.
Proof. exact override_wins_when_it_exists. Qed.
Theorem C20_missing_override_falls_back :
  forall chain given, select_toml given false chain = match project_toml chain with Some i => TProject i | None => TNothing end.
Proof. exact missing_override_falls_back. Qed.
Print Assumptions C20_root_is_nearest_marked_directory.
Print Assumptions C20_nested_checkout_hides_outer_configuration.
