(* C13 - Module names resolve the way Python's import system resolves them.

   Model: model/ModNames.v (derive_absolute_module_name, iter_module_names_right/left,
   find_module_name_and_spec, derive_module_name_from_path, find_module_in_path, locate), tied to
   /repo by ./check C13 on synthesised package trees.  Spec: spec/PyImport.v (importlib's
   _resolve_name), validated against importlib.util.resolve_name.  The file system, the search
   path and the stdlib classification are parameters: the theorems hold for all of them. *)
From RattrV Require Import Base ModNames PyImport C13Proofs.
From Coq Require Import Lia.
Open Scope string_scope.
Open Scope list_scope.

(* (a) relative imports: for every module name (any depth), level >= 1 and dotted target, what the
   f-strings of derive_absolute_module_name build is Python's answer, and when Python raises
   "beyond top-level package" the result is "" or starts with "." - never another module's name
   (find_module_name_and_spec then answers None and visit_relative_import emits its diagnostic) *)
Theorem C13a_relative_imports_resolve_as_python :
  forall (modname : list string) (name : option (list string)) (level : nat) (is_init : bool),
    1 <= level -> modname <> [] -> forallb dotfree modname = true ->
    (forall n, name = Some n -> n <> []) ->
    let result := derive_absolute (join_dot modname) (option_map join_dot name) level is_init in
    match py_resolve (package_of modname is_init) level name with
    | Some r => result = join_dot r
    | None => starts_with_dot result = true \/ result = ""
    end.
Proof. exact derive_matches_python. Qed.
Print Assumptions C13a_relative_imports_resolve_as_python.

(* (b) a dotted qualified name resolves to its longest existing prefix, for every existence
   predicate (file system, search path) *)
Theorem C13b_longest_existing_prefix :
  forall (exists_mod : string -> bool) (parts : list string),
    parts <> [] ->
    match find exists_mod (names_right parts) with
    | Some m => exists k, 1 <= k <= List.length parts /\ m = join_dot (firstn k parts) /\ exists_mod m = true /\
                          forall k', k < k' <= List.length parts -> exists_mod (join_dot (firstn k' parts)) = false
    | None => forall k, 1 <= k <= List.length parts -> exists_mod (join_dot (firstn k parts)) = false
    end.
Proof. exact names_right_finds_longest. Qed.
Print Assumptions C13b_longest_existing_prefix.

(* (c) the name derived for a file locates that same file again.  Unconditionally this is FALSE
   (C13c_refuted: a name-clash layout, replayed on rattr by the check and listed as KF_C13_1);
   it holds whenever no longer suffix of the path names an existing module and no earlier
   search-path entry provides the name (C13c_partial), for every file system. *)
Definition C13c_full : Prop :=
  forall (is_dir is_file : list string -> bool) (root f : list string),
    is_file f = true ->
    forall m, derive_module_name_from_path is_dir is_file [root] nostd nostd f = Some m ->
              locate is_dir is_file [root] m = Some f.

Theorem C13c_refuted : ~ C13c_full.
Proof.
  intros H. destruct clash_refutes_round_trip as (Hf & Hd & Hl).
  specialize (H clash_is_dir clash_is_file ["r"] ["r"; "zpa"; "zma.py"] Hf "r.zpa.zma" Hd).
  rewrite Hl in H. discriminate.
Qed.
Print Assumptions C13c_refuted.

Theorem C13c_partial :
  forall (is_dir is_file : list string -> bool) (stdlib stdlib_exists : string -> bool)
         (pre post : list (list string)) (R comps tn : list string),
    tn <> [] -> join_dot tn <> "" ->
    forallb dotfree (R ++ tn) = true ->
    longest_possible comps = R ++ tn ->
    (if is_dir (R ++ tn) then (R ++ tn) ++ ["__init__.py"] else with_py (R ++ tn)) = comps ->
    is_file comps = true ->
    (forall d, In d pre -> find_module_in_path is_dir is_file d (join_dot tn) = None) ->
    (forall s, In s (suffixes_l (R ++ tn)) -> List.length tn < List.length s ->
               module_exists is_dir is_file (pre ++ R :: post) stdlib stdlib_exists (join_dot s) = false) ->
    stdlib (join_dot tn) = false ->
    derive_module_name_from_path is_dir is_file (pre ++ R :: post) stdlib stdlib_exists comps = Some (join_dot tn)
    /\ locate is_dir is_file (pre ++ R :: post) (join_dot tn) = Some comps.
Proof. intros. apply derive_then_locate; assumption. Qed.
Print Assumptions C13c_partial.

Example C13_examples :
  py_resolve (package_of ["pkg"; "sub"; "mod"] false) 2 (Some ["x"]) = Some ["pkg"; "x"] /\
  py_resolve (package_of ["pkg"; "sub"] true) 1 None = Some ["pkg"; "sub"] /\
  py_resolve (package_of ["pkg"; "sub"; "mod"] false) 3 (Some ["x"]) = None /\
  derive_absolute "pkg.sub.mod" (Some "x") 3 false = ".x".
Proof. exact python_examples. Qed.
Example C13c_hypotheses_satisfiable :
  derive_module_name_from_path ok_is_dir ok_is_file [["r"]] nostd nostd ["r"; "zpa"; "zpb"; "__init__.py"] = Some "zpa.zpb"
  /\ locate ok_is_dir ok_is_file [["r"]] "zpa.zpb" = Some ["r"; "zpa"; "zpb"; "__init__.py"]
  /\ longest_possible ["r"; "zpa"; "zpb"; "__init__.py"] = ["r"] ++ ["zpa"; "zpb"].
Proof. exact round_trip_example. Qed.
