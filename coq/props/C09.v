(* C09 - Recorded call arguments mirror the call site (incl. constructed instance).
   Model: model/FuncAn.v (make_call = CallArguments.from_call + Call.from_call); spec: spec/CallSpec.v.
   The unbounded per-call-site claim is carried by the correspondence (./check C09 judges rattr's own
   call records with the Coq checker `unmirrored`); proved for all inputs: the record construction. *)
From RattrV Require Import Base Str PyAst Naming Spell Context FuncAn Occurs CallSpec FaCheck FaSpecCheck FaFacts FaMono C10Proofs C01Proofs C09Proofs.
Open Scope string_scope.
Open Scope list_scope.

(* for every argument list of any length: the record lists the stand-in first (if any) and then one
   spelling per positional argument, in source order; the state is untouched *)
Theorem C09_record_lists_arguments_in_order :
  forall fullname args kws target self s cr s',
    make_call fullname args kws target self s = (Ok cr, s') ->
    s' = s /\ c_name cr = without_call_brackets fullname /\ c_target cr = target /\
    exists l, c_args cr = opt_list self ++ l /\ List.length l = List.length args /\
              forall i a, nth_error args i = Some a -> option_map Some (nth_error l i) = Some (arg_full a).
Proof. exact make_call_spec. Qed.
Print Assumptions C09_record_lists_arguments_in_order.

(* argument spellings follow the README format on plain expressions (the two namers agree: C10) *)
Theorem C09_argument_spelling :
  forall a, plain a = true -> arg_full a = Some (spell a).
Proof. intros a H. unfold arg_full. rewrite (old_names_spells a H). reflexivity. Qed.

Example C09_constructor_contexts :
  call_args_of [SAssign [EName "t" Store P0] cC P0] = [("C", ["t"; "x.u"; "@BinOp"], [("k", "y.w")])] /\
  call_args_of [SReturn [cC] P0] = [("C", ["@ReturnValue"; "x.u"; "@BinOp"], [("k", "y.w")])] /\
  call_args_of [SReturn [ESeq KList [cC; nm "x"] P0] P0] = [("C", ["@ReturnValue"; "x.u"; "@BinOp"], [("k", "y.w")])] /\
  call_args_of [Other "Expr" [] [cC]] = [("C", ["@C"; "x.u"; "@BinOp"], [("k", "y.w")])] /\
  call_args_of [Other "Expr" [] [ECall (nm "f") [nm "x"; at_ (nm "y") "w"] [] P0]] = [("f", ["x"; "y.w"], [])].
Proof. exact standin_examples. Qed.
