(* C10 - Names follow the documented nameable format, compositionally and totally.

   Model: model/Naming.v (names_of and the deprecated get_basename_fullname_pair with their getattr
   helpers), tied to /repo by ./check C10.  Spec: spec/Spell.v (the README table).
   "plain" = the expression's spine does not pass through getattr/hasattr/setattr/delattr. *)
From RattrV Require Import Base PyAst Naming Spell C10Proofs.
Open Scope string_scope.
Open Scope list_scope.

(* compositional + total: every plain expression tree, of any depth and over any node classes,
   is spelled by safe naming exactly as the README table says, base = innermost variable or '@'
   stand-in; safe naming does not raise on it *)
Theorem C10_safe_naming_follows_readme :
  forall e u, plain e = true -> names_of true u e = NOk (spell_base e) (spell e).
Proof. exact names_of_spells. Qed.
Print Assumptions C10_safe_naming_follows_readme.

(* the two naming code paths agree *)
Theorem C10_namers_agree :
  forall e u, plain e = true -> names_of true u e = old_names true e.
Proof. exact namers_agree_on_plain. Qed.
Print Assumptions C10_namers_agree.

(* nested getattr-family calls with literal names spell as the dotted access, any nesting depth *)
Theorem C10_literal_getattr_chains :
  forall e fn o lits, wellformed_chain e = Some (fn, o, lits) ->
    names_of true true e = NOk fn (dotted (spell o) lits).
Proof. exact getattr_chain_spells. Qed.
Print Assumptions C10_literal_getattr_chains.

(* Full statement - safe naming never raises, the base is the innermost variable, the two paths agree,
   for ALL expressions - is refuted on spines through an attribute-access builtin (KF_C10_1). *)
Definition C10_full : Prop :=
  forall e, (forall c, names_of true true e <> NRaise c)
            /\ (forall b f, names_of true true e = NOk b f -> b = spell_base e \/ wellformed_chain e <> None)
            /\ (names_of true true e = old_names true e).
Theorem C10_refuted : ~ C10_full.
Proof.
  intros H. destruct (H e_getattr_binop) as (Hr & _). apply (Hr "RattrBinOpInNameable"). exact safe_naming_raises.
Qed.
Print Assumptions C10_refuted.
Theorem C10_refuted_agreement :
  names_of true true e_getattr_method = NFatal /\ old_names true e_getattr_method = NOk "getattr" "a.b.c()"
  /\ KF_C10_1 e_getattr_method = true.
Proof. destruct namers_disagree, refutation_inputs_in_class as (_ & _ & ?). auto. Qed.

Example C10_nonvacuous :
  plain e_sample = true /\ names_of true true e_sample = NOk "@BinOp" "@BinOp.m()[].z".
Proof. exact sample_plain. Qed.
Example C10_chain_example :
  names_of true true e_chain = NOk "getattr" "a.b[].c.d".
Proof. exact (proj2 sample_chain). Qed.
