(* C12 - Only modules allowed by follow level and exclusions are analysed, each once.
   Model: model/Imports.v (parse_and_analyse_imports: the BFS with its filter ladder and `seen` by origin;
   resolve_import re-applies the ladder).  Oracles: module locator, blacklist / pip / stdlib classification
   (isort's place_module, the site-packages regex and the configured patterns are compared with an
   independent classification of generated projects by ./check C12). *)
From RattrV Require Import Base Str Context CallSwaps FuncAn Results Imports ImpProofs ImpReach.
Open Scope string_scope.
Open Scope list_scope.

Section C12.
  Variable module_of : string -> option string.
  Variable origin_of : string -> option string.
  Variable blacklisted in_pip in_stdlib : string -> bool.
  Variable follow_local follow_pip follow_stdlib : bool.
  Variable imports_in : string -> list (string * string).
  Variable has_source : string -> bool.

  Notation analysed := (analysed module_of origin_of blacklisted in_pip in_stdlib follow_local follow_pip follow_stdlib imports_in has_source).
  Notation permitted := (permitted blacklisted in_pip in_stdlib follow_pip follow_stdlib).

  (* every analysed module passed the ladder: not blacklisted, pip only at level >= 2, stdlib only at level 3;
     and nothing is analysed at level 0 *)
  Theorem C12_only_permitted_modules_are_analysed :
    forall fuel q0 res, analysed fuel q0 = Some res ->
      forall x, In x res -> (permitted (fst x) = true /\ origin_of (fst x) = Some (snd x) /\ has_source (snd x) = true) /\ follow_local = true.
  Proof. exact (analysed_only_permitted module_of origin_of blacklisted in_pip in_stdlib follow_local follow_pip follow_stdlib imports_in has_source). Qed.

  Theorem C12_level_0_analyses_nothing :
    forall fuel q0, follow_local = false -> analysed fuel q0 = Some [].
  Proof. exact (level0_analyses_nothing module_of origin_of blacklisted in_pip in_stdlib follow_local follow_pip follow_stdlib imports_in has_source). Qed.

  (* each file at most once, for any import graph (cycles and diamonds included) *)
  Theorem C12_each_origin_once :
    forall fuel q0 res, analysed fuel q0 = Some res -> NoDup (map snd res).
  Proof. exact (analysed_each_origin_once module_of origin_of blacklisted in_pip in_stdlib follow_local follow_pip follow_stdlib imports_in has_source). Qed.

  (* completeness: every import of the target and of every analysed module either does not resolve, is not
     permitted, has no Python source, or names an analysed module - so every permitted module reachable through permitted modules
     is analysed *)
  Theorem C12_analysed_set_is_closed :
    forall fuel q0 res, follow_local = true -> analysed fuel q0 = Some res ->
      (forall i, In i q0 -> handled module_of origin_of blacklisted in_pip in_stdlib follow_pip follow_stdlib has_source (map snd res) i)
      /\ (forall x, In x res -> forall i, In i (imports_in (snd x)) ->
            handled module_of origin_of blacklisted in_pip in_stdlib follow_pip follow_stdlib has_source (map snd res) i).
  Proof. exact (analysed_closed module_of origin_of blacklisted in_pip in_stdlib follow_local follow_pip follow_stdlib imports_in has_source). Qed.

  (* functions of modules that were not analysed (or are not permitted) contribute nothing: the resolver only
     ever answers with a function that has an IR in an analysed, permitted module *)
  Theorem C12_unanalysed_modules_contribute_nothing :
    forall fuel irs vis tn tq mn ln c,
      resolve_import module_of blacklisted in_pip in_stdlib follow_local follow_pip follow_stdlib fuel irs vis tn tq = RTarget mn ln c ->
      (exists m, In m irs /\ m_name m = mn /\ In ln (m_ir m)) /\ permitted mn = true /\ follow_local = true.
  Proof. exact (resolved_only_in_analysed_permitted module_of blacklisted in_pip in_stdlib follow_local follow_pip follow_stdlib). Qed.

  (* the same, in terms of reachability: every module reachable from the target's imports through import
     statements that name permitted modules with Python source is analysed *)
  Theorem C12_every_reachable_permitted_module_is_analysed :
    forall fuel q0 res, follow_local = true -> analysed fuel q0 = Some res ->
      forall o, reach module_of origin_of blacklisted in_pip in_stdlib follow_pip follow_stdlib imports_in has_source q0 o -> In o (map snd res).
  Proof. exact (every_reachable_permitted_module_is_analysed module_of origin_of blacklisted in_pip in_stdlib follow_local follow_pip follow_stdlib imports_in has_source). Qed.
End C12.
Print Assumptions C12_only_permitted_modules_are_analysed.
Print Assumptions C12_analysed_set_is_closed.
Print Assumptions C12_every_reachable_permitted_module_is_analysed.
Print Assumptions C12_unanalysed_modules_contribute_nothing.

(* non-vacuity: a diamond with a cycle - t imports a and b, both import c, c imports a *)
Definition g_mod (q : string) : option string := Some q.
Definition g_org (m : string) : option string := Some (m ++ ".py")%string.
Definition g_imports (o : string) : list (string * string) :=
  if String.eqb o "a.py" then [("c", "c")] else if String.eqb o "b.py" then [("c", "c"); ("x", "pipx")]
  else if String.eqb o "c.py" then [("a", "a")] else [].
Example C12_diamond_with_cycle :
  analysed g_mod g_org (fun m => String.eqb m "black") (fun m => String.eqb m "pipx") (fun _ => false) true false false g_imports (fun _ => true) 20
           [("a", "a"); ("b", "b"); ("k", "black")]
  = Some [("a", "a.py"); ("b", "b.py"); ("c", "c.py")].
Proof. reflexivity. Qed.
