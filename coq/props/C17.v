(* C17 - Undefined-name warnings track Python's local binding rules.
   Model: model/FuncAn.v + model/Context.v; spec: spec/Binding.v (a forward pass computing, for every
   read, whether the name is bound at that point).  ./check C17 judges rattr's own warnings with the
   Coq checkers `spurious` / `unwarned`.  Proved for all inputs: the warning decision and the scope-chain
   laws it rests on; the finding classes are kernel-checked on the model. *)
From RattrV Require Import Base Str PyAst Naming Spell Context FuncAn Occurs Binding FaCheck FaSpecCheck FaFacts FaMono C01Proofs C17Proofs C01Complete C17Quiet C17Store.
Open Scope string_scope.
Open Scope list_scope.

(* the warning is issued exactly when the base name is not visible in the scope chain, the
   expression is not a store, and the base is not an '@' stand-in - for every node and state *)
Theorem C17_warning_decision :
  forall n c s b f, names_of true true n = NOk b f ->
    get_and_verify_name n c s =
    (Ok (b, f),
     if negb (ctx_in (v_ctx s) b) && negb (ctx_eqb c Store) && negb (starts_with LITERAL_PREFIX b)
     then mkV (v_gets s) (v_sets s) (v_dels s) (v_calls s) (v_ctx s) (v_warn s ++ [(b, pos_of n)])
     else s).
Proof. exact warning_decision. Qed.
Print Assumptions C17_warning_decision.

(* scope-chain laws: a registered name is visible; registering never hides another name (so
   parameters, builtins and module-level names stay visible whatever the body binds); a nested scope
   hides nothing and leaving it restores the chain *)
Theorem C17_registered_name_visible : forall c s b, ctx_in (ctx_add c s b) (s_name s) = true.
Proof. exact ctx_add_visible. Qed.
Theorem C17_registering_never_hides : forall c s b n, ctx_in c n = true -> ctx_in (ctx_add c s b) n = true.
Proof. exact ctx_add_preserves. Qed.
Theorem C17_scopes_nest : forall c n, ctx_in (ctx_push c) n = ctx_in c n /\ ctx_pop (ctx_push c) = c.
Proof. intros. split; reflexivity. Qed.
Print Assumptions C17_registering_never_hides.

(* Full statement (no spurious warning on any body) is refuted by the match captures (three more classes were repaired) *)
Definition C17_no_spurious_full : Prop :=
  forall body w, In w (warns body) -> unbound_site body w = true.
Theorem C17_refuted : ~ C17_no_spurious_full.
Proof.
  intros H. destruct k2_read_is_bound as (Hb & Hin).
  exact (Bool.eq_true_false_abs _ (H k2 _ Hin) Hb).
Qed.
Print Assumptions C17_refuted.

Example C17_finding_classes :
  warns k2 = [("m1", P0)] /\ warns k1 = [] /\ warns k3 = [] /\ warns k4 = [].
Proof. exact spurious_classes. Qed.
Example C17_handler_name_is_scoped_to_the_handler : warns k5 = [("exc", (9, 0))].
Proof. exact handler_name_is_scoped_to_the_handler. Qed.
Example C17_registered_binders : warns b_ok = [("int0", P0)].
Proof. exact registered_binders_no_warning. Qed.
Example C17_unbound_reads : warns b_warn = [("x", (2, 0)); ("nowhere", (3, 0)); ("u", (5, 0))].
Proof. exact unbound_reads_warned. Qed.

(* ---------- whole expressions (proofs/C17Quiet.v) ---------- *)
(* NO SPURIOUS WARNING on call-free load expressions of any depth (the fragment CF of proofs/C01Complete.v): when every
   variable the expression mentions is visible in the scope chain c, the visit ends normally, adds no warning at all
   and leaves the scope chain as it was - whatever the state holds otherwise *)
Theorem C17_no_spurious_warning_on_call_free_loads :
  forall mexists modulename c n, CF n -> visible c n ->
    forall s, v_ctx s = c ->
      fst (visit mexists modulename n s) = Ok tt
      /\ v_warn (snd (visit mexists modulename n s)) = v_warn s
      /\ v_ctx (snd (visit mexists modulename n s)) = c.
Proof. exact call_free_loads_are_quiet. Qed.
Print Assumptions C17_no_spurious_warning_on_call_free_loads.
(* ... and a variable that is NOT visible is warned about, once, with its own position *)
Theorem C17_unbound_variable_is_warned_about :
  forall mexists modulename c id p s,
    mem id ATTR_BUILTINS = false -> v_ctx s = c -> ctx_in c id = false -> starts_with LITERAL_PREFIX id = false ->
    v_warn (snd (visit mexists modulename (EName id Load p) s)) = v_warn s ++ [(id, pos_of (EName id Load p))].
Proof. exact unbound_variable_is_warned_about. Qed.

(* ---------- stores into a part of a variable (proofs/C17Store.v) ---------- *)
(* `x.a = v` and `x[i] = v` define nothing: the binding step of the assignment leaves the scope chain as it is, so x
   is not made visible by them (before the repair of KF_C17_6 the base name x was registered and a read of an unbound
   or deleted x went unwarned) *)
Theorem C17_attribute_store_defines_nothing :
  forall x a px p s, add_identifiers (EAttr (EName x Store px) a Store p) s = (Ok tt, s).
Proof. exact attribute_store_defines_nothing. Qed.
Print Assumptions C17_attribute_store_defines_nothing.
Theorem C17_item_store_defines_nothing :
  forall x i px p s, add_identifiers (ESub (EName x Store px) i Store p) s = (Ok tt, s).
Proof. exact item_store_defines_nothing. Qed.
Print Assumptions C17_item_store_defines_nothing.
