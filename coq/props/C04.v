(* C04 - Call-site arguments are bound to parameters exactly as Python binds them.

   Objects: construct_call_swaps is the executable model of rattr.results.construct_call_swaps
   (model/CallSwaps.v, tied to /repo by the exhaustive correspondence run of ./check C04);
   py_bind / check_C04 are the specification (spec/PyBind.v): CPython's binding of positional
   and keyword arguments to the five parameter kinds, every parameter optional, validated against
   really calling a function with that signature.

   Full statement (C04_full) - for every well-formed signature and call, rattr's substitution and
   diagnostics satisfy check_C04 - is REFUTED by two kernel-checked witnesses; what holds, for all
   signatures and calls of any size, is C04_partial: the statement outside the finding classes
   KF_C04_1 (fewer positionals than positional-only parameters) and KF_C04_2 (callee has **kwargs
   and a keyword is spelled like a positional-only / *args / **kwargs parameter). *)
From RattrV Require Import Base CallSwaps PyBind C04Proofs.

Definition C04_full : Prop :=
  forall (sg : iface) (c : callargs),
    wf_iface sg = true -> check_C04 sg c (construct_call_swaps sg c) = true.

Theorem C04_refuted : ~ C04_full.
Proof.
  intros H. pose proof (H (fst witness_KF2) (snd witness_KF2)) as H2.
  destruct refuted_KF2 as (Hc & Hwf & _). rewrite Hc in H2. specialize (H2 Hwf). discriminate.
Qed.
Print Assumptions C04_refuted.

Theorem C04_refuted_KF1 :
  exists sg c, wf_iface sg = true /\ KF_C04_1 sg c = true /\ check_C04 sg c (construct_call_swaps sg c) = false.
Proof. exists (fst witness_KF1), (snd witness_KF1). destruct refuted_KF1 as (a & b & c). auto. Qed.
Print Assumptions C04_refuted_KF1.

Theorem C04_partial :
  forall (sg : iface) (c : callargs),
    wf_iface sg = true ->
    KF_C04_1 sg c = false ->
    KF_C04_2 sg c = false ->
    check_C04 sg c (construct_call_swaps sg c) = true.
Proof. exact model_meets_spec. Qed.
Print Assumptions C04_partial.

(* the hypotheses are satisfiable by non-trivial inputs, on both sides of the specification *)
Example C04_nonvacuous_reject :
  wf_iface (fst sample_ok) = true /\ KF_C04_1 (fst sample_ok) (snd sample_ok) = false
  /\ KF_C04_2 (fst sample_ok) (snd sample_ok) = false /\ py_bind (fst sample_ok) (snd sample_ok) = None.
Proof. exact sample_ok_meets_hypotheses. Qed.
Example C04_nonvacuous_bound :
  wf_iface (fst sample_ok2) = true /\ KF_C04_1 (fst sample_ok2) (snd sample_ok2) = false
  /\ KF_C04_2 (fst sample_ok2) (snd sample_ok2) = false
  /\ py_bind (fst sample_ok2) (snd sample_ok2)
     = Some [("p0", "X0"); ("a0", "X1"); ("a1", "X2"); ("va", "@Tuple"); ("k0", "V2"); ("kw", "@Dict")]%string.
Proof. exact sample_ok2_bound. Qed.
