(* C15 - Exit status and badness follow the documented contract.

   Every statement below is about the GENERATED model gen/DiagGen.v (error.info / warning / error /
   fatal, Config.increment_badness, Config.is_within_badness_threshold, the phase order of main()),
   which harness/translate_decision.py rewrites from /repo's source on every run; model/DiagRun.v
   composes those functions into a run over an arbitrary sequence of diagnostics.  So these
   theorems are re-checked against what the code says now. *)
From RattrV Require Import DiagRun ExitSpec DiagAbs C15Proofs.
Open Scope Z_scope.

(* exit status: for every option setting with a non-negative threshold, every sequence of analysis
   diagnostics (any levels, any non-negative weights, any places) and every sequence of
   simplification diagnostics *)
Theorem C15_exit_iff_contract :
  forall a evA evS,
    0 <= a_threshold a -> weights_nonneg evA -> weights_nonneg evS ->
    (exit_status (run a evA evS) = 1 <-> spec_exit1 a (all_events evA evS)).
Proof. exact exit_iff_spec. Qed.
Print Assumptions C15_exit_iff_contract.

Theorem C15_exit_is_0_or_1 :
  forall a evA evS, weights_nonneg evA -> weights_nonneg evS -> fst (run a evA evS) <> RaiseValueError.
Proof. exact run_never_raises. Qed.
Print Assumptions C15_exit_is_0_or_1.

(* each diagnostic adds its weight to the badness of the place it arose in, and to no other *)
Theorem C15_buckets_are_sums :
  forall a evA evS w',
    weights_nonneg evA -> weights_nonneg evS ->
    emit_all a (all_events evA evS) world0 = (Ret tt, w') ->
    w_target w' = sum_at InTarget (all_events evA evS) /\
    w_imports w' = sum_at InImport (all_events evA evS) /\
    w_simpl w' = sum_at NoFile (all_events evA evS).
Proof. exact buckets_are_sums. Qed.
Print Assumptions C15_buckets_are_sums.

(* documented weights, and the order in which main() analyses, simplifies and checks *)
Theorem C15_documented_weights :
  default_badness_info = 0 /\ default_badness_warning = 1 /\ default_badness_error = 5 /\ default_badness_fatal = 0.
Proof. exact documented_default_weights. Qed.
Theorem C15_threshold_checked_after_simplification_before_output :
  main_phases = [PCacheLookup; PAnalyse; PSimplify; PThresholdCheck; POutput; PWriteCache; PReturnSuccess].
Proof. exact main_phase_order. Qed.

Example C15_boundaries :
  exit_status (run (ex_args false 12) ex_events ex_simpl) = 0 /\
  exit_status (run (ex_args false 11) ex_events ex_simpl) = 1 /\
  exit_status (run (ex_args false 0) ex_events ex_simpl) = 0 /\
  exit_status (run (ex_args true 0) ex_events ex_simpl) = 1 /\
  exit_status (run (ex_args true 0) [mkEv DInfo 0 InTarget] []) = 0.
Proof. exact boundary_examples. Qed.
