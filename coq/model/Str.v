(* Python str operations used by rattr's analysers, on Coq strings. *)
From RattrV Require Export Base ModNames.
Open Scope string_scope.
Open Scope list_scope.

(* s.startswith(pre) *)
Fixpoint starts_with (pre s : string) : bool :=
  match pre, s with
  | EmptyString, _ => true
  | String a p', String b s' => Ascii.eqb a b && starts_with p' s'
  | String _ _, EmptyString => false
  end.

(* drop the first n characters *)
Fixpoint sdrop (n : nat) (s : string) : string :=
  match n, s with
  | 0, _ => s
  | S m, String _ r => sdrop m r
  | S _, EmptyString => EmptyString
  end.

(* sub in s *)
Fixpoint contains (sub s : string) : bool :=
  if starts_with sub s then true
  else match s with
       | EmptyString => false
       | String _ r => contains sub r
       end.

(* s.replace(old, new) for non-empty old: all non-overlapping occurrences, left to right *)
Fixpoint replace_fuel (fuel : nat) (old new s : string) : string :=
  match fuel with
  | 0 => s
  | S f =>
    match s with
    | EmptyString => EmptyString
    | String c r =>
      if starts_with old s then (new ++ replace_fuel f old new (sdrop (String.length old) s))%string
      else String c (replace_fuel f old new r)
    end
  end.
Definition replace_all (old new s : string) : string :=
  if String.eqb old "" then s else replace_fuel (S (String.length s)) old new s.

(* s.replace(old, new, 1) *)
Fixpoint replace_first (old new s : string) : string :=
  if starts_with old s then (new ++ sdrop (String.length old) s)%string
  else match s with
       | EmptyString => EmptyString
       | String c r => String c (replace_first old new r)
       end.

Definition ends_with (suf s : string) : bool :=
  let n := String.length s in let k := String.length suf in
  Nat.leb k n && String.eqb (substring (n - k) k s) suf.

Definition remove_suffix (suf s : string) : string :=
  if ends_with suf s then substring 0 (String.length s - String.length suf) s else s.

Definition remove_prefix (pre s : string) : string :=
  if starts_with pre s then sdrop (String.length pre) s else s.

(* while call.endswith("()"): call = call.removesuffix("()") *)
Fixpoint wcb_fuel (fuel : nat) (s : string) : string :=
  match fuel with
  | 0 => s
  | S f => if ends_with "()" s then wcb_fuel f (remove_suffix "()" s) else s
  end.
Definition without_call_brackets (s : string) : string := wcb_fuel (S (String.length s)) s.

Definition with_call_brackets (s : string) : string := if ends_with "()" s then s else (s ++ "()")%string.

(* get_basename_from_name: without_call_brackets(name).replace("*", "").split(".", maxsplit=1)[0] *)
Definition basename_from_name (name : string) : string :=
  match split_dot (replace_all "*" "" (without_call_brackets name)) with
  | x :: _ => x
  | [] => ""
  end.

(* list(accumulate(parts, lambda a, b: f"{a}.{b}")) *)
Fixpoint accumulate_dots_from (acc : string) (parts : list string) : list string :=
  match parts with
  | [] => []
  | p :: r => let a := (acc ++ "." ++ p)%string in a :: accumulate_dots_from a r
  end.
Definition accumulate_dots (parts : list string) : list string :=
  match parts with
  | [] => []
  | p :: r => p :: accumulate_dots_from p r
  end.

(* l[:-1] *)
Definition drop_last1 (l : list string) : list string := firstn (List.length l - 1) l.
