(* Model of the selection of the TOML file (C20):
     rattr/config/_util.py  _is_project_root / find_project_root / find_pyproject_toml
     rattr/cli/parser.py    _get_toml_override, rattr/cli/toml.py parse_project_toml
   The file system is an oracle: the harness stats, with os.path, the markers of the working directory and of each
   of its ancestors up to the file-system root (the chain, working directory first). *)
From RattrV Require Export Base.
Open Scope list_scope.

Inductive entry := Absent | IsFile | IsDir.
Definition entry_eqb (a b : entry) : bool :=
  match a, b with Absent, Absent | IsFile, IsFile | IsDir, IsDir => true | _, _ => false end.

Record dirinfo := mkDir { d_pyproject : entry; d_git : entry; d_hg : entry; d_svn : entry }.

(* a pyproject.toml FILE, a .git of any kind (a checkout's directory, or the FILE a worktree / submodule has),
   a .hg directory, a .svn directory *)
Definition is_root (d : dirinfo) : bool :=
  entry_eqb (d_pyproject d) IsFile || negb (entry_eqb (d_git d) Absent) || entry_eqb (d_hg d) IsDir || entry_eqb (d_svn d) IsDir.

(* index, in the chain, of the first project root at or after position i *)
Fixpoint first_root (chain : list dirinfo) (i : nat) : option nat :=
  match chain with
  | [] => None
  | d :: r => if is_root d then Some i else first_root r (S i)
  end.

(* find_project_root: the nearest root, else the working directory *)
Definition find_root (chain : list dirinfo) : nat :=
  match first_root chain 0 with Some i => i | None => 0 end.

(* find_pyproject_toml: the pyproject.toml of THAT directory, when it is a file *)
Definition project_toml (chain : list dirinfo) : option nat :=
  let r := find_root chain in
  match nth_error chain r with
  | Some d => if entry_eqb (d_pyproject d) IsFile then Some r else None
  | None => None
  end.

Inductive toml_choice := TOverride | TProject (dir : nat) | TNothing.

(* the -c override when it was given and is an existing file, else the project's file, else no TOML at all *)
Definition select_toml (override_given override_is_file : bool) (chain : list dirinfo) : toml_choice :=
  if override_given && override_is_file then TOverride
  else match project_toml chain with Some i => TProject i | None => TNothing end.

Definition choice_eqb (a b : toml_choice) : bool :=
  match a, b with
  | TOverride, TOverride | TNothing, TNothing => true
  | TProject i, TProject j => Nat.eqb i j
  | _, _ => false
  end.

(* one observed case: the chain, what rattr's find_project_root / find_pyproject_toml returned (as indexes into the
   chain), and the TOML an end-to-end run visibly used *)
Record root_case := mkRootCase {
  rc_chain : list dirinfo;
  rc_override_given : bool; rc_override_is_file : bool;
  rc_obs_root : nat;
  rc_obs_toml : toml_choice }.

(* 1: the model's root differs from rattr's; 2: the selected TOML differs *)
Definition root_code (k : root_case) : nat :=
  (if Nat.eqb (find_root (rc_chain k)) (rc_obs_root k) then 0 else 1)
  + (if choice_eqb (select_toml (rc_override_given k) (rc_override_is_file k) (rc_chain k)) (rc_obs_toml k) then 0 else 2).
