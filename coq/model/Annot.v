(* Model of rattr's annotations and exclusions:
     - FileAnalyser.visit_AnyFunctionDef / visit_ClassDef / visit_LambdaAssign and ClassAnalyser: which
       top-level definitions get an IR entry, and from where (body, rattr_results declaration);
     - safe_eval + parse_rattr_results_from_annotation_args_impl + validate_rattr_results: which decorator
       arguments are accepted, and what the declared IR is.
   Oracles: the --exclude patterns (regular expressions), rattr's identifier pattern (is_name). *)
From RattrV Require Export Base Str Context CallSwaps FuncAn Results.
Open Scope string_scope.
Open Scope list_scope.

(* ---------- decorator argument values, as safe_eval sees the expressions ---------- *)
Inductive pyval :=
| VNum | VBytes | VConst                      (* numbers, bytes, None / True / False *)
| VStr (s : string)
| VList (l : list pyval) | VTuple (l : list pyval) | VSet (l : list pyval)
| VDict (kvs : list (pyval * pyval))
| VDictUnpack                                 (* {**x}: a None key *)
| VBad.                                       (* any other expression: not evaluable at compile time *)

Fixpoint hashable (v : pyval) : bool :=
  match v with
  | VList _ | VSet _ | VDict _ | VDictUnpack | VBad => false
  | VTuple l => forallb hashable l
  | _ => true
  end.

(* safe_eval succeeds: every sub-expression is a literal, sets hold hashable elements, dict keys are hashable *)
Fixpoint evaluable (v : pyval) : bool :=
  match v with
  | VBad | VDictUnpack => false
  | VList l | VTuple l => forallb evaluable l
  | VSet l => forallb evaluable l && forallb hashable l
  | VDict kvs => forallb (fun kv => evaluable (fst kv) && evaluable (snd kv) && hashable (fst kv)) kvs
  | _ => true
  end.

Section Annot.
  Variable name_ok : string -> bool.          (* is_name on a str: optional leading star and at-sign, then re_rattr_name *)
  Variable excluded : string -> bool.         (* is_excluded_name *)

  Definition is_name (v : pyval) : bool := match v with VStr s => name_ok s | _ => false end.
  Definition is_set_of_names (v : pyval) : bool := match v with VSet l => forallb is_name l | _ => false end.
  Definition is_list_of_names (v : pyval) : bool := match v with VList l => forallb is_name l | _ => false end.

  Definition call_spec_ok (v : pyval) : bool :=
    match v with
    | VTuple [t; VTuple [pos; VDict kvs]] =>
      is_name t && is_list_of_names pos && forallb (fun kv => is_name (fst kv) && is_name (snd kv)) kvs
    | _ => false
    end.
  Definition is_list_of_call_specs (v : pyval) : bool := match v with VList l => forallb call_spec_ok l | _ => false end.

  Definition strs (l : list pyval) : list string := flat_map (fun v => match v with VStr s => [s] | _ => [] end) l.
  Definition str_pairs (kvs : list (pyval * pyval)) : dict :=
    flat_map (fun kv => match kv with (VStr a, VStr b) => [(a, b)] | _ => [] end) kvs.

  Record declared := mkDecl { d_gets : list string; d_sets : list string; d_dels : list string;
                              d_calls : list (string * list string * dict) }.
  Inductive aout := AOk (d : declared) | AFatal.

  Definition kwget (kw : list (option string * pyval)) (k : string) (dflt : pyval) : pyval :=
    match find (fun kv => match fst kv with Some k' => String.eqb k k' | None => false end) kw with
    | Some (_, v) => v | None => dflt end.

  Definition allowed_key (k : option string) : bool :=
    match k with Some s => mem s ["gets"; "sets"; "dels"; "calls"] | None => false end.

  (* @rattr_results with positional arguments pos and keyword arguments kw; the bare `@rattr_results` is pos = kw = [] *)
  Definition annotation (pos : list pyval) (kw : list (option string * pyval)) : aout :=
    if negb (forallb evaluable pos && forallb (fun kv => evaluable (snd kv)) kw) then AFatal
    else if negb (is_nil pos) then AFatal
    else if negb (forallb (fun kv => allowed_key (fst kv)) kw) then AFatal
    else
      let g := kwget kw "gets" (VSet []) in let s := kwget kw "sets" (VSet []) in
      let d := kwget kw "dels" (VSet []) in let c := kwget kw "calls" (VList []) in
      if is_set_of_names g && is_set_of_names s && is_set_of_names d && is_list_of_call_specs c then
        AOk (mkDecl (match g with VSet l => strs l | _ => [] end) (match s with VSet l => strs l | _ => [] end)
                    (match d with VSet l => strs l | _ => [] end)
                    (match c with
                     | VList l => flat_map (fun v => match v with
                                                     | VTuple [VStr t; VTuple [VList pos'; VDict kvs]] => [(t, strs pos', str_pairs kvs)]
                                                     | _ => [] end) l
                     | _ => [] end))
      else AFatal.

  (* ---------- which definitions get an IR entry ---------- *)
  Inductive dkind := DFunc | DClass | DLambda | DStatic (cls : string).
  Record topdef := mkDef { td_name : string; td_kind : dkind; td_ignore : bool; td_results : option (list pyval * list (option string * pyval)) }.

  Inductive entry_src := FromBody | FromDecl (d : declared).
  Inductive fa_out := FEntries (l : list (string * entry_src)) | FFatal.

  (* one definition: None = no entry; static methods follow their class (its rattr_ignore, its exclusion), never their own name *)
  Definition def_entry (t : topdef) : option (option (string * entry_src)) :=      (* outer None = fatal *)
    match td_kind t with
    | DLambda => Some (Some (td_name t, FromBody))
    | DStatic cls => if td_ignore t || excluded cls then Some None else Some (Some (td_name t, FromBody))
    | _ =>
      if td_ignore t then Some None
      else if excluded (td_name t) then Some None
      else match td_results t with
           | None => Some (Some (td_name t, FromBody))
           | Some (pos, kw) => match annotation pos kw with
                               | AOk d => Some (Some (td_name t, FromDecl d))
                               | AFatal => None
                               end
           end
    end.

  Fixpoint file_entries (defs : list topdef) : fa_out :=
    match defs with
    | [] => FEntries []
    | t :: r =>
      match def_entry t with
      | None => FFatal
      | Some e => match file_entries r with
                  | FFatal => FFatal
                  | FEntries l => FEntries (match e with Some x => x :: l | None => l end)
                  end
      end
    end.
End Annot.
