(* A whole run of rattr as far as diagnostics, badness and exit status are concerned, expressed
   with the GENERATED functions of gen/DiagGen.v (error.info/warning/error/fatal,
   Config.increment_badness, Config.is_within_badness_threshold, the phase order of main()).
   Hand-written part: a run is the sequence of diagnostics the analysis emits (each with its
   level, weight and the place it arises in), then those of result simplification (no current
   file), interleaved with main()'s threshold check in the order main() performs them. *)
From RattrV Require Export DiagGen.
Open Scope Z_scope.


Definition emit (a : args) (e : ev) : M unit :=
  fun w =>
    let w := set_place (e_place e) w in
    match e_level e with
    | DInfo => error_info a (e_weight e) w
    | DWarning => error_warning a (e_weight e) w
    | DError => error_error a (e_weight e) w
    | DFatal => error_fatal a (e_weight e) w
    end.

Fixpoint emit_all (a : args) (evs : list ev) : M unit :=
  match evs with
  | [] => ret tt
  | e :: r => bind (emit a e) (fun _ => emit_all a r)
  end.


Definition run_phase (a : args) (evA evS : list ev) (p : phase) : M unit :=
  match p with
  | PAnalyse => emit_all a evA
  | PSimplify => emit_all a (map at_nofile evS)
  | PThresholdCheck => main_threshold_check a
  | _ => ret tt
  end.

Fixpoint run_phases (a : args) (evA evS : list ev) (ps : list phase) : M unit :=
  match ps with
  | [] => ret tt
  | p :: r => bind (run_phase a evA evS p) (fun _ => run_phases a evA evS r)
  end.

Definition run (a : args) (evA evS : list ev) : res unit * world :=
  run_phases a evA evS main_phases world0.

Definition exit_status (r : res unit * world) : Z :=
  match fst r with Ret _ => 0 | Exit1 => 1 | RaiseValueError => 2 end.

