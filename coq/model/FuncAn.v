(* Model of rattr.analyser.function.FunctionAnalyser (rattr/analyser/function.py) with the helpers
   it uses from rattr/analyser/util.py, rattr/ast/util.py, rattr/models/symbol/_symbol.py and the
   getattr-family custom analysers of rattr/plugins/analysers/builtins.py.

   What is modelled: the per-function IR (gets / sets / dels as (full name, base name) pairs, call
   records with arguments and resolved target), the scope chain, the "potentially undefined"
   warnings, and how the analysis ends (Ok / Fatal = error.fatal / Raise = escaping exception).
   NOT modelled: the text of the other diagnostics (non-strict mode is assumed, so error.error
   does not stop the analysis); the `sorted` and `collections.defaultdict` custom analysers
   (outcome Unmodelled - the harness sets such functions aside and counts them). *)
From RattrV Require Export Base Str PyAst Naming Context.
Open Scope string_scope.
Open Scope list_scope.

Definition rname := (string * string)%type.       (* Name symbol: (name, basename) *)

Record callrec := mkCallRec {
  c_name : string;                 (* Call.name (call brackets removed) *)
  c_args : list string;            (* CallArguments.args, self stand-in first *)
  c_kw : dict;                     (* CallArguments.kwargs *)
  c_target : option sym }.

Record vstate := mkV {
  v_gets : list rname; v_sets : list rname; v_dels : list rname;
  v_calls : list callrec;
  v_ctx : ctx;
  v_warn : list (string * pos) }.  (* "'<base>' potentially undefined" with the culprit's position *)

Inductive outcome (A : Type) :=
| Ok (a : A) | Fatal | Raise (cls : string) | Unmodelled.
Arguments Ok {A} a. Arguments Fatal {A}. Arguments Raise {A} cls. Arguments Unmodelled {A}.

Definition M (A : Type) := vstate -> outcome A * vstate.
Definition ret {A} (a : A) : M A := fun s => (Ok a, s).
Definition bind {A B} (m : M A) (k : A -> M B) : M B :=
  fun s => match m s with
           | (Ok a, s') => k a s'
           | (Fatal, s') => (Fatal, s')
           | (Raise c, s') => (Raise c, s')
           | (Unmodelled, s') => (Unmodelled, s')
           end.
Definition fatal {A} : M A := fun s => (Fatal, s).
Definition raise {A} (c : string) : M A := fun s => (Raise c, s).
Definition unmodelled {A} : M A := fun s => (Unmodelled, s).
Notation "x <- m ;; k" := (bind m (fun x => k)) (at level 61, m at next level, right associativity).
Notation "m ;;; k" := (bind m (fun _ => k)) (at level 61, right associativity).

Definition rname_eqb (a b : rname) : bool := String.eqb (fst a) (fst b) && String.eqb (snd a) (snd b).
Fixpoint rmem (x : rname) (l : list rname) : bool :=
  match l with [] => false | y :: r => rname_eqb x y || rmem x r end.
Definition radd (x : rname) (l : list rname) : list rname := if rmem x l then l else l ++ [x].

Definition callrec_eqb (a b : callrec) : bool :=
  String.eqb (c_name a) (c_name b) && strs_eqb (c_args a) (c_args b)
  && dict_eqb (c_kw a) (c_kw b) && opt_sym_eqb (c_target a) (c_target b).
Fixpoint cmem (x : callrec) (l : list callrec) : bool :=
  match l with [] => false | y :: r => callrec_eqb x y || cmem x r end.

Definition add_get (x : rname) : M unit :=
  fun s => (Ok tt, mkV (radd x (v_gets s)) (v_sets s) (v_dels s) (v_calls s) (v_ctx s) (v_warn s)).
Definition add_set (x : rname) : M unit :=
  fun s => (Ok tt, mkV (v_gets s) (radd x (v_sets s)) (v_dels s) (v_calls s) (v_ctx s) (v_warn s)).
Definition add_del (x : rname) : M unit :=
  fun s => (Ok tt, mkV (v_gets s) (v_sets s) (radd x (v_dels s)) (v_calls s) (v_ctx s) (v_warn s)).
Definition add_call (c : callrec) : M unit :=
  fun s => (Ok tt, mkV (v_gets s) (v_sets s) (v_dels s) (if cmem c (v_calls s) then v_calls s else v_calls s ++ [c])
                       (v_ctx s) (v_warn s)).
Definition add_warn (b : string) (p : pos) : M unit :=
  fun s => (Ok tt, mkV (v_gets s) (v_sets s) (v_dels s) (v_calls s) (v_ctx s) (v_warn s ++ [(b, p)])).
Definition get_ctx : M ctx := fun s => (Ok (v_ctx s), s).
Definition mod_ctx (f : ctx -> ctx) : M unit :=
  fun s => (Ok tt, mkV (v_gets s) (v_sets s) (v_dels s) (v_calls s) (f (v_ctx s)) (v_warn s)).

Fixpoint mapM_ {A} (f : A -> M unit) (l : list A) : M unit :=
  match l with [] => ret tt | x :: r => f x ;;; mapM_ f r end.

(* update_results(symbol, ctx) *)
Definition update_results (x : rname) (c : ectx) : M unit :=
  match c with Store => add_set x | Load => add_get x | Del => add_del x end.

Definition lift_names (r : nres) : M (string * string) :=
  match r with
  | NOk b f => ret (b, f)
  | NFatal => fatal
  | NRaise c => raise c
  end.

(* ---------- helpers over nodes that do not visit ---------- *)

(* rattr.ast.util.unravel_names(node, _get_name=basename_of | fullname_of) (unsafe naming) *)
Fixpoint unravel_gen (full : bool) (n : node) {struct n} : M (list string) :=
  match n with
  | ESeq k es _ =>
    match k with
    | KSet => raise "TypeError"
    | _ => (fix go (l : list node) : M (list string) :=
              match l with
              | [] => ret []
              | e :: r => a <- unravel_gen full e ;; b <- go r ;; ret (a ++ b)
              end) es
    end
  | _ => if is_nameable n then bf <- lift_names (names_of false true n) ;; ret [if full then snd bf else fst bf]
         else raise "TypeError"
  end.
Definition unravel_names : node -> M (list string) := unravel_gen false.


Definition params_all (ps : params) : list string :=
  p_posonly ps ++ p_args ps ++ opt_list (p_vararg ps) ++ p_kwonly ps ++ opt_list (p_kwarg ps).
(* add_arguments_to_context: parameters are added with is_argument=True - they shadow whatever an ancestor scope holds *)
Definition add_arguments (ps : params) : M unit :=
  mapM_ (fun nm => mod_ctx (fun c => ctx_add c (mkSym nm KName) true)) (params_all ps).

(* CallArguments.from_call(call, self=...) *)
Fixpoint arg_names (args : list node) : M (list string) :=
  match args with
  | [] => ret []
  | a :: r => bf <- lift_names (old_names true a) ;; rest <- arg_names r ;; ret (snd bf :: rest)
  end.
Fixpoint kwarg_names (kws : list node) (d : dict) : M dict :=
  match kws with
  | [] => ret d
  | EKw (Some k) v :: r => bf <- lift_names (old_names true v) ;; kwarg_names r (dset d k (snd bf))
  | _ :: r => kwarg_names r d
  end.
Definition make_call (fullname : string) (args kws : list node) (target : option sym) (self : option string) : M callrec :=
  a <- arg_names args ;;
  k <- kwarg_names kws [] ;;
  ret (mkCallRec (without_call_brackets fullname) (opt_list self ++ a) k target).

Definition is_seq_tl (n : node) : bool :=      (* isinstance(n, (ast.Tuple, ast.List)) *)
  match n with ESeq KTuple _ _ | ESeq KList _ _ => true | _ => false end.
Definition seq_elts (n : node) : list node := match n with ESeq _ es _ => es | _ => [] end.
Definition is_lambda (n : node) : bool := match n with ELambda _ _ _ _ => true | _ => false end.
Definition is_call (n : node) : bool := match n with ECall _ _ _ _ => true | _ => false end.

(* assignment_is_one_to_one (rattr/analyser/util.py) *)
Definition one_to_one (targets : list node) (value : option node) : bool :=
  match targets with
  | [t] => negb (is_seq_tl t) && match value with Some v => negb (is_seq_tl v) | None => true end
  | _ => false
  end.

(* lambda_in_rhs *)
Definition lambda_in_rhs (value : option node) : bool :=
  match value with
  | Some v => is_lambda v || (is_seq_tl v && existsb is_lambda (seq_elts v))
  | None => false
  end.

(* _target_is_namedtuple(call): get_fullname(call.func, safe=True) is "namedtuple" or ends with ".namedtuple" *)
Definition target_is_namedtuple (call : node) : M bool :=
  match call with
  | ECall f _ _ _ =>
    bf <- lift_names (old_names true f) ;;
    ret (String.eqb (snd bf) "namedtuple" || ends_with ".namedtuple" (snd bf))
  | _ => ret false
  end.
Fixpoint any_namedtuple (es : list node) : M bool :=
  match es with
  | [] => ret false
  | e :: r => if is_call e then b <- target_is_namedtuple e ;; if b then ret true else any_namedtuple r
              else any_namedtuple r
  end.
Definition namedtuple_in_rhs (value : option node) : M bool :=
  match value with
  | Some v => if is_call v then target_is_namedtuple v
              else if is_seq_tl v then any_namedtuple (seq_elts v) else ret false
  | None => ret false
  end.

(* str.isidentifier() on ASCII *)
Definition is_ident_start (c : ascii) : bool :=
  let n := nat_of_ascii c in
  (Nat.leb 65 n && Nat.leb n 90) || (Nat.leb 97 n && Nat.leb n 122) || Nat.eqb n 95.
Definition is_ident_char (c : ascii) : bool :=
  is_ident_start c || (let n := nat_of_ascii c in Nat.leb 48 n && Nat.leb n 57).
Fixpoint all_chars (f : ascii -> bool) (s : string) : bool :=
  match s with EmptyString => true | String c r => f c && all_chars f r end.
Definition isidentifier (s : string) : bool :=
  match s with EmptyString => false | String c r => is_ident_start c && all_chars is_ident_char r end.

(* str.lstrip("*") *)
Fixpoint lstrip_star (s : string) : string :=
  match s with
  | String c r => if Ascii.eqb c "*"%char then lstrip_star r else s
  | EmptyString => s
  end.

(* Context.add_identifiers_to_context: only the targets that are plain (possibly starred) names are defined -
   `p.a = v` and `q[0] = v` set a part of p / q and do not define p / q (fix: the base names were registered before) *)
Definition add_identifiers (target : node) : M unit :=
  names <- unravel_gen true target ;;
  mapM_ (fun nm => mod_ctx (fun c => ctx_add c (mkSym nm KName) false)) (filter isidentifier (map lstrip_star names)).

(* Context.remove_identifiers_from_context: only the targets that are plain names are undefined - `del p.a` and
   `del q[0]` leave p and q defined (fix 0e6fa15; the base names were removed before) *)
Definition remove_identifiers (target : node) : M unit :=
  names <- unravel_gen true target ;;
  mapM_ (fun nm => mod_ctx (fun c => ctx_remove c nm)) (filter isidentifier names).

Definition space : ascii := " "%char.
Fixpoint split_space_aux (s cur : string) : list string :=
  match s with
  | EmptyString => [cur]
  | String c r => if Ascii.eqb c space then cur :: split_space_aux r "" else split_space_aux r (cur ++ String c "")%string
  end.

(* namedtuple_init_signature_from_declaration succeeds (no ValueError)? *)
Definition namedtuple_declaration_ok (value : node) : bool :=
  match value with
  | ECall _ [_; attrs] _ _ =>
    match attrs with
    | ESeq KList es _ => forallb (fun e => match e with EConst (Some _) => true | _ => false end) es
    | EConst (Some s) => String.eqb s "" || forallb isidentifier (split_space_aux s "")
    | _ => false
    end
  | _ => false
  end.

Inductive analyser := ANone | AAttr (fn : string) | AUnmodelled.

Section Analyser.
  Variable mexists : string -> bool.       (* module_exists, an oracle supplied per case *)
  Variable modulename : option string.     (* context.modulename (None when the file is not a module) *)

  Definition call_target (callee : string) : M (option sym) :=
    c <- get_ctx ;; ret (get_call_target mexists c callee).

  (* plugins.get_analyser(target_symbol, modulename=...) over DEFAULT_FUNCTION_ANALYSERS *)
  Definition analyser_for (target : option sym) : analyser :=
    match target with
    | None => ANone
    | Some (mkSym nm k) =>
      let q := match k with
               | KBuiltin => nm
               | KImport qn => qn
               | _ => match modulename with Some m => (m ++ "." ++ nm)%string | None => nm end
               end in
      if mem q ATTR_BUILTINS then AAttr q
      else if String.eqb q "sorted" || String.eqb q "collections.defaultdict" then AUnmodelled
      else ANone
    end.

  (* expr_is_class(expr) of class_in_rhs *)
  Definition expr_is_class (e : node) : M bool :=
    bf <- lift_names (old_names true e) ;;
    t <- call_target (snd bf) ;;
    ret (is_class t).
  Fixpoint any_class (es : list node) : M bool :=
    match es with
    | [] => ret false
    | e :: r => b <- expr_is_class e ;; if b then ret true else any_class r
    end.
  Definition class_in_rhs (value : option node) : M bool :=
    match value with
    | Some v => if is_call v then expr_is_class v
                else if is_seq_tl v then any_class (seq_elts v) else ret false
    | None => ret false
    end.

  (* get_and_verify_name(node, ctx) *)
  Definition get_and_verify_name (n : node) (c : ectx) : M (string * string) :=
    bf <- lift_names (names_of true true n) ;;
    cx <- get_ctx ;;
    (if negb (ctx_in cx (fst bf)) && negb (ctx_eqb c Store) && negb (starts_with LITERAL_PREFIX (fst bf))
     then add_warn (fst bf) (pos_of n) else ret tt) ;;;
    ret bf.

  (* the getattr / setattr / hasattr / delattr custom analysers: on_call(name, node, ctx) *)
  Definition lhs_names_of (full : string) : list rname :=
    let parts := split_dot full in
    map (fun k => let nm := join_dot (firstn (List.length parts - k) parts) in (nm, basename_from_name nm))
        (seq 1 (List.length parts - 1)).
  Definition attr_analyser (fn : string) (target_name : string) (call : node) : M unit :=
    match xpair_call target_name call with
    | PFatal => fatal
    | PRaise c => raise c
    | POk first second =>
      let full := (first ++ "." ++ second)%string in
      let base := replace_all "()" "" (replace_all "[]" "" (replace_all "*" ""
                    (match split_dot first with x :: _ => x | [] => "" end))) in
      let lhs := lhs_names_of full in
      if String.eqb fn "setattr" then mapM_ add_get lhs ;;; add_set (full, base)
      else if String.eqb fn "delattr" then mapM_ add_get lhs ;;; add_del (full, base)
      else add_get (full, base) ;;; mapM_ add_get lhs
    end.

  Definition ctx_of_node (n : node) : ectx :=
    match n with
    | EName _ c _ | EAttr _ _ c _ | ESub _ _ c _ | EStar _ c _ => c
    | _ => Load
    end.

  Definition children_generic (n : node) : list node :=
    match n with
    | EKw _ v => [v]
    | ESeq _ es _ => es
    | EDict ks vs => ks ++ vs
    | EWithItem c vs => c :: vs
    | Other _ _ cs => cs
    | _ => []
    end.

  (* the receiver-prefix rule of visit_Call *)
  Definition receiver_prefixes (fullname : string) : list rname :=
    let parts := drop_last1 (split_dot (without_call_brackets fullname)) in
    match accumulate_dots parts with
    | _ :: rest => map (fun a => (a, match parts with p0 :: _ => p0 | [] => "" end)) rest
    | [] => []
    end.

  (* visit_ClassAssign up to (not including) the visit of the call's arguments *)
  Definition class_assign_pre (t f : node) (cargs ckws : list node) (cp : pos) (targets : list node) : M unit :=
    lhs <- lift_names (names_of false true t) ;;
    cn <- lift_names (names_of false true (ECall f cargs ckws cp)) ;;
    init_body <- call_target (snd cn) ;;
    cr <- make_call (snd cn) cargs ckws init_body (Some (snd lhs)) ;;
    add_call cr ;;;
    add_set (snd lhs, fst lhs) ;;;
    mapM_ add_identifiers targets.

  (* ---- the visitors, as functions of the (already built) visits of their sub-nodes ---- *)

  (* visit_compound_name; visit_slices = visit_slices_passed_over_by_name(node) *)
  Definition compound_body (n v : node) (c : ectx) (visit_v visit_slices : M unit) : M unit :=
    bf <- get_and_verify_name n c ;;
    (if is_nameable v then ret tt else visit_v) ;;;
    visit_slices ;;;
    update_results (snd bf, fst bf) c.

  (* visit_slices_passed_over_by_name: the index / slice of every subscript on the spine of a nameable, outermost
     first, through attributes, subscripts, stars and the callee of calls *)
  Fixpoint spine_with (vis : node -> M unit) (m : node) {struct m} : M unit :=
    match m with
    | ESub v sl _ _ => vis sl ;;; spine_with vis v
    | EAttr v _ _ _ | EStar v _ _ => spine_with vis v
    | ECall f _ _ _ => spine_with vis f
    | _ => ret tt
    end.

  (* visit_Call; visit_args = the visits of the positional and keyword arguments *)
  Definition call_body (n : node) (args kws : list node) (visit_args : M unit) : M unit :=
    bf0 <- lift_names (names_of true false n) ;;
    let target_name := without_call_brackets (snd bf0) in
    tsym <- call_target target_name ;;
    match analyser_for tsym with
    | AUnmodelled => unmodelled
    | AAttr fn => attr_analyser fn target_name n
    | ANone =>
      bf <- get_and_verify_name n Load ;;
      let fullname := snd bf in
      target <- call_target fullname ;;
      let self_name := match target with
                       | Some (mkSym nm KClass) => Some (LITERAL_PREFIX ++ nm)%string
                       | _ => None
                       end in
      mapM_ add_get (receiver_prefixes fullname) ;;;
      cr <- make_call fullname args kws target self_name ;;
      add_call cr ;;;
      visit_args
    end.

  (* visit_AnyAssign (after the visit_NamedExpr prologue) *)
  Definition assign_body (targets : list node) (value : option node)
             (prologue class_branch generic : M unit) : M unit :=
    prologue ;;;
    if lambda_in_rhs value then
      (* visit_LambdaAssign *)
      if negb (one_to_one targets value) then fatal
      else match targets with
           | t :: _ => bf <- lift_names (names_of false true t) ;;
                       mod_ctx (fun c => ctx_add c (mkSym (without_call_brackets (snd bf)) KFunc) false)
           | [] => fatal
           end
    else
      nt <- namedtuple_in_rhs value ;;
      if nt then
        (* visit_NamedTupleAssign *)
        if negb (one_to_one targets value) then fatal
        else match targets, value with
             | t :: _, Some v =>
               bf <- lift_names (names_of false true t) ;;
               if namedtuple_declaration_ok v
               then mod_ctx (fun c => ctx_add c (mkSym (without_call_brackets (snd bf)) KClass) false)
               else ret tt
             | _, _ => fatal
             end
      else
        cl <- class_in_rhs value ;;
        if cl then
          (* visit_ClassAssign *)
          if negb (one_to_one targets value) then fatal else class_branch
        else
          mapM_ add_identifiers targets ;;; generic.

  (* the class-instantiation case of visit_ReturnValue *)
  Definition retcall_body (n : node) (args kws : list node) (visit_args : M unit) : M bool :=
    if existsb (is_call_to_fn n) ATTR_BUILTINS then ret false
    else
      bf <- lift_names (names_of true true n) ;;
      target <- call_target (snd bf) ;;
      if negb (is_class target) then ret false
      else
        cn <- lift_names (names_of false true n) ;;
        init_body <- call_target (snd cn) ;;
        cr <- make_call (snd cn) args kws init_body (Some "@ReturnValue") ;;
        add_call cr ;;;
        visit_args ;;; ret true.

  Fixpoint visit (n : node) {struct n} : M unit :=
    let vlist := fix vlist (l : list node) : M unit :=
                   match l with [] => ret tt | x :: r => visit x ;;; vlist r end in
    let spine := fix spine (m : node) : M unit :=
                   match m with
                   | ESub v sl _ _ => visit sl ;;; spine v
                   | EAttr v _ _ _ | EStar v _ _ => spine v
                   | ECall f _ _ _ => spine f
                   | _ => ret tt
                   end in
    (* generic_visit of an assignment statement after registration / dispatch *)
    match n with
    (* ---- visit_Name ---- *)
    | EName _ c _ =>
      bf <- get_and_verify_name n c ;; update_results (snd bf, fst bf) c
    (* ---- visit_compound_name: Attribute / Subscript / Starred ---- *)
    | EAttr v _ c _ | ESub v _ c _ | EStar v c _ => compound_body n v c (visit v) (spine n)
    (* ---- visit_Call ---- *)
    | ECall f args kws _ => call_body n args kws (vlist args ;;; vlist kws ;;; spine f)
    (* ---- assignments ---- *)
    | SAssign ts v _ =>
      assign_body ts (Some v) (ret tt)
        (match ts, v with
         | t :: _, ECall f a k p => class_assign_pre t f a k p ts ;;; vlist a ;;; vlist k
         | _, _ => raise "RuntimeError"
         end)
        (vlist ts ;;; visit v)
    | SAnnAssign t ann vs _ =>
      assign_body [t] (match vs with [v] => Some v | _ => None end) (ret tt)
        (match vs with
         | [ECall f a k p] => class_assign_pre t f a k p [t] ;;; vlist a ;;; vlist k
         | _ => raise "RuntimeError"
         end)
        (visit t ;;; visit ann ;;; vlist vs)
    | SAugAssign t v _ =>
      assign_body [t] (Some v) (ret tt)
        (match v with
         | ECall f a k p => class_assign_pre t f a k p [t] ;;; vlist a ;;; vlist k
         | _ => raise "RuntimeError"
         end)
        (visit t ;;; visit v)
    | ENamed t v _ =>
      assign_body [t] (Some v)
        (* visit_NamedExpr prologue; Name built from the unpacked names_of pair: name := base, basename := full *)
        (bf <- lift_names (names_of false true t) ;;
         add_set (fst bf, snd bf) ;;;
         (if lambda_in_rhs (Some v) then visit v else ret tt))
        (match v with
         | ECall f a k p => class_assign_pre t f a k p [t] ;;; vlist a ;;; vlist k
         | _ => raise "RuntimeError"
         end)
        (visit t ;;; visit v)
    (* ---- visit_Delete ---- *)
    | SDelete ts _ => vlist ts ;;; mapM_ remove_identifiers ts       (* the targets are visited while still defined (fix 686ac63) *)
    (* ---- visit_For / AsyncFor ---- *)
    | SFor t it body orelse _ =>
      add_identifiers t ;;; visit t ;;; visit it ;;; vlist body ;;; vlist orelse
    (* ---- visit_With / AsyncWith ---- *)
    | SWith items body _ =>
      mapM_ (fun item => match item with
                         | EWithItem _ [vars] => add_identifiers vars
                         | _ => ret tt
                         end) items ;;;
      vlist items ;;; vlist body
    (* ---- nested function definitions and anonymous lambdas ---- *)
    | SFuncDef name ps _ body _ =>
      mod_ctx (fun c => ctx_add c (mkSym name KFunc) false) ;;;
      mod_ctx ctx_push ;;; add_arguments ps ;;; vlist body ;;; mod_ctx ctx_pop
    | ELambda ps _ body _ =>
      mod_ctx ctx_push ;;; add_arguments ps ;;; visit body ;;; mod_ctx ctx_pop
    | SClassDef _ _ _ => ret tt
    (* ---- comprehensions ---- *)
    | EComp _ elts gens _ =>
      mod_ctx ctx_push ;;; vlist gens ;;; vlist elts ;;; mod_ctx ctx_pop
    | EGen t it ifs =>
      add_identifiers t ;;; visit t ;;; visit it ;;; vlist ifs
    (* ---- visit_Return ---- *)
    | SReturn [v] _ =>
      handled <- retval v ;; if handled then ret tt else visit v
    | SReturn _ _ => ret tt
    (* ---- the forbidden zone ---- *)
    | SForbidden _ _ => fatal
    (* ---- generic_visit ---- *)
    | EKw _ v => visit v
    | ESeq _ es _ => vlist es
    | EDict ks vs => vlist ks ;;; vlist vs
    | EWithItem c vs => visit c ;;; vlist vs
    | Other k bs cs =>
      (* visit_ExceptHandler: `except E as name` defines name for the handler and undefines it afterwards (fix 5c7d323) *)
      match bs with
      | [nm] => if String.eqb k "ExceptHandler"
                then mod_ctx (fun c => ctx_add c (mkSym nm KName) false) ;;; vlist cs ;;; mod_ctx (fun c => ctx_remove c nm)
                else vlist cs
      | _ => vlist cs
      end
    | EConst _ | ENoKey => ret tt
    end

  (* visit_ReturnValue(node): True iff the return value has been fully handled *)
  with retval (n : node) {struct n} : M bool :=
    let vlist := fix vlist (l : list node) : M unit :=
                   match l with [] => ret tt | x :: r => visit x ;;; vlist r end in
    let rlist := fix rlist (l : list node) : M unit :=
                   match l with
                   | [] => ret tt
                   | ENoKey :: r => rlist r
                   | x :: r => h <- retval x ;; (if h then ret tt else visit x) ;;; rlist r
                   end in
    match n with
    | ESeq _ es _ => rlist es ;;; ret true
    | EDict ks vs => rlist ks ;;; rlist vs ;;; ret true
    | ECall _ args kws _ => retcall_body n args kws (vlist args ;;; vlist kws)
    | _ => ret false
    end.

  (* FunctionAnalyser(ast_function, context).analyse() *)
  Definition analyse (fn : node) : M unit :=
    match fn with
    | SFuncDef _ ps _ body _ =>
      mod_ctx ctx_push ;;; add_arguments ps ;;; mapM_ visit body ;;; mod_ctx ctx_pop
    | ELambda ps _ body _ =>
      mod_ctx ctx_push ;;; add_arguments ps ;;; visit body ;;; mod_ctx ctx_pop
    | _ => raise "TypeError"
    end.
End Analyser.

Definition init_state (c : ctx) : vstate := mkV [] [] [] [] c [].
