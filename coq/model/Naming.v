(* Model of both naming code paths:
     names_of                    rattr/ast/_util.py       (accesses)
     get_basename_fullname_pair  rattr/analyser/util.py   (call arguments; deprecated twin)
   with their helpers get_python_attr_access_fn_obj_attr_pair / get_xattr_obj_name_pair.
   Results: NOk base full | NFatal (error.fatal -> SystemExit) | NRaise cls (escaping exception). *)
From RattrV Require Export Base PyAst.
Open Scope string_scope.
Open Scope list_scope.

Inductive nres := NOk (base full : string) | NFatal | NRaise (cls : string).

Definition ATTR_BUILTINS : list string := ["delattr"; "getattr"; "hasattr"; "setattr"].
Definition LITERAL_PREFIX : string := "@".

(* f"{config.LITERAL_VALUE_PREFIX}{node.__class__.__name__}" *)
Definition safe_name (n : node) : string := (LITERAL_PREFIX ++ kind_of n)%string.

(* __specific_name_error *)
Definition name_error_class (n : node) : string :=
  let k := kind_of n in
  if String.eqb k "UnaryOp" then "RattrUnaryOpInNameable"
  else if String.eqb k "BinOp" then "RattrBinOpInNameable"
  else if String.eqb k "Constant" then "RattrConstantInNameable"
  else if mem k ["JoinedStr"; "List"; "Tuple"; "Set"; "Dict"] then "RattrLiteralInNameable"
  else if mem k ["ListComp"; "SetComp"; "GeneratorExp"; "DictComp"] then "RattrComprehensionInNameable"
  else "TypeError".

(* is_call_to_fn(node, target): a direct call `target(...)` *)
Definition is_call_to_fn (n : node) (fn : string) : bool :=
  match n with
  | ECall (EName id _ _) _ _ _ => String.eqb id fn
  | _ => false
  end.

Inductive pres := POk (lhs attr : string) | PFatal | PRaise (cls : string).

(* body of get_python_attr_access_fn_obj_attr_pair(fn, call) on the call's positional arguments;
   a notation (not a definition) so that the recursive calls stay visible to the guard checker *)
Notation pair_body NAMES PAIRCALL fn args :=
  (match args with
   | obj :: name :: _ =>
     match NAMES true true name with
     | NFatal => PFatal
     | NRaise c => PRaise c
     | NOk _ varname =>
       let attr := match name with EConst (Some s) => s | _ => ("<" ++ varname ++ ">")%string end in
       match obj with
       | ECall _ _ _ _ =>
         if is_call_to_fn obj fn then
           match PAIRCALL fn obj with
           | POk l a => POk (l ++ "." ++ a)%string attr
           | e => e
           end
         else PFatal      (* "may only be nested in other calls to" *)
       | _ =>
         match NAMES false true obj with
         | NOk _ lhs => POk lhs attr
         | NFatal => PFatal
         | NRaise c => PRaise c
         end
       end
     end
   | _ => PFatal          (* "too few args" *)
   end).

(* names_of(node, unravel_attr_access_calls=unravel, safe=safe) *)
Fixpoint names_of (safe unravel : bool) (n : node) {struct n} : nres :=
  match n with
  | EName id _ _ => NOk id id
  | ECall f args _ _ =>
    match names_of safe true f with
    | NOk b lhs =>
      if unravel && mem b ATTR_BUILTINS then
        match pair_body names_of pair_call b args with
        | POk obj attr => NOk b (obj ++ "." ++ attr)%string
        | PFatal => NFatal
        | PRaise c => NRaise c
        end
      else NOk b (lhs ++ "()")%string
    | e => e
    end
  | EAttr v a _ _ =>
    match names_of safe true v with NOk b lhs => NOk b (lhs ++ "." ++ a)%string | e => e end
  | ESub v _ _ _ =>
    match names_of safe true v with NOk b lhs => NOk b (lhs ++ "[]")%string | e => e end
  | EStar v _ _ =>
    match names_of safe true v with NOk b lhs => NOk b ("*" ++ lhs)%string | e => e end
  | _ => if safe then NOk (safe_name n) (safe_name n) else NRaise (name_error_class n)
  end
(* get_python_attr_access_fn_obj_attr_pair(fn, call) *)
with pair_call (fn : string) (n : node) {struct n} : pres :=
  match n with
  | ECall _ args _ _ => pair_body names_of pair_call fn args
  | _ => PFatal
  end.

Notation xpair_body OLD XPAIRCALL fn args :=
  (match args with
   | obj :: attr :: _ =>
     let attr_name :=
       match attr with
       | EConst (Some s) => POk "" s
       | _ => match OLD true attr with
              | NOk _ full => POk "" ("<" ++ full ++ ">")%string
              | NFatal => PFatal
              | NRaise c => PRaise c
              end
       end in
     match attr_name with
     | POk _ an =>
       match obj with
       | ECall _ _ _ _ =>
         if is_call_to_fn obj fn then
           match XPAIRCALL fn obj with
           | POk l a => POk (l ++ "." ++ a)%string an
           | e => e
           end
         else PFatal
       | _ =>
         if is_nameable obj then
           match OLD false obj with
           | NOk _ full => POk full an
           | NFatal => PFatal
           | NRaise c => PRaise c
           end
         else PRaise "TypeError"
       end
     | e => e
     end
   | _ => PFatal
   end).

(* get_basename_fullname_pair(node, safe) *)
Fixpoint old_names (safe : bool) (n : node) {struct n} : nres :=
  match n with
  | EName id _ _ => NOk id id
  | ECall f args _ _ =>
    match old_names safe f with
    | NOk b sub =>
      if existsb (is_call_to_fn n) ATTR_BUILTINS then
        match xpair_body old_names xpair_call b args with
        | POk obj attr => NOk b (obj ++ "." ++ attr)%string
        | PFatal => NFatal
        | PRaise c => NRaise c
        end
      else NOk b (sub ++ "()")%string
    | e => e
    end
  | EAttr v a _ _ =>
    match old_names safe v with NOk b sub => NOk b (sub ++ "." ++ a)%string | e => e end
  | ESub v _ _ _ =>
    match old_names safe v with NOk b sub => NOk b (sub ++ "[]")%string | e => e end
  | EStar v _ _ =>
    match old_names safe v with NOk b sub => NOk b ("*" ++ sub)%string | e => e end
  | _ => if safe then NOk (safe_name n) (safe_name n) else NRaise (name_error_class n)
  end
(* get_xattr_obj_name_pair(xattr, call) *)
with xpair_call (fn : string) (n : node) {struct n} : pres :=
  match n with
  | ECall _ args _ _ => xpair_body old_names xpair_call fn args
  | _ => PFatal
  end.

Definition nres_eqb (a b : nres) : bool :=
  match a, b with
  | NOk b1 f1, NOk b2 f2 => String.eqb b1 b2 && String.eqb f1 f2
  | NFatal, NFatal => true
  | NRaise c1, NRaise c2 => String.eqb c1 c2
  | _, _ => false
  end.
