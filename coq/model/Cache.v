(* Model of rattr's result cache (rattr/__main__.py main, rattr/models/results/util.py
   target_cache_file_is_up_to_date / make_cacheable_results): what is recorded, when a hit is declared,
   and the protocol of main() over a history of edits and runs.
   Parameters: file contents and their hash (md5, an oracle), the analysis itself and the set of
   import origins it records (abstract functions of the world - see the frame hypothesis in the proofs). *)
From RattrV Require Export Base Str.
Open Scope string_scope.
Open Scope list_scope.

Section Cache.
  Variable content : Type.                       (* file contents; a missing file reads as `empty` *)
  Variable empty : content.
  Variable hash : content -> string.             (* hash_file_content *)
  Variable results : Type.

  Record world := mkWorld {
    w_target : string;                           (* config.arguments.target *)
    w_files : string -> content;                 (* the file system: path -> contents (missing = empty) *)
    w_args_hash : string;                        (* make_arguments_hash(): follow level, excluded imports / names, prefix *)
    w_plugins_hash : string;                     (* make_plugins_hash() *)
    w_version : string }.

  Variable analysis : world -> results.          (* parse_and_analyse_file + generate_results_from_ir *)
  Variable recorded : world -> list string.      (* origins listed by make_cacheable_import_info *)

  Record cdoc := mkDoc {
    c_version : string; c_args_hash : string; c_plugins_hash : string;
    c_filepath : string; c_filehash : string;
    c_imports : list (string * string);          (* (filepath, filehash) *)
    c_results : results }.

  (* make_cacheable_results *)
  Definition snapshot (w : world) : cdoc :=
    mkDoc (w_version w) (w_args_hash w) (w_plugins_hash w) (w_target w) (hash (w_files w (w_target w)))
          (map (fun p => (p, hash (w_files w p))) (recorded w)) (analysis w).

  (* target_cache_file_is_up_to_date, for a document that structures *)
  Definition up_to_date (w : world) (c : cdoc) : bool :=
    String.eqb (c_version c) (w_version w)
    && String.eqb (c_args_hash c) (w_args_hash w)
    && String.eqb (c_plugins_hash c) (w_plugins_hash w)
    && String.eqb (c_filepath c) (w_target w)
    && String.eqb (c_filehash c) (hash (w_files w (w_target w)))
    && forallb (fun ph => String.eqb (snd ph) (hash (w_files w (fst ph)))) (c_imports c).

  (* the cache file: absent, unreadable as a cache document, or a document *)
  Inductive cache_file := CAbsent | CMalformed | CDoc (c : cdoc).

  Inductive op :=
  | Edit (path : string) (c : content)           (* any file: target, direct or transitive import, unrelated *)
  | SetArgs (h : string)                         (* change an analysis-relevant option *)
  | SetVersion (v : string)
  | SetPlugins (h : string)
  | Overwrite (cf : cache_file)                  (* the cache file is replaced from outside: truncated (CMalformed), hand-edited, ... *)
  | Remove                                       (* delete the cache file *)
  | Run                                          (* rattr -C cache *)
  | RunRefresh.                                  (* rattr -C cache -r *)

  Definition set_file (w : world) (p : string) (c : content) : world :=
    mkWorld (w_target w) (fun q => if String.eqb q p then c else w_files w q) (w_args_hash w) (w_plugins_hash w) (w_version w).

  (* what a run reports: the results it stands for, and whether it declared a hit *)
  Record run_obs := mkRun { r_hit : bool; r_results : results }.

  (* main(): `-r` unlinks first; a hit returns early; otherwise analyse and write the cache *)
  Definition run_step (refresh : bool) (w : world) (cf : cache_file) : cache_file * run_obs :=
    let cf1 := if refresh then CAbsent else cf in
    match cf1 with
    | CDoc c => if up_to_date w c then (cf1, mkRun true (c_results c))
                else (CDoc (snapshot w), mkRun false (analysis w))
    | _ => (CDoc (snapshot w), mkRun false (analysis w))
    end.

  Definition step (st : world * cache_file) (o : op) : (world * cache_file) * option run_obs :=
    let '(w, cf) := st in
    match o with
    | Edit p c => ((set_file w p c, cf), None)
    | SetArgs h => ((mkWorld (w_target w) (w_files w) h (w_plugins_hash w) (w_version w), cf), None)
    | SetVersion v => ((mkWorld (w_target w) (w_files w) (w_args_hash w) (w_plugins_hash w) v, cf), None)
    | SetPlugins h => ((mkWorld (w_target w) (w_files w) (w_args_hash w) h (w_version w), cf), None)
    | Overwrite cf' => ((w, cf'), None)
    | Remove => ((w, CAbsent), None)
    | Run => let '(cf', r) := run_step false w cf in ((w, cf'), Some r)
    | RunRefresh => let '(cf', r) := run_step true w cf in ((w, cf'), Some r)
    end.

  Fixpoint run_history (st : world * cache_file) (ops : list op) : (world * cache_file) * list (world * run_obs) :=
    match ops with
    | [] => (st, [])
    | o :: r =>
      let '(st', obs) := step st o in
      let '(st'', rest) := run_history st' r in
      (st'', match obs with Some ob => (fst st', ob) :: rest | None => rest end)
    end.
End Cache.

Arguments w_target {content} _.
Arguments w_files {content} _ _.
Arguments w_args_hash {content} _.
Arguments w_plugins_hash {content} _.
Arguments w_version {content} _.
Arguments mkWorld {content} _ _ _ _ _.
Arguments c_version {results} _.
Arguments c_args_hash {results} _.
Arguments c_plugins_hash {results} _.
Arguments c_filepath {results} _.
Arguments c_filehash {results} _.
Arguments c_imports {results} _.
Arguments c_results {results} _.
Arguments mkDoc {results} _ _ _ _ _ _ _.
Arguments CAbsent {results}.
Arguments CMalformed {results}.
Arguments CDoc {results} _.
Arguments r_hit {results} _.
Arguments r_results {results} _.
Arguments mkRun {results} _ _.
Arguments Edit {content results} _ _.
Arguments SetArgs {content results} _.
Arguments SetVersion {content results} _.
Arguments SetPlugins {content results} _.
Arguments Overwrite {content results} _.
Arguments Remove {content results}.
Arguments Run {content results}.
Arguments RunRefresh {content results}.
