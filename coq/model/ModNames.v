(* Model of rattr.module_locator.util / _locate (module-name arithmetic and lookup):
   derive_absolute_module_name, iter_module_names_right/left, find_module_name_and_spec,
   derive_module_name_from_path, find_module_in_path, locate_module_in_python_path.
   The file system and the search path are parameters (a finite listing supplied per case by the
   harness, universally quantified in the theorems). *)
From RattrV Require Export Base.
Open Scope string_scope.
Open Scope list_scope.

(* ---------- strings ---------- *)

Definition dot : ascii := "."%char.

(* str.split(".") *)
Fixpoint split_dot_aux (s : string) (cur : string) : list string :=
  match s with
  | EmptyString => [cur]
  | String c r => if Ascii.eqb c dot then cur :: split_dot_aux r "" else split_dot_aux r (cur ++ String c "")%string
  end.
Definition split_dot (s : string) : list string := split_dot_aux s "".

(* ".".join(parts) *)
Definition join_dot (l : list string) : string := String.concat "." l.

Definition starts_with_dot (s : string) : bool :=
  match s with String c _ => Ascii.eqb c dot | EmptyString => false end.

(* l[:-n] for n > 0 *)
Definition drop_last (n : nat) (l : list string) : list string := firstn (List.length l - n) l.

(* ---------- derive_absolute_module_name ---------- *)

(* list-level core: `base.split(".")[:-level]` after the __init__ adjustment *)
Definition derive_absolute_l (base : list string) (target : option (list string)) (level : nat) (is_init : bool)
  : list string * bool (* parts, and whether the level slice was applied *) :=
  let level' := if is_init then level - 1 else level in
  let base' := if Nat.ltb 0 level' then drop_last level' base else base in
  (base' ++ match target with Some t => t | None => [] end, Nat.ltb 0 level').

(* the function itself, on strings, exactly as the f-strings build the result *)
Definition derive_absolute (base : string) (target : option string) (level : nat) (is_init : bool) : string :=
  let level' := if is_init then level - 1 else level in
  let base' := if Nat.ltb 0 level' then join_dot (drop_last level' (split_dot base)) else base in
  match target with Some t => (base' ++ "." ++ t)%string | None => base' end.

(* ---------- iter_module_names_right / find_module_name_and_spec ---------- *)

(* ".".join(parts), then ".".join(parts[:-k]) for k = 1 .. len-1 *)
Fixpoint prefixes_from (n : nat) (parts : list string) : list (list string) :=
  match n with
  | 0 => []
  | S m => firstn (S m) parts :: prefixes_from m parts
  end.
Definition names_right_l (parts : list string) : list (list string) :=
  match parts with
  | [] => [[]]                                   (* yields "" once *)
  | _ => prefixes_from (List.length parts) parts
  end.
Definition names_right (parts : list string) : list string := map join_dot (names_right_l parts).

(* suffixes, longest first: ".".join(parts[k:]) for k = 0 .. len-1 *)
Fixpoint suffixes_l (parts : list string) : list (list string) :=
  match parts with
  | [] => []
  | _ :: r => parts :: suffixes_l r
  end.
Definition names_left (parts : list string) : list string := map join_dot (suffixes_l parts).

Section Locator.
  (* a path is its list of components from the file-system root *)
  Variable is_dir : list string -> bool.
  Variable is_file : list string -> bool.
  Variable search_path : list (list string).     (* iter_python_path_dirs(), in order *)
  Variable stdlib : string -> bool.               (* is_in_stdlib *)
  Variable stdlib_exists : string -> bool.        (* importlib find_spec for stdlib names *)

  (* find_module_in_path(python_path, modulename) *)
  Definition with_py (parts : list string) : list string :=
    match rev parts with
    | [] => []
    | last :: r => rev ((last ++ ".py")%string :: r)
    end.
  Definition find_module_in_path (dir : list string) (modulename : string) : option (list string) :=
    if String.eqb modulename "" then None
    else
      let loc := dir ++ split_dot modulename in
      let file := if is_dir loc then loc ++ ["__init__.py"] else with_py loc in
      if is_file file then Some file else None.

  Fixpoint first_some {A B} (f : A -> option B) (l : list A) : option B :=
    match l with
    | [] => None
    | x :: r => match f x with Some y => Some y | None => first_some f r end
    end.

  (* locate_module_in_python_path(m)[0] *)
  Definition locate (modulename : string) : option (list string) :=
    first_some (fun d => find_module_in_path d modulename) search_path.

  (* module_exists / find_module_spec_fast(m) is not None *)
  Definition module_exists (modulename : string) : bool :=
    if stdlib modulename then stdlib_exists modulename
    else match locate modulename with Some _ => true | None => false end.

  (* find_module_name_and_spec(target)[0] *)
  Definition find_module_name (target : string) : option string :=
    if starts_with_dot target then None
    else find module_exists (names_right (split_dot target)).

  (* derive_module_name_from_path: components of the path as written (for an absolute path the
     leading separator contributes nothing after strip(".")) *)
  Definition remove_suffix_py (s : string) : string :=
    let n := String.length s in
    if Nat.leb 3 n && String.eqb (substring (n - 3) 3 s) ".py" then substring 0 (n - 3) s else s.
  Definition longest_possible (comps : list string) : list string :=
    match rev comps with
    | [] => []
    | last :: r =>
      if String.eqb last "__init__.py" && negb (is_nil r) then rev r
      else rev (remove_suffix_py last :: r)
    end.
  Definition derive_module_name_from_path (comps : list string) : option string :=
    find module_exists (names_left (longest_possible comps)).
End Locator.
