(* The cache document as JSON: how rattr structures what it finds in the cache file
   (deserialise(..., type=CacheableResults): cattrs over attrs classes with defaults) - at the level
   that decides "declared up to date or not":
     - the document must be an object (null / numbers raise; strings and lists structure to the all-defaults
       document, whose empty version never matches - both give "not up to date");
     - a missing key takes the attrs default ("" for the strings, Path() = "." for paths, [] for imports,
       no results for results);
     - str fields accept anything (str(x)); a non-string becomes a spelling that is no hash / version;
     - paths must be strings (Path(x) raises otherwise);
     - imports: any iterable - a list, the keys of an object, the characters of a string; elements that
       are objects are structured field-wise, strings and lists structure to the default entry (".", ""),
       anything else raises;
     - results: an object of function-name -> object with the four list fields. *)
From RattrV Require Export Base Str Json Cache.
Open Scope string_scope.
Open Scope list_scope.

Definition coerced : string := "<coerced>".        (* str(x) of a non-string JSON value: never a hash or a version *)

Definition de_strish (o : option json) : string :=
  match o with None => "" | Some (JStr s) => s | Some _ => coerced end.

Definition de_path (o : option json) : option string :=
  match o with None => Some "." | Some (JStr s) => Some (if String.eqb s "" then "." else s) | Some _ => None end.

Definition de_import (j : json) : option (string * string) :=
  match j with
  | JObj kvs => match de_path (jget kvs "filepath") with
                | Some p => Some (p, de_strish (jget kvs "filehash"))
                | None => None
                end
  | JStr _ | JArr _ => Some (".", "")
  | _ => None
  end.

Fixpoint de_imports_list (l : list json) : option (list (string * string)) :=
  match l with
  | [] => Some []
  | j :: r => match de_import j, de_imports_list r with
              | Some i, Some t => Some (i :: t)
              | _, _ => None
              end
  end.

Fixpoint chars (s : string) : list json :=
  match s with EmptyString => [] | String c r => JStr (String c EmptyString) :: chars r end.

Definition de_imports (o : option json) : option (list (string * string)) :=
  match o with
  | None => Some []
  | Some (JArr l) => de_imports_list l
  | Some (JObj kvs) => de_imports_list (map (fun kv => JStr (fst kv)) kvs)
  | Some (JStr s) => de_imports_list (chars s)
  | Some _ => None
  end.

(* an iterable of strings-by-coercion *)
Definition is_iterable (j : json) : bool :=
  match j with JArr _ | JObj _ | JStr _ => true | _ => false end.

Definition results_entry_ok (j : json) : bool :=
  match j with
  | JObj kvs =>
    match jget kvs "gets", jget kvs "sets", jget kvs "dels", jget kvs "calls" with
    | Some a, Some b, Some c, Some d => is_iterable a && is_iterable b && is_iterable c && is_iterable d
    | _, _, _, _ => false
    end
  | _ => false
  end.

(* the results are kept as the JSON value itself *)
Definition de_results (o : option json) : option (option json) :=
  match o with
  | None => Some (Some (JObj []))          (* attrs default: FileResults(), which is what {} structures to *)
  | Some (JObj kvs) => if forallb (fun kv => results_entry_ok (snd kv)) kvs then Some (Some (JObj kvs)) else None
  | Some _ => None
  end.

Definition de_cache (j : json) : cache_file (option json) :=
  match j with
  | JObj kvs =>
    match de_path (jget kvs "filepath"), de_imports (jget kvs "imports"), de_results (jget kvs "results") with
    | Some fp, Some imps, Some res =>
      CDoc (mkDoc (de_strish (jget kvs "version")) (de_strish (jget kvs "arguments_hash"))
                  (de_strish (jget kvs "plugins_hash")) fp (de_strish (jget kvs "filehash")) imps res)
    | _, _, _ => CMalformed
    end
  | _ => CMalformed
  end.

(* what is on disk: nothing, bytes that are not JSON, or a JSON value *)
Inductive disk := DAbsent | DNotJson | DJson (j : json).
Definition read_cache (d : disk) : cache_file (option json) :=
  match d with DAbsent => CAbsent | DNotJson => CMalformed | DJson j => de_cache j end.

(* serialise(CacheableResults) *)
Definition ser_cache (c : cdoc (option json)) : json :=
  JObj [("version", JStr (c_version c)); ("arguments_hash", JStr (c_args_hash c)); ("plugins_hash", JStr (c_plugins_hash c));
        ("filepath", JStr (c_filepath c)); ("filehash", JStr (c_filehash c));
        ("imports", JArr (map (fun ph => JObj [("filepath", JStr (fst ph)); ("filehash", JStr (snd ph))]) (c_imports c)));
        ("results", match c_results c with Some r => r | None => JObj [] end)].
