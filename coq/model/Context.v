(* Model of rattr.models.context.Context: the scope chain, add / remove / declares / get, and the
   value returned by get_call_target (its diagnostics are not modelled here).
   rattr/models/context/_context.py, _util.py, _symbol_table.py *)
From RattrV Require Export Base Str.
Open Scope string_scope.
Open Scope list_scope.

Inductive skind :=
| KName                          (* Name: variables, parameters; interface = None *)
| KBuiltin
| KImport (qualified : string)
| KFunc
| KClass.

Record sym := mkSym { s_name : string; s_kind : skind }.

Definition scope := list sym.              (* insertion order, names unique *)
Definition ctx := list scope.              (* innermost scope first; the last one is the root *)

Definition skind_eqb (a b : skind) : bool :=
  match a, b with
  | KName, KName | KBuiltin, KBuiltin | KFunc, KFunc | KClass, KClass => true
  | KImport q1, KImport q2 => String.eqb q1 q2
  | _, _ => false
  end.
Definition sym_eqb (a b : sym) : bool := String.eqb (s_name a) (s_name b) && skind_eqb (s_kind a) (s_kind b).
Definition opt_sym_eqb (a b : option sym) : bool :=
  match a, b with Some x, Some y => sym_eqb x y | None, None => true | _, _ => false end.

Fixpoint scope_get (sc : scope) (name : string) : option sym :=
  match sc with
  | [] => None
  | s :: r => if String.eqb (s_name s) name then Some s else scope_get r name
  end.

(* Context.__getitem__ / get: this scope, then the ancestors *)
Fixpoint ctx_get (c : ctx) (name : string) : option sym :=
  match c with
  | [] => None
  | sc :: r => match scope_get sc name with Some s => Some s | None => ctx_get r name end
  end.

Definition ctx_in (c : ctx) (name : string) : bool :=
  match ctx_get c name with Some _ => true | None => false end.

(* dict assignment: replace in place or append *)
Fixpoint scope_set (sc : scope) (s : sym) : scope :=
  match sc with
  | [] => [s]
  | x :: r => if String.eqb (s_name x) (s_name s) then s :: r else x :: scope_set r s
  end.

(* Context.add(symbol, is_argument): a name visible here or in an ancestor is not re-added unless is_argument *)
Definition ctx_add (c : ctx) (s : sym) (is_argument : bool) : ctx :=
  if ctx_in c (s_name s) && negb is_argument then c
  else match c with
       | [] => [[s]]
       | sc :: r => scope_set sc s :: r
       end.

Fixpoint scope_remove (sc : scope) (name : string) : scope :=
  match sc with
  | [] => []
  | x :: r => if String.eqb (s_name x) name then r else x :: scope_remove r name
  end.

(* Context.remove(id): symbol_table.pop(id) on the CURRENT scope only *)
Definition ctx_remove (c : ctx) (name : string) : ctx :=
  match c with
  | [] => []
  | sc :: r => scope_remove sc name :: r
  end.

Definition ctx_declares (c : ctx) (name : string) : bool :=
  match c with
  | [] => false
  | sc :: _ => match scope_get sc name with Some _ => true | None => false end
  end.

Definition ctx_push (c : ctx) : ctx := [] :: c.
Definition ctx_pop (c : ctx) : ctx := match c with [] => [] | _ :: r => r end.

Definition is_import (o : option sym) : bool :=
  match o with Some (mkSym _ (KImport _)) => true | _ => false end.

Section CallTarget.
  Variable mexists : string -> bool.           (* module_exists(qualified_name) *)

  (* Context._get_target_in_imported_module(name) *)
  Definition target_in_imported_module (c : ctx) (name : string) : option sym :=
    let modules := map (ctx_get c) (names_right (split_dot name)) in
    match find (fun o => match o with Some _ => true | None => false end) modules with
    | Some (Some (mkSym mname (KImport q))) =>
      if mexists q then
        let local_name := replace_all (mname ++ ".") "" name in
        Some (mkSym local_name (KImport (q ++ "." ++ local_name)))
      else None
    | _ => None
    end.

  (* the value returned by Context.get_call_target(callee, culprit, warn=...) *)
  Definition get_call_target (c : ctx) (callee : string) : option sym :=
    let name := replace_all "*" "" (without_call_brackets callee) in
    let lhs_name := match split_dot name with x :: _ => x | [] => "" end in
    if starts_with "@" name then None
    else if contains "[]" name then None
    else
      let target := ctx_get c name in
      let lhs_target := ctx_get c lhs_name in
      if negb (String.eqb name lhs_name) && match target with None => true | _ => false end
         && negb (is_import lhs_target)
      then target
      else if contains "." name && match target with None => true | _ => false end
           then target_in_imported_module c name
           else target.
End CallTarget.

Definition is_class (o : option sym) : bool :=
  match o with Some (mkSym _ KClass) => true | _ => false end.
