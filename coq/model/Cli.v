(* Model of rattr.cli.parser.parse_arguments: TOML validation and translation to argv-style items,
   then the two argparse passes (TOML first, command line second) into ONE namespace.
   The option descriptors (flags, dest, action, type, choices, default, mutex group) and the TOML
   type / rename tables are GENERATED from /repo on every run (gen/CliTable.v); this file is
   parametric in them.  Integers are carried as canonical decimal strings. *)
From RattrV Require Export Base Str.
Open Scope string_scope.
Open Scope list_scope.

Inductive oval := VStr (s : string) | VBool (b : bool) | VList (l : list string) | VNone.

Inductive otype := TyInt | TyStr | TyEnum | TyPath.
Inductive action :=
| AStore (ty : otype) (choices : option (list string))
| AAppend
| AStoreTrue.

Record odesc := mkDesc {
  od_flags : list string;            (* option strings *)
  od_dest : string;
  od_action : action;
  od_default : oval;
  od_mutex : option nat }.

(* TOML values *)
Inductive tval := TBool (b : bool) | TInt (s : string) | TFloat (s : string) | TStr (s : string) | TList (l : list tval) | TOther.
Inductive ttype := TTFlag | TTInt | TTString | TTListOfStrings.

Definition ns := list (string * oval).
Fixpoint ns_get (n : ns) (d : string) : option oval :=
  match n with [] => None | (k, v) :: r => if String.eqb k d then Some v else ns_get r d end.
Fixpoint ns_set (n : ns) (d : string) (v : oval) : ns :=
  match n with
  | [] => [(d, v)]
  | (k, w) :: r => if String.eqb k d then (k, v) :: r else (k, w) :: ns_set r d v
  end.

(* one argv item: an option string and the value that follows it, if any *)
Record item := mkItem { it_flag : string; it_value : option string }.

(* ---- TomlArgumentType.is_valid ---- *)
Definition is_tstr (v : tval) : bool := match v with TStr _ => true | _ => false end.
Definition toml_type_ok (t : ttype) (v : tval) : bool :=
  match t, v with
  | TTFlag, TBool _ => true
  | TTInt, TInt _ => true
  | TTInt, TBool _ => false           (* a boolean is no integer (fix 954a4ba; isinstance(True, int) holds in Python) *)
  | TTString, TStr _ => true
  | TTListOfStrings, TList l => forallb is_tstr l
  | _, _ => false
  end.

Section Parse.
  Variable descs : list odesc.                       (* the parser's actions *)
  Variable toml_types : list (string * ttype).       (* TOML_ARGUMENT_TYPE_MAP *)
  Variable toml_rename : list (string * string).     (* TOML_ARGUMENT_NAME_TO_SYS_ARGUMENT_NAME_MAP *)

  Definition type_of_key (k : string) : option ttype :=
    match find (fun kv => String.eqb (fst kv) k) toml_types with Some (_, t) => Some t | None => None end.

  (* _validate_toml_config: prune unknown keys, then type-check; None = ArgumentError *)
  Definition validate_toml (conf : list (string * tval)) : option (list (string * tval)) :=
    let pruned := filter (fun kv => match type_of_key (fst kv) with Some _ => true | None => false end) conf in
    if forallb (fun kv => match type_of_key (fst kv) with Some t => toml_type_ok t (snd kv) | None => false end) pruned
    then Some pruned else None.

  Definition sys_name (k : string) : string :=
    match find (fun kv => String.eqb (fst kv) k) toml_rename with Some (_, n) => n | None => k end.

  Definition tval_text (v : tval) : string :=
    match v with TStr s | TInt s | TFloat s => s | TBool true => "True" | TBool false => "False" | _ => "" end.

  (* _translate_toml_conf_to_sys_args *)
  Definition translate_one (kv : string * tval) : list item :=
    let '(k, v) := kv in
    let name := ((if Nat.ltb 1 (String.length k) then "--" else "-") ++ sys_name k)%string in
    match v with
    | TBool true => [mkItem name None]
    | TBool false => []
    | TStr s | TInt s | TFloat s => [mkItem name (Some s)]
    | TList l => map (fun x => mkItem name (Some (tval_text x))) l
    | TOther => []
    end.
  Definition translate_toml (conf : list (string * tval)) : list item := flat_map translate_one conf.

  (* ---- argparse, restricted to what reaches it here ---- *)
  Definition find_desc (flag : string) : option odesc := find (fun d => mem flag (od_flags d)) descs.

  Definition is_digit (c : ascii) : bool := let n := nat_of_ascii c in Nat.leb 48 n && Nat.leb n 57.
  Definition all_digits (s : string) : bool :=
    match s with EmptyString => false | _ => (fix go (t : string) := match t with EmptyString => true | String c r => is_digit c && go r end) s end.
  (* int(s) succeeds on a canonical decimal, optionally signed *)
  Definition is_int_text (s : string) : bool :=
    match s with
    | String c r => if Ascii.eqb c "-"%char then all_digits r else all_digits s
    | EmptyString => false
    end.
  (* argparse takes a value that starts with "-" for an option, unless it is a negative number, a lone "-",
     or contains a space *)
  Definition option_like (s : string) : bool :=
    starts_with "-" s && negb (String.eqb s "-") && negb (is_int_text s) && negb (contains " " s).

  Definition convert (ty : otype) (choices : option (list string)) (s : string) : option oval :=
    let ok_type := match ty with TyInt => is_int_text s | _ => true end in
    let ok_choice := match choices with Some cs => mem s cs | None => true end in
    if ok_type && ok_choice then Some (VStr s) else None.

  Record pstate := mkP { p_ns : ns; p_seen_mutex : list (nat * string) }.   (* group -> first flag seen *)

  (* argparse only tracks an action for mutual exclusion when the parsed value `is not` its default *)
  Definition is_default_value (d : odesc) (v : option string) : bool :=
    match v, od_default d with
    | Some s, VStr t => String.eqb s t
    | _, _ => false
    end.

  Definition mutex_ok (d : odesc) (v : option string) (st : pstate) : option pstate :=
    if is_default_value d v then Some st else
    match od_mutex d with
    | None => Some st
    | Some g =>
      match find (fun gf => Nat.eqb (fst gf) g) (p_seen_mutex st) with
      | Some (_, dest) => if String.eqb dest (od_dest d) then Some st else None     (* "not allowed with argument" *)
      | None => Some (mkP (p_ns st) ((g, od_dest d) :: p_seen_mutex st))
      end
    end.

  Definition parse_item (st : pstate) (it : item) : option pstate :=
    match find_desc (it_flag it) with
    | None => None                                   (* unrecognized arguments *)
    | Some d =>
      match mutex_ok d (it_value it) st with
      | None => None
      | Some st1 =>
        match od_action d, it_value it with
        | AStoreTrue, None => Some (mkP (ns_set (p_ns st1) (od_dest d) (VBool true)) (p_seen_mutex st1))
        | AStoreTrue, Some _ => None
        | AStore ty ch, Some s =>
          (* a value that starts with "-" reaches argparse glued to its option (--name=value): the translation of the
             TOML table emits that form (fix 896d4cc), and so does the harness on the command line, as argparse asks *)
          match convert ty ch s with
          | Some v => Some (mkP (ns_set (p_ns st1) (od_dest d) v) (p_seen_mutex st1))
          | None => None
          end
        | AAppend, Some s =>
          let old := match ns_get (p_ns st1) (od_dest d) with Some (VList l) => l | _ => [] end in
          Some (mkP (ns_set (p_ns st1) (od_dest d) (VList (old ++ [s]))) (p_seen_mutex st1))
        | _, None => None                              (* "expected one argument" *)
        end
      end
    end.

  (* parse_args(args, namespace): defaults only for attributes the namespace does not have yet *)
  Definition apply_defaults (n : ns) : ns :=
    fold_left (fun acc d => match ns_get acc (od_dest d) with Some _ => acc | None => ns_set acc (od_dest d) (od_default d) end)
              descs n.

  Fixpoint parse_items (st : option pstate) (items : list item) : option pstate :=
    match items with
    | [] => st
    | it :: r => match st with Some s => parse_items (parse_item s it) r | None => None end
    end.

  Definition parse_pass (n : ns) (items : list item) : option ns :=
    match parse_items (Some (mkP (apply_defaults n) [])) items with
    | Some st => Some (p_ns st)
    | None => None
    end.
End Parse.

(* parse_arguments: the TOML pass uses the common options only, the command-line pass all of them *)
Definition parse_arguments (toml_descs cli_descs : list odesc) (toml_types : list (string * ttype))
           (toml_rename : list (string * string)) (conf : list (string * tval)) (cli : list item) : option ns :=
  match validate_toml toml_types conf with
  | None => None
  | Some conf' =>
    match parse_pass toml_descs [] (translate_toml toml_rename conf') with
    | None => None
    | Some n1 => parse_pass cli_descs n1 cli
    end
  end.

(* parse_project_toml: which file's [tool.rattr] table is used *)
Definition select_conf {A} (override_given_and_exists : bool) (override_conf project_conf : A) : A :=
  if override_given_and_exists then override_conf else project_conf.
