(* Primitive vocabulary for the *generated* model of rattr's diagnostic / badness / exit logic
   (coq/gen/DiagGen.v, produced from /repo on every run by harness/translate_decision.py).
   Only what Python itself provides is modelled here by hand: integer fields of the State
   dataclass, "is the current file the target / another file / None", printing a line to stderr
   (an append to a log), sys.exit(1) and `raise ValueError`. *)
From Coq Require Export ZArith List Bool.
Export ListNotations.
Open Scope Z_scope.

Inductive level := LRattr | LInfo | LWarning | LError | LFatal.

(* config.state.current_file relative to config.arguments.target *)
Inductive place := InTarget | InImport | NoFile.

(* ShowWarnings flag members *)
Inductive swflag := SW_target | SW_target_low_priority | SW_inherited_high_priority | SW_inherited_low_priority.
Definition swset := list swflag.

Definition swflag_eqb (a b : swflag) : bool :=
  match a, b with
  | SW_target, SW_target | SW_target_low_priority, SW_target_low_priority
  | SW_inherited_high_priority, SW_inherited_high_priority
  | SW_inherited_low_priority, SW_inherited_low_priority => true
  | _, _ => false
  end.
Definition flag_in (f : swflag) (s : swset) : bool := existsb (swflag_eqb f) s.
Definition swset_is_empty (s : swset) : bool := match s with [] => true | _ => false end.

Inductive wlevel := WNone | WLocal | WDefault | WAll.

Record args := mkArgs {
  a_is_strict : bool;
  a_threshold : Z;
  a_warning_level : wlevel }.

Record world := mkWorld {
  w_target : Z;           (* State.badness_from_target_file *)
  w_imports : Z;          (* State.badness_from_imports *)
  w_simpl : Z;            (* State.badness_from_simplification *)
  w_place : place;        (* State.current_file vs Arguments.target *)
  w_log : list level }.   (* lines printed to stderr, oldest first, by level *)

Inductive res (A : Type) :=
| Ret (a : A)
| Exit1                   (* sys.exit(1) *)
| RaiseValueError.        (* an escaping Python exception *)
Arguments Ret {A} a.
Arguments Exit1 {A}.
Arguments RaiseValueError {A}.

Definition M (A : Type) := world -> res A * world.

Definition ret {A} (a : A) : M A := fun w => (Ret a, w).
Definition bind {A B} (m : M A) (k : A -> M B) : M B :=
  fun w => match m w with
           | (Ret a, w') => k a w'
           | (Exit1, w') => (Exit1, w')
           | (RaiseValueError, w') => (RaiseValueError, w')
           end.
Definition sys_exit {A} : M A := fun w => (Exit1, w).
Definition raise_value_error {A} : M A := fun w => (RaiseValueError, w).

Definition add_target (n : Z) : M unit :=
  fun w => (Ret tt, mkWorld (w_target w + n) (w_imports w) (w_simpl w) (w_place w) (w_log w)).
Definition add_imports (n : Z) : M unit :=
  fun w => (Ret tt, mkWorld (w_target w) (w_imports w + n) (w_simpl w) (w_place w) (w_log w)).
Definition add_simpl (n : Z) : M unit :=
  fun w => (Ret tt, mkWorld (w_target w) (w_imports w) (w_simpl w + n) (w_place w) (w_log w)).
Definition log (l : level) : M unit :=
  fun w => (Ret tt, mkWorld (w_target w) (w_imports w) (w_simpl w) (w_place w) (w_log w ++ [l])).

(* `self.state.current_file is not None` and `self.arguments.target == self.state.current_file` *)
Definition current_file_is_not_none (w : world) : bool :=
  match w_place w with NoFile => false | _ => true end.
Definition target_eq_current_file (w : world) : bool :=
  match w_place w with InTarget => true | _ => false end.

Definition set_place (p : place) (w : world) : world :=
  mkWorld (w_target w) (w_imports w) (w_simpl w) p (w_log w).

Definition world0 : world := mkWorld 0 0 0 NoFile [].

(* a diagnostic as the analysis emits it: level, weight, the place it arises in *)
Inductive dlevel := DInfo | DWarning | DError | DFatal.
Record ev := mkEv { e_level : dlevel; e_weight : Z; e_place : place }.
Definition at_nofile (e : ev) : ev := mkEv (e_level e) (e_weight e) NoFile.

Definition level_eqb (x y : level) : bool :=
  match x, y with
  | LRattr, LRattr | LInfo, LInfo | LWarning, LWarning | LError, LError | LFatal, LFatal => true
  | _, _ => false
  end.
Fixpoint levels_eqb (x y : list level) : bool :=
  match x, y with
  | [], [] => true
  | a :: x', b :: y' => level_eqb a b && levels_eqb x' y'
  | _, _ => false
  end.
