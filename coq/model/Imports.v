(* Model of how rattr follows imports:
     parse_and_analyse_imports (rattr/analyser/file.py): BFS over Import symbols, one IR per module keyed
       by module name, `seen` by origin, the filter ladder (blacklist, pip, stdlib);
     resolve_import (rattr/results/_find_call_target.py): the same ladder, then the local name is derived
       from the LOCAL name of the import symbol and looked up in the imported module's context, recursing
       through re-exports;
     link: what a call record expands to in a multi-module environment, expressed as a rewrite of call
       targets so that the single-environment model of model/Results.v applies.
   Oracles (Section variables): the module locator (module name and origin of a qualified name - modelled
   and proved separately in ModNames.v / C13), the blacklist / pip / stdlib classification, the options. *)
From RattrV Require Export Base Str Context CallSwaps FuncAn Results.
Open Scope string_scope.
Open Scope list_scope.

Inductive msym := MFunc | MClass | MImport (name qual : string) | MOther.   (* what context.get(name) is *)

Record modl := mkMod {
  m_name : string;                      (* key in import_irs *)
  m_ctx : list (string * msym);         (* root context of the module, star imports expanded *)
  m_ir : list string }.                 (* ids of the functions / classes that have an IR (not ignored / excluded) *)

Fixpoint find_mod (irs : list modl) (n : string) : option modl :=
  match irs with [] => None | m :: r => if String.eqb (m_name m) n then Some m else find_mod r n end.

Fixpoint clookup (c : list (string * msym)) (n : string) : option msym :=
  match c with [] => None | (k, v) :: r => if String.eqb k n then Some v else clookup r n end.

Inductive rres :=
| RTarget (module name : string) (is_class : bool)
| RNone                                 (* returns None: the call contributes only itself *)
| RImportError                          (* raise ImportError: caught by make_target_ir_call_tree, reported, no expansion *)
| RFuel.                                (* the recursion did not end within the fuel *)

Section Imports.
  Variable module_of : string -> option string.     (* find_module_name_and_spec(qualified_name)[0] *)
  Variable origin_of : string -> option string.     (* spec.origin of a module name *)
  Variable blacklisted in_pip in_stdlib : string -> bool.
  Variable follow_local follow_pip follow_stdlib : bool.

  (* the ladder shared by the BFS and the resolver *)
  Definition permitted (mn : string) : bool :=
    negb (blacklisted mn) && (follow_pip || negb (in_pip mn)) && (follow_stdlib || negb (in_stdlib mn)).

  (* target.name.replace(f"{module}.", "").removesuffix("()") *)
  Definition local_name (tname mn : string) : string := remove_suffix "()" (replace_all (mn ++ ".") "" tname).

  (* visited: the qualified names of the import symbols already followed on this path (a name re-exported in
     a cycle is reported and resolves to nothing) *)
  Fixpoint resolve_import (fuel : nat) (irs : list modl) (visited : list string) (tname tqual : string) : rres :=
    match fuel with
    | 0 => RFuel
    | S f =>
      match module_of tqual with
      | None => RImportError
      | Some mn =>
        if mem tqual visited then RNone
        else if blacklisted mn then RNone
        else if negb follow_local then RNone
        else if negb follow_pip && in_pip mn then RNone
        else if negb follow_stdlib && in_stdlib mn then RNone
        else match find_mod irs mn with
             | None => RImportError
             | Some m =>
               let ln := local_name tname mn in
               match clookup (m_ctx m) ln with
               | Some MFunc => if mem ln (m_ir m) then RTarget mn ln false else RNone
               | Some MClass => if mem ln (m_ir m) then RTarget mn ln true else RNone
               | Some (MImport n q) => resolve_import f irs (tqual :: visited) n q
               | _ => RNone
               end
             end
      end
    end.

  (* ---------- the BFS ---------- *)
  Variable imports_in : string -> list (string * string).   (* origin -> Import symbols (name, qualified) of its root context *)
  Variable has_source : string -> bool.                      (* the origin is an existing .py file (not an extension / frozen / built-in module) *)

  Fixpoint bfs (fuel : nat) (queue : list (string * string)) (seen : list string) (acc : list (string * string))
    : option (list (string * string)) :=              (* analysed (module name, origin), in order *)
    match queue with
    | [] => Some (rev acc)
    | (n, q) :: rest =>
      match fuel with
      | 0 => None
      | S f =>
        match module_of q with
        | None => bfs f rest seen acc
        | Some mn =>
          match origin_of mn with
          | None => bfs f rest seen acc
          | Some o =>
            if mem o seen then bfs f rest seen acc
            else if negb (permitted mn) then bfs f rest seen acc
            else if negb (has_source o) then bfs f rest seen acc        (* reported, not analysed, not marked as seen *)
            else bfs f (rest ++ imports_in o) (o :: seen) ((mn, o) :: acc)
          end
        end
      end
    end.

  (* parse_and_analyse_file: the BFS runs only when some following is on *)
  Definition analysed (fuel : nat) (target_imports : list (string * string)) : option (list (string * string)) :=
    if follow_local then bfs fuel target_imports [] [] else Some [].

  (* ---------- linking ---------- *)
  Definition qid (m id : string) : string := m ++ "::" ++ id.

  Definition link_target (fuel : nat) (irs : list modl) (owner : string) (t : option sym) : option sym :=
    match t with
    | Some (mkSym nm KFunc) => Some (mkSym (qid owner nm) KFunc)
    | Some (mkSym nm KClass) => Some (mkSym (qid owner nm) KClass)
    | Some (mkSym nm (KImport q)) =>
      match resolve_import fuel irs [] nm q with
      | RTarget mn ln false => Some (mkSym (qid mn ln) KFunc)
      | RTarget mn ln true => Some (mkSym (qid mn ln) KClass)
      | _ => Some (mkSym nm KName)
      end
    | other => other
    end.

  Definition link_call (fuel : nat) (irs : list modl) (owner : string) (c : callrec) : callrec :=
    mkCallRec (c_name c) (c_args c) (c_kw c) (link_target fuel irs owner (c_target c)).

  Definition link_entry (fuel : nat) (irs : list modl) (owner : string) (e : fentry) : fentry :=
    mkF (qid owner (fe_id e)) (fe_kind e) (fe_iface e) (map (link_call fuel irs owner) (fe_calls e)).

  (* a call the resolver cannot finish (an ImportError raised by the resolver is caught by the tree builder and
     reported: the call then contributes only itself) *)
  Definition call_diverges (fuel : nat) (irs : list modl) (c : callrec) : bool :=
    match c_target c with
    | Some (mkSym nm (KImport q)) =>
      match resolve_import fuel irs [] nm q with RFuel => true | _ => false end
    | _ => false
    end.
End Imports.
