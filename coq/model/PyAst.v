(* Python 3.12 AST as rattr's analysers see it: the node classes the analysers treat specially
   have their own constructor; every other class (BinOp, Compare, If, Try, Match, JoinedStr, ...)
   is `Other kind binds children` with the class name, the identifiers it binds without an
   expression node (ExceptHandler.name, MatchAs.name, ...) and its child nodes in _fields order -
   exactly what ast.NodeVisitor.generic_visit iterates.  harness/emit.py produces these terms
   from real ast trees. *)
From RattrV Require Export Base.
Open Scope string_scope.
Open Scope list_scope.

Inductive ectx := Load | Store | Del.
Definition pos := (nat * nat)%type.          (* lineno, col_offset *)

Inductive seqkind := KTuple | KList | KSet.
Inductive compkind := KListComp | KSetComp | KGenExp | KDictComp.

(* parameter names of a def / lambda, ast.arguments without the expression children *)
Record params := mkParams {
  p_posonly : list string; p_args : list string; p_vararg : option string;
  p_kwonly : list string; p_kwarg : option string }.

Inductive node :=
(* the nameable spine *)
| EName (id : string) (c : ectx) (p : pos)
| EAttr (v : node) (a : string) (c : ectx) (p : pos)
| ESub (v : node) (sl : node) (c : ectx) (p : pos)
| EStar (v : node) (c : ectx) (p : pos)
| ECall (f : node) (args : list node) (kws : list node) (p : pos)     (* kws: EKw nodes *)
| EKw (arg : option string) (v : node)                                 (* ast.keyword *)
(* expressions the analysers or their helpers look into *)
| EConst (sv : option string)                                          (* Some s for a str constant *)
| ESeq (k : seqkind) (es : list node) (p : pos)                        (* Tuple / List / Set *)
| EDict (ks : list node) (vs : list node)                              (* a None key is ENoKey *)
| ENoKey
| ELambda (ps : params) (dflts : list node) (body : node) (p : pos)    (* dflts: defaults, kw_defaults, annotations *)
| ENamed (tgt : node) (val : node) (p : pos)
| EComp (k : compkind) (elts : list node) (gens : list node) (p : pos) (* gens: EGen nodes *)
| EGen (tgt : node) (it : node) (ifs : list node)                      (* ast.comprehension *)
(* statements with a dedicated visitor *)
| SAssign (tgts : list node) (val : node) (p : pos)
| SAnnAssign (tgt : node) (ann : node) (val : list node) (p : pos)     (* val: zero or one *)
| SAugAssign (tgt : node) (val : node) (p : pos)
| SDelete (tgts : list node) (p : pos)
| SFor (tgt : node) (it : node) (body : list node) (orelse : list node) (p : pos)  (* For / AsyncFor *)
| SWith (items : list node) (body : list node) (p : pos)               (* With / AsyncWith; items: EWithItem *)
| EWithItem (ctxe : node) (vars : list node)                           (* vars: zero or one *)
| SReturn (val : list node) (p : pos)
| SFuncDef (name : string) (ps : params) (outer : list node) (body : list node) (p : pos)
    (* outer: decorators, defaults, annotations - never visited by the function analyser *)
| SClassDef (name : string) (children : list node) (p : pos)
| SForbidden (kind : string) (p : pos)                                 (* Global, Nonlocal, Import, ImportFrom *)
(* everything else *)
| Other (kind : string) (binds : list string) (children : list node).

Definition ctx_eqb (a b : ectx) : bool :=
  match a, b with Load, Load | Store, Store | Del, Del => true | _, _ => false end.

(* the class name, as `node.__class__.__name__` *)
Definition kind_of (n : node) : string :=
  match n with
  | EName _ _ _ => "Name" | EAttr _ _ _ _ => "Attribute" | ESub _ _ _ _ => "Subscript"
  | EStar _ _ _ => "Starred" | ECall _ _ _ _ => "Call" | EKw _ _ => "keyword"
  | EConst _ => "Constant"
  | ESeq KTuple _ _ => "Tuple" | ESeq KList _ _ => "List" | ESeq KSet _ _ => "Set"
  | EDict _ _ => "Dict" | ENoKey => "NoneType" | ELambda _ _ _ _ => "Lambda" | ENamed _ _ _ => "NamedExpr"
  | EComp KListComp _ _ _ => "ListComp" | EComp KSetComp _ _ _ => "SetComp"
  | EComp KGenExp _ _ _ => "GeneratorExp" | EComp KDictComp _ _ _ => "DictComp"
  | EGen _ _ _ => "comprehension"
  | SAssign _ _ _ => "Assign" | SAnnAssign _ _ _ _ => "AnnAssign" | SAugAssign _ _ _ => "AugAssign"
  | SDelete _ _ => "Delete" | SFor _ _ _ _ _ => "For" | SWith _ _ _ => "With" | EWithItem _ _ => "withitem"
  | SReturn _ _ => "Return" | SFuncDef _ _ _ _ _ => "FunctionDef" | SClassDef _ _ _ => "ClassDef"
  | SForbidden k _ => k
  | Other k _ _ => k
  end.

(* isinstance(node, AstNodeWithName): Name, Attribute, Subscript, Starred, Call *)
Definition is_nameable (n : node) : bool :=
  match n with
  | EName _ _ _ | EAttr _ _ _ _ | ESub _ _ _ _ | EStar _ _ _ | ECall _ _ _ _ => true
  | _ => false
  end.

Definition pos_of (n : node) : pos :=
  match n with
  | EName _ _ p | EAttr _ _ _ p | ESub _ _ _ p | EStar _ _ p | ECall _ _ _ p
  | ESeq _ _ p | ELambda _ _ _ p | ENamed _ _ p | EComp _ _ _ p
  | SAssign _ _ p | SAnnAssign _ _ _ p | SAugAssign _ _ p | SDelete _ p | SFor _ _ _ _ p | SWith _ _ p
  | SReturn _ p | SFuncDef _ _ _ _ p | SClassDef _ _ p | SForbidden _ p => p
  | _ => (0, 0)
  end.
