(* Model of rattr.models.context._root_context: which symbol every module-level statement registers in the root
   context (compile_root_context / RootContextBuilder), before any function is analysed.
   The symbol table is keyed by Symbol.id: the name, or "<qualified>.*" for a starred import.
   Context.add at the root: a name that is already there is NOT re-added - the first binding wins (until deleted).
   Oracles: whether an import symbol can be located (Import.origin is not None), the import blacklist, the
   module name of the current file (C13 models how it is derived). *)
From RattrV Require Export Base Str ModNames Context.
Open Scope string_scope.
Open Scope list_scope.

Inductive alias := mkAlias (a_name : string) (a_asname : option string).

Inductive assign_kind :=
| ALambda (one_to_one : bool) (target : string)                    (* rhs is a lambda; fullname_of(targets[0]) *)
| ANamedtuple (one_to_one : bool) (target : string) (sig_ok : bool) (* rhs declares a namedtuple *)
| APlain (names : list string).                                     (* unravel_names of every target, in order (no walrus in the rhs) *)

Inductive tstmt :=
| TImport (aliases : list alias)
| TImportFrom (module : option string) (names : list alias) (level : nat)
| TAssign (k : assign_kind) (py_bound : list string)      (* py_bound / py_unbound: the names PYTHON binds / unbinds (plain name *)
| TDelete (names : list string) (py_unbound : list string) (* targets only); rattr removes py_unbound (the base names before 0e6fa15) *)
| TDef (name : string)                     (* def / async def *)
| TClass (name : string)
| TBlock (body : list tstmt)               (* if / for / while / try / with: the statements register_stmts is given, in its order *)
| TIgnored.                                (* expression statements, pass, match, global, ...: nothing is registered *)

Inductive routcome := ROk (sc : scope) | RFatal.

Definition is_star (a : alias) : bool := match a with mkAlias n _ => String.eqb n "*" end.
Definition bound_name (a : alias) : string := match a with mkAlias n None => n | mkAlias _ (Some asn) => asn end.

Section Root.
  Variable locatable : string -> bool.          (* Import(qualified_name=q).origin is not None *)
  Variable blacklisted : string -> bool.        (* is_in_import_blacklist(module_name) *)
  Variable base : string.                       (* derive_module_name_from_path(current file) *)
  Variable is_init : bool.                      (* the current file is an __init__.py *)

  (* Context.add(symbol) on the root context *)
  Definition root_add (sc : scope) (s : sym) : scope :=
    match scope_get sc (s_name s) with Some _ => sc | None => sc ++ [s] end.

  (* make_import_symbol + add: fatal when the module cannot be located and is not blacklisted *)
  Definition add_import (sc : scope) (id qualified module_name : string) (starred : bool) : routcome :=
    if negb (blacklisted module_name) && negb (locatable qualified) then RFatal
    else if starred
         then ROk (scope_set sc (mkSym id (KImport qualified)))
         else ROk (root_add sc (mkSym id (KImport qualified))).

  Fixpoint add_aliases (sc : scope) (module_name : option string) (names : list alias) : routcome :=
    match names with
    | [] => ROk sc
    | a :: rest =>
      let '(id, q, mn, st) :=
        match module_name, a with
        | None, mkAlias n _ => (bound_name a, n, n, false)                                     (* import n [as x] *)
        | Some m, mkAlias n _ =>
          if String.eqb n "*" then ((m ++ ".*")%string, m, m, true)                            (* from m import * *)
          else (bound_name a, (m ++ "." ++ n)%string, m, false)                                (* from m import n [as x] *)
        end in
      match add_import sc id q mn st with
      | RFatal => RFatal
      | ROk sc' => add_aliases sc' module_name rest
      end
    end.

  Definition reg_assign (sc : scope) (k : assign_kind) : scope :=
    match k with
    | ALambda true t => root_add sc (mkSym t KFunc)
    | ALambda false _ => sc
    | ANamedtuple true t true => root_add sc (mkSym t KClass)
    | ANamedtuple _ _ _ => sc
    | APlain names => fold_left (fun s n => root_add s (mkSym n KName)) names sc
    end.

  Fixpoint reg (st : tstmt) (sc : scope) {struct st} : routcome :=
    match st with
    | TImport aliases => add_aliases sc None aliases
    | TImportFrom m names level =>
      match level with
      | 0 => match m with
             | None => RFatal                                            (* "node has no module" *)
             | Some mn => add_aliases sc (Some mn) names
             end
      | S _ =>
        let mn := derive_absolute base m level is_init in
        (* a relative starred import beyond the top-level package: reported, nothing registered *)
        if String.eqb mn "" && existsb is_star names then ROk sc
        else add_aliases sc (Some mn) names
      end
    | TAssign k _ => ROk (reg_assign sc k)
    | TDelete _ plain_names => ROk (fold_left scope_remove plain_names sc)   (* only plain-name targets are removed (fix 0e6fa15) *)
    | TDef n => ROk (root_add sc (mkSym n KFunc))
    | TClass n => ROk (root_add sc (mkSym n KClass))
    | TBlock body =>
      (fix regs (l : list tstmt) (sc : scope) {struct l} : routcome :=
         match l with
         | [] => ROk sc
         | s :: r => match reg s sc with RFatal => RFatal | ROk sc' => regs r sc' end
         end) body sc
    | TIgnored => ROk sc
    end.

  Fixpoint regs (l : list tstmt) (sc : scope) : routcome :=
    match l with
    | [] => ROk sc
    | s :: r => match reg s sc with RFatal => RFatal | ROk sc' => regs r sc' end
    end.
End Root.

(* ---------- what a statement offers to the root context (used by the specification and the proofs) ---------- *)
Definition alias_sym (module_name : option string) (a : alias) : sym :=
  match module_name, a with
  | None, mkAlias n _ => mkSym (bound_name a) (KImport n)
  | Some m, mkAlias n _ => mkSym (bound_name a) (KImport (m ++ "." ++ n))
  end.

Definition assign_syms (k : assign_kind) : list sym :=
  match k with
  | ALambda true t => [mkSym t KFunc]
  | ANamedtuple true t true => [mkSym t KClass]
  | APlain names => map (fun n => mkSym n KName) names
  | _ => []
  end.

Section Offers.
  Variable base : string.
  Variable is_init : bool.

  Definition from_module (m : option string) (level : nat) : option string :=
    match level with 0 => m | S _ => Some (derive_absolute base m level is_init) end.

  (* the symbols a statement offers, in order (starred imports aside) *)
  Fixpoint binds (st : tstmt) : list sym :=
    match st with
    | TImport aliases => map (alias_sym None) aliases
    | TImportFrom m names level => map (alias_sym (from_module m level)) names
    | TAssign k _ => assign_syms k
    | TDef n => [mkSym n KFunc]
    | TClass n => [mkSym n KClass]
    | TBlock body => flat_map binds body
    | TDelete _ _ | TIgnored => []
    end.
End Offers.
