(* Common executable definitions shared by every model file.  No proofs here. *)
From Coq Require Export List String Ascii Bool Arith PeanoNat.
Export ListNotations.
Open Scope string_scope.
Open Scope list_scope.

(* Python dict[str, str] with insertion order: assignment to an existing key keeps its position. *)
Definition dict := list (string * string).

Fixpoint dset (d : dict) (k v : string) : dict :=
  match d with
  | [] => [(k, v)]
  | (k', v') :: r => if String.eqb k k' then (k, v) :: r else (k', v') :: dset r k v
  end.

Fixpoint dget (d : dict) (k : string) : option string :=
  match d with
  | [] => None
  | (k', v) :: r => if String.eqb k k' then Some v else dget r k
  end.

Definition dmem (k : string) (d : dict) : bool :=
  match dget d k with Some _ => true | None => false end.

Definition dkeys (d : dict) : list string := map fst d.

Fixpoint mem (x : string) (l : list string) : bool :=
  match l with
  | [] => false
  | y :: r => if String.eqb x y then true else mem x r
  end.

(* list.remove(x): removes the first occurrence *)
Fixpoint remove_first (x : string) (l : list string) : list string :=
  match l with
  | [] => []
  | y :: r => if String.eqb x y then r else y :: remove_first x r
  end.

Fixpoint nodupb (l : list string) : bool :=
  match l with
  | [] => true
  | x :: r => negb (mem x r) && nodupb r
  end.

Definition opt_list (o : option string) : list string :=
  match o with Some x => [x] | None => [] end.

Definition is_nil {A} (l : list A) : bool := match l with [] => true | _ => false end.

Fixpoint list_eqb {A} (eq : A -> A -> bool) (a b : list A) : bool :=
  match a, b with
  | [], [] => true
  | x :: a', y :: b' => eq x y && list_eqb eq a' b'
  | _, _ => false
  end.

Definition pair_eqb (a b : string * string) : bool :=
  String.eqb (fst a) (fst b) && String.eqb (snd a) (snd b).

Definition dict_eqb : dict -> dict -> bool := list_eqb pair_eqb.
Definition strs_eqb : list string -> list string -> bool := list_eqb String.eqb.

Definition opt_str_eqb (a b : option string) : bool :=
  match a, b with
  | Some x, Some y => String.eqb x y
  | None, None => true
  | _, _ => false
  end.

(* indices (from 0) of the cases on which a boolean test fails - what every cases.v prints *)
Fixpoint failing_from {A} (f : A -> bool) (n : nat) (l : list A) : list nat :=
  match l with
  | [] => []
  | x :: r => if f x then failing_from f (S n) r else n :: failing_from f (S n) r
  end.
Definition failing {A} (f : A -> bool) (l : list A) : list nat := failing_from f 0 l.
