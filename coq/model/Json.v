(* Model of rattr's JSON serialisation (rattr/models/util/_serialisation_helpers.py) at the level of
   JSON values: symbols (with the "type" tag, the "any" interface sentinel, nested call targets),
   locations, call interfaces, the sorted results document and the sorted lists of the IR document. *)
From RattrV Require Export Base Str CallSwaps.
Open Scope string_scope.
Open Scope list_scope.

Inductive json :=
| JNull | JBool (b : bool) | JNum (n : nat) | JStr (s : string)
| JArr (l : list json)
| JObj (kvs : list (string * json)).          (* key order as emitted *)

Record loc := mkLoc { l_line : nat; l_col : nat; l_eline : option nat; l_ecol : option nat; l_file : string }.

Inductive ifacej := INull | IAny | IFace (i : iface).    (* None / AnyCallInterface / CallInterface *)

Inductive symbol :=
| SyName (name basename : string) (l : loc) (i : ifacej)
| SyBuiltin (name : string) (l : loc) (i : ifacej)
| SyImport (name qualified : string) (l : loc) (i : ifacej)
| SyFunc (name : string) (l : loc) (i : ifacej) (is_async : bool)
| SyClass (name : string) (l : loc) (i : ifacej)
| SyCall (name : string) (args : list string) (kwargs : dict) (target : option symbol) (l : loc).

Definition jopt_nat (o : option nat) : json := match o with Some n => JNum n | None => JNull end.
Definition jopt_str (o : option string) : json := match o with Some s => JStr s | None => JNull end.
Definition jstrs (l : list string) : json := JArr (map JStr l).

Definition ser_loc (l : loc) : json :=
  JObj [("lineno", JNum (l_line l)); ("col_offset", JNum (l_col l)); ("end_lineno", jopt_nat (l_eline l));
        ("end_col_offset", jopt_nat (l_ecol l)); ("file", JStr (l_file l))].

Definition ser_iface (i : ifacej) : json :=
  match i with
  | INull => JNull
  | IAny => JStr "any"
  | IFace f => JObj [("posonlyargs", jstrs (posonly f)); ("args", jstrs (args f)); ("vararg", jopt_str (vararg f));
                     ("kwonlyargs", jstrs (kwonly f)); ("kwarg", jopt_str (kwarg f))]
  end.

Fixpoint ser_symbol (s : symbol) : json :=
  match s with
  | SyName n b l i => JObj [("type", JStr "Name"); ("name", JStr n); ("basename", JStr b); ("location", ser_loc l); ("interface", ser_iface i)]
  | SyBuiltin n l i => JObj [("type", JStr "Builtin"); ("name", JStr n); ("location", ser_loc l); ("interface", ser_iface i)]
  | SyImport n q l i => JObj [("type", JStr "Import"); ("name", JStr n); ("qualified_name", JStr q); ("location", ser_loc l); ("interface", ser_iface i)]
  | SyFunc n l i a => JObj [("type", JStr "Func"); ("name", JStr n); ("location", ser_loc l); ("interface", ser_iface i); ("is_async", JBool a)]
  | SyClass n l i => JObj [("type", JStr "Class"); ("name", JStr n); ("location", ser_loc l); ("interface", ser_iface i)]
  | SyCall n a k t l =>
    JObj [("type", JStr "Call"); ("name", JStr n);
          ("args", JObj [("args", jstrs a); ("kwargs", JObj (map (fun kv => (fst kv, JStr (snd kv))) k))]);
          ("target", match t with Some x => ser_symbol x | None => JNull end);
          ("location", ser_loc l)]
  end.

(* ---------- structuring ---------- *)
Fixpoint jget (kvs : list (string * json)) (k : string) : option json :=
  match kvs with [] => None | (k', v) :: r => if String.eqb k k' then Some v else jget r k end.

Definition de_str (j : json) : option string := match j with JStr s => Some s | _ => None end.
Definition de_nat (j : json) : option nat := match j with JNum n => Some n | _ => None end.
Definition de_bool (j : json) : option bool := match j with JBool b => Some b | _ => None end.
Definition de_opt_nat (j : json) : option (option nat) := match j with JNum n => Some (Some n) | JNull => Some None | _ => None end.
Definition de_opt_str (j : json) : option (option string) := match j with JStr s => Some (Some s) | JNull => Some None | _ => None end.
Fixpoint de_strs_list (l : list json) : option (list string) :=
  match l with
  | [] => Some []
  | JStr s :: r => match de_strs_list r with Some t => Some (s :: t) | None => None end
  | _ => None
  end.
Definition de_strs (j : json) : option (list string) := match j with JArr l => de_strs_list l | _ => None end.
Fixpoint de_kwargs (l : list (string * json)) : option dict :=
  match l with
  | [] => Some []
  | (k, JStr v) :: r => match de_kwargs r with Some t => Some ((k, v) :: t) | None => None end
  | _ => None
  end.

Definition de_loc (j : json) : option loc :=
  match j with
  | JObj kvs =>
    match jget kvs "lineno", jget kvs "col_offset", jget kvs "end_lineno", jget kvs "end_col_offset", jget kvs "file" with
    | Some a, Some b, Some c, Some d, Some e =>
      match de_nat a, de_nat b, de_opt_nat c, de_opt_nat d, de_str e with
      | Some a', Some b', Some c', Some d', Some e' => Some (mkLoc a' b' c' d' e')
      | _, _, _, _, _ => None
      end
    | _, _, _, _, _ => None
    end
  | _ => None
  end.

Definition de_iface (j : json) : option ifacej :=
  match j with
  | JNull => Some INull
  | JStr s => if String.eqb s "any" then Some IAny else None
  | JObj kvs =>
    match jget kvs "posonlyargs", jget kvs "args", jget kvs "vararg", jget kvs "kwonlyargs", jget kvs "kwarg" with
    | Some a, Some b, Some c, Some d, Some e =>
      match de_strs a, de_strs b, de_opt_str c, de_strs d, de_opt_str e with
      | Some a', Some b', Some c', Some d', Some e' => Some (IFace (mkIface a' b' c' d' e'))
      | _, _, _, _, _ => None
      end
    | _, _, _, _, _ => None
    end
  | _ => None
  end.

(* deserialise_symbol; fuel = nesting depth of call targets (a Call's target is never a Call with a target
   deeper than the document) *)
Fixpoint de_symbol (fuel : nat) (j : json) : option symbol :=
  match fuel, j with
  | S f, JObj kvs =>
    match jget kvs "type", jget kvs "name", jget kvs "location" with
    | Some (JStr ty), Some (JStr n), Some lj =>
      match de_loc lj with
      | None => None
      | Some l =>
        let iface := match jget kvs "interface" with Some ij => de_iface ij | None => None end in
        if String.eqb ty "Name" then
          match jget kvs "basename", iface with Some (JStr b), Some i => Some (SyName n b l i) | _, _ => None end
        else if String.eqb ty "Builtin" then
          match iface with Some i => Some (SyBuiltin n l i) | None => None end
        else if String.eqb ty "Import" then
          match jget kvs "qualified_name", iface with Some (JStr q), Some i => Some (SyImport n q l i) | _, _ => None end
        else if String.eqb ty "Func" then
          match iface, jget kvs "is_async" with Some i, Some (JBool a) => Some (SyFunc n l i a) | _, _ => None end
        else if String.eqb ty "Class" then
          match iface with Some i => Some (SyClass n l i) | None => None end
        else if String.eqb ty "Call" then
          match jget kvs "args", jget kvs "target" with
          | Some (JObj akv), Some tj =>
            match jget akv "args", jget akv "kwargs" with
            | Some aj, Some (JObj kw) =>
              match de_strs aj, de_kwargs kw with
              | Some a, Some k =>
                match tj with
                | JNull => Some (SyCall n a k None l)
                | _ => match de_symbol f tj with Some t => Some (SyCall n a k (Some t) l) | None => None end
                end
              | _, _ => None
              end
            | _, _ => None
            end
          | _, _ => None
          end
        else None
      end
    | _, _, _ => None
    end
  | _, _ => None
  end.

Fixpoint depth (s : symbol) : nat :=
  match s with SyCall _ _ _ (Some t) _ => S (depth t) | _ => 1 end.

(* ---------- sorted documents ---------- *)
Fixpoint insert_by {A} (key : A -> string) (x : A) (l : list A) : list A :=
  match l with
  | [] => [x]
  | y :: r => if String.leb (key y) (key x) then y :: insert_by key x r else x :: l
  end.
(* sorted(xs, key=...) applied to a collection given in iteration order *)
Definition sort_by {A} (key : A -> string) (xs : list A) : list A := fold_left (fun acc x => insert_by key x acc) xs [].

Definition sym_name (s : symbol) : string :=
  match s with
  | SyName n _ _ _ | SyBuiltin n _ _ | SyImport n _ _ _ | SyFunc n _ _ _ | SyClass n _ _ | SyCall n _ _ _ _ => n
  end.

(* make_file_results_serialiser: function names sorted, each list sorted *)
Definition ser_results (rs : list (string * (list string * list string * list string * list string))) : json :=
  JObj (map (fun r => let '(g, s, d, c) := snd r in
                      (fst r, JObj [("gets", jstrs (sort_by id g)); ("sets", jstrs (sort_by id s));
                                    ("dels", jstrs (sort_by id d)); ("calls", jstrs (sort_by id c))]))
            (sort_by fst rs)).

(* the lists of one function in the IR document: sorted by the symbol's NAME only *)
Definition ser_ir_list (xs : list symbol) : json := JArr (map ser_symbol (sort_by sym_name xs)).
