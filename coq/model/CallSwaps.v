(* Model of rattr.results._simplify_utils.construct_call_swaps
   (rattr/results/_simplify_utils.py) - what the code does, statement by statement. *)
From RattrV Require Export Base.
Open Scope string_scope.
Open Scope list_scope.

Record iface := mkIface {
  posonly : list string;
  args    : list string;
  vararg  : option string;
  kwonly  : list string;
  kwarg   : option string }.

(* CallInterface.all *)
Definition iface_all (I : iface) : list string :=
  posonly I ++ args I ++ opt_list (vararg I) ++ kwonly I ++ opt_list (kwarg I).

Record callargs := mkCall { cargs : list string; ckw : dict }.

Inductive diag :=
| DPosonlyShort                      (* "expected N posonlyargs but only received M positional arguments" *)
| DTooManyPositional                 (* "received too many positional arguments" *)
| DUnexpectedKw (ks : list string)   (* "received unexpected keyword arguments: [..]" *)
| DPosAndName (ks : list string).    (* "received the arguments [..] by position and name" *)

Definition VARARG_NAME := "@Tuple".
Definition KWARGS_NAME := "@Dict".

(* `while True: if not params: break; if not call_args: break/error; swaps[params.pop(0)] = call_args.pop(0)` *)
Fixpoint consume (ps : list string) (as_ : list string) (sw : dict) : dict * list string * list string :=
  match ps, as_ with
  | p :: ps', a :: as' => consume ps' as' (dset sw p a)
  | _, _ => (sw, ps, as_)
  end.

Record kwstate := mkKw {
  k_sw : dict; k_args : list string; k_kwonly : list string;
  k_unexpected : list string; k_posname : list string }.

(* one iteration of `for target, replacement in call_kwargs.items()` *)
Definition kw_step (I : iface) (st : kwstate) (kv : string * string) : kwstate :=
  let '(target, replacement) := kv in
  let posname' := if dmem target (k_sw st) then k_posname st ++ [target] else k_posname st in
  if mem target (k_args st) then
    mkKw (dset (k_sw st) target replacement) (remove_first target (k_args st)) (k_kwonly st)
         (k_unexpected st) posname'
  else if mem target (k_kwonly st) then
    mkKw (dset (k_sw st) target replacement) (k_args st) (remove_first target (k_kwonly st))
         (k_unexpected st) posname'
  else match kwarg I with
       | Some kw => mkKw (dset (k_sw st) kw KWARGS_NAME) (k_args st) (k_kwonly st) (k_unexpected st) posname'
       | None =>
         if negb (mem target (iface_all I)) then
           mkKw (k_sw st) (k_args st) (k_kwonly st) (k_unexpected st ++ [target]) posname'
         else mkKw (k_sw st) (k_args st) (k_kwonly st) (k_unexpected st) posname'
       end.

Definition construct_call_swaps (I : iface) (c : callargs) : dict * list diag :=
  let '(sw1, po_left, a1) := consume (posonly I) (cargs c) [] in
  match po_left with
  | _ :: _ => ([], [DPosonlyShort])
  | [] =>
    let '(sw2, args_left, a2) := consume (args I) a1 sw1 in
    let '(sw3, a3) := match vararg I with
                      | Some v => (dset sw2 v VARARG_NAME, [])
                      | None => (sw2, a2)
                      end in
    let d1 := if is_nil a3 then [] else [DTooManyPositional] in
    let st := fold_left (kw_step I) (ckw c) (mkKw sw3 args_left (kwonly I) [] []) in
    (k_sw st,
     d1 ++ (if is_nil (k_unexpected st) then [] else [DUnexpectedKw (k_unexpected st)])
        ++ (if is_nil (k_posname st) then [] else [DPosAndName (k_posname st)]))
  end.

(* comparison helpers used by the correspondence cases *)
Definition diag_eqb (a b : diag) : bool :=
  match a, b with
  | DPosonlyShort, DPosonlyShort => true
  | DTooManyPositional, DTooManyPositional => true
  | DUnexpectedKw x, DUnexpectedKw y => strs_eqb x y
  | DPosAndName x, DPosAndName y => strs_eqb x y
  | _, _ => false
  end.

Definition swaps_result_eqb (a b : dict * list diag) : bool :=
  dict_eqb (fst a) (fst b) && list_eqb diag_eqb (snd a) (snd b).
