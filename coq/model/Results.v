(* Model of result generation (rattr/results/util.py, _types.py, _simplify_utils.py,
   _find_call_target.py) for a single-file environment:
     make_target_ir_call_tree  - BFS with one `seen` set of call records per root;
     destructively_simplify_ir_call_tree - reverse-BFS fold: unbind the child's IR with the call
       swaps and union it IN PLACE into the parent's sets;
     generate_results_from_ir  - one tree per function, in the order of the file IR.
   The sets of a function's IR are shared by the file IR and by every tree node for that function
   (IrCallTreeNode.new copies the dict, not the sets), so the model keeps ONE store keyed by
   function; it is threaded through all folds.  The iteration order of each function's call set
   (hash-seed dependent in CPython) is part of the input. *)
From RattrV Require Export Base Str Context CallSwaps FuncAn.
Open Scope string_scope.
Open Scope list_scope.

Record fentry := mkF {
  fe_id : string;                 (* symbol id = function / class name *)
  fe_kind : skind;                (* KFunc or KClass *)
  fe_iface : iface;               (* CallInterface of the symbol *)
  fe_calls : list callrec }.      (* ir["calls"], in the set's iteration order *)

Definition env := list fentry.    (* the file IR's keys, in dict order *)

Definition ir3 := (list rname * list rname * list rname)%type.     (* gets, sets, dels *)
Definition store := list (string * ir3).

Fixpoint find_entry (E : env) (id : string) (k : skind) : option fentry :=
  match E with
  | [] => None
  | e :: r => if String.eqb (fe_id e) id && skind_eqb (fe_kind e) k then Some e else find_entry r id k
  end.

Section Resolve.
  Variable excluded : string -> bool.      (* is_excluded_name: the --exclude patterns, an oracle *)

  (* find_call_target_and_ir, single file: which entry a call record expands to *)
  Definition resolve (E : env) (c : callrec) : option fentry :=
    match c_target c with
    | Some (mkSym nm KFunc) => if excluded nm then None else find_entry E nm KFunc
    | Some (mkSym nm KClass) => find_entry E nm KClass
    | _ => None
    end.

  (* sorted(calls, key=lambda c: c.id): a stable insertion sort by name *)
  Fixpoint insert_call (c : callrec) (l : list callrec) : list callrec :=
    match l with
    | [] => [c]
    | x :: r => if String.leb (c_name x) (c_name c) then x :: insert_call c r else c :: l
    end.
  Definition edges_out (e : fentry) : list callrec := fold_left (fun acc c => insert_call c acc) (fe_calls e) [].

  (* ---------- the call tree ---------- *)
  Record tnode := mkT { t_entry : fentry; t_edge : option callrec; t_kids : list nat }.

  Fixpoint set_nth {A} (n : nat) (f : A -> A) (l : list A) : list A :=
    match l, n with
    | [], _ => []
    | x :: r, 0 => f x :: r
    | x :: r, S m => x :: set_nth m f r
    end.

  (* expand one dequeued node: returns (nodes, new queue tail, seen) *)
  Fixpoint expand (E : env) (i : nat) (calls : list callrec) (nodes : list tnode) (newq : list nat) (seen : list callrec)
    : list tnode * list nat * list callrec :=
    match calls with
    | [] => (nodes, newq, seen)
    | c :: r =>
      if cmem c seen then expand E i r nodes newq seen
      else match resolve E c with
           | None => expand E i r nodes newq seen
           | Some g =>
             let j := List.length nodes in
             let nodes' := set_nth i (fun t => mkT (t_entry t) (t_edge t) (t_kids t ++ [j])) nodes ++ [mkT g (Some c) []] in
             expand E i r nodes' (newq ++ [j]) (seen ++ [c])
           end
    end.

  Fixpoint bfs (E : env) (fuel : nat) (queue : list nat) (nodes : list tnode) (seen : list callrec) : option (list tnode) :=
    match queue with
    | [] => Some nodes
    | i :: q =>
      match fuel with
      | 0 => None
      | S f =>
        match nth_error nodes i with
        | None => None
        | Some t =>
          let '(nodes', newq, seen') := expand E i (edges_out (t_entry t)) nodes [] seen in
          bfs E f (q ++ newq) nodes' seen'
        end
      end
    end.

  Definition total_calls (E : env) : nat := fold_left (fun n e => n + List.length (fe_calls e)) E 0.

  (* make_target_ir_call_tree(root); None only if the fuel bound were wrong *)
  Definition build_tree (E : env) (root : fentry) : option (list tnode) :=
    bfs E (2 + total_calls E) [0] [mkT root None []] [].

  (* ---------- unbinding ---------- *)
  (* unbind_name(symbol, new_basename) on (name, basename) pairs; None = `raise ValueError("never")` *)
  Definition unbind_name (x : rname) (new_base : string) : option rname :=
    let '(name, base) := x in
    if String.eqb base new_base then Some x
    else
      let '(old, new) := if starts_with "*" name then (("*" ++ base)%string, ("*" ++ new_base)%string) else (base, new_base) in
      if starts_with old name then Some (replace_first old new name, new_base) else None.

  Definition swap_for (swaps : dict) (base : string) : string :=
    match dget swaps base with Some v => v | None => base end.

  Fixpoint unbind_all (swaps : dict) (l : list rname) : option (list rname) :=
    match l with
    | [] => Some []
    | x :: r => match unbind_name x (swap_for swaps (snd x)), unbind_all swaps r with
                | Some y, Some ys => Some (y :: ys)
                | _, _ => None
                end
    end.

  Definition get_ir (s : store) (id : string) : ir3 :=
    match find (fun kv => String.eqb (fst kv) id) s with Some (_, v) => v | None => ([], [], []) end.
  Fixpoint set_ir (s : store) (id : string) (v : ir3) : store :=
    match s with
    | [] => [(id, v)]
    | (k, w) :: r => if String.eqb k id then (k, v) :: r else (k, w) :: set_ir r id v
    end.

  Definition union (a b : list rname) : list rname := fold_left (fun acc x => radd x acc) b a.

  (* one `for child in node.children` step: parent |= unbind(child, swaps) *)
  Definition fold_child (nodes : list tnode) (parent : string) (s : option store) (k : nat) : option store :=
    match s, nth_error nodes k with
    | Some st, Some child =>
      match t_edge child with
      | Some call =>
        let swaps := fst (construct_call_swaps (fe_iface (t_entry child)) (mkCall (c_args call) (c_kw call))) in
        let '(g, se, d) := get_ir st (fe_id (t_entry child)) in
        match unbind_all swaps g, unbind_all swaps se, unbind_all swaps d with
        | Some ug, Some us, Some ud =>
          let '(pg, ps, pd) := get_ir st parent in
          Some (set_ir st parent (union pg ug, union ps us, union pd ud))
        | _, _, _ => None
        end
      | None => None
      end
    | _, _ => None
    end.

  (* destructively_simplify_ir_call_tree: nodes in reverse BFS order *)
  Definition fold_tree (nodes : list tnode) (s : store) : option store :=
    fold_left (fun acc i =>
                 match nth_error nodes i with
                 | Some t => fold_left (fold_child nodes (fe_id (t_entry t))) (t_kids t) acc
                 | None => None
                 end)
              (rev (seq 0 (List.length nodes))) (Some s).

  Record fresult := mkR { r_id : string; r_gets : list string; r_sets : list string; r_dels : list string; r_calls : list string }.

  Inductive gen_outcome := GOk (rs : list fresult) (s : store) | GRaise | GFuel.

  (* generate_results_from_ir: every function of the file IR, in order, against ONE store *)
  Fixpoint generate (E : env) (todo : list fentry) (s : store) (acc : list fresult) : gen_outcome :=
    match todo with
    | [] => GOk acc s
    | f :: r =>
      match build_tree E f with
      | None => GFuel
      | Some nodes =>
        match fold_tree nodes s with
        | None => GRaise
        | Some s' =>
          let '(g, se, d) := get_ir s' (fe_id f) in
          generate E r s' (acc ++ [mkR (fe_id f) (map fst g) (map fst se) (map fst d)
                                       (map (fun c => (c_name c ++ "()")%string) (fe_calls f))])
        end
      end
    end.
End Resolve.
