(* C17: when a "potentially undefined" warning is (not) issued, and how binding constructs feed the
   context. *)
From RattrV Require Import Base BaseFacts Str PyAst Naming Spell Context FuncAn Occurs Binding FaCheck FaSpecCheck FaFacts FaMono C01Proofs.
Open Scope string_scope.
Open Scope list_scope.

(* ---- the scope chain ---- *)
Lemma scope_get_set_same sc s : scope_get (scope_set sc s) (s_name s) = Some s.
Proof.
  induction sc as [|x sc IH]; simpl.
  - rewrite String.eqb_refl. reflexivity.
  - destruct (String.eqb (s_name x) (s_name s)) eqn:E; simpl.
    + rewrite String.eqb_refl. reflexivity.
    + rewrite E. exact IH.
Qed.

Lemma scope_get_set_other sc s n : s_name s <> n -> scope_get (scope_set sc s) n = scope_get sc n.
Proof.
  intros Hn. induction sc as [|x sc IH]; simpl.
  - destruct (String.eqb_spec (s_name s) n); [contradiction|reflexivity].
  - destruct (String.eqb_spec (s_name x) (s_name s)) as [E|E]; simpl.
    + destruct (String.eqb_spec (s_name s) n); [contradiction|].
      destruct (String.eqb_spec (s_name x) n); [congruence|reflexivity].
    + destruct (String.eqb (s_name x) n); [reflexivity|exact IH].
Qed.

(* after registering a name it is visible, whatever the chain looked like *)
Theorem ctx_add_visible c s b : ctx_in (ctx_add c s b) (s_name s) = true.
Proof.
  unfold ctx_add. destruct (ctx_in c (s_name s)) eqn:E; simpl.
  - destruct b; simpl; [|exact E].
    destruct c as [|sc r]; unfold ctx_in; simpl; [rewrite String.eqb_refl; reflexivity|].
    rewrite scope_get_set_same. reflexivity.
  - destruct c as [|sc r]; unfold ctx_in; simpl; [rewrite String.eqb_refl; reflexivity|].
    rewrite scope_get_set_same. reflexivity.
Qed.

(* registering one name never hides another *)
Theorem ctx_add_preserves c s b n : ctx_in c n = true -> ctx_in (ctx_add c s b) n = true.
Proof.
  intros H. unfold ctx_add. destruct (ctx_in c (s_name s) && negb b); [exact H|].
  destruct c as [|sc r]; [discriminate|].
  destruct (String.eqb_spec (s_name s) n) as [E|Hn].
  - subst n. unfold ctx_in. simpl. rewrite scope_get_set_same. reflexivity.
  - unfold ctx_in in *. simpl in *. rewrite scope_get_set_other by exact Hn. exact H.
Qed.

(* a new scope hides nothing; leaving it restores the chain *)
Theorem ctx_push_preserves c n : ctx_in (ctx_push c) n = ctx_in c n.
Proof. reflexivity. Qed.
Theorem ctx_pop_push c : ctx_pop (ctx_push c) = c.
Proof. reflexivity. Qed.

(* ---- the warning decision ---- *)
(* no warning is issued for a name that is visible in the scope chain, for a store, or for an
   '@' stand-in; otherwise exactly one warning, carrying the base name and the node's position *)
Theorem warning_decision n c s b f :
  names_of true true n = NOk b f ->
  get_and_verify_name n c s =
  (Ok (b, f),
   if negb (ctx_in (v_ctx s) b) && negb (ctx_eqb c Store) && negb (starts_with LITERAL_PREFIX b)
   then mkV (v_gets s) (v_sets s) (v_dels s) (v_calls s) (v_ctx s) (v_warn s ++ [(b, pos_of n)])
   else s).
Proof.
  intros E. unfold get_and_verify_name. rewrite E. unfold lift_names, FuncAn.bind, ret, get_ctx. cbn [fst snd].
  destruct (negb (ctx_in (v_ctx s) b) && negb (ctx_eqb c Store) && negb (starts_with LITERAL_PREFIX b)); reflexivity.
Qed.

Corollary no_warning_for_visible_name n c s b f :
  names_of true true n = NOk b f -> ctx_in (v_ctx s) b = true ->
  get_and_verify_name n c s = (Ok (b, f), s).
Proof. intros E H. rewrite (warning_decision n c s b f E), H. reflexivity. Qed.

(* ---- the finding classes, kernel-checked on the model ---- *)
Definition warns (body : list node) : list (string * pos) := v_warn (snd (run body)).
Definition st (s : string) : node := EName s Store P0.

(* except E as exc: exc.args  - the handler name is not registered *)
Definition k1 : list node := [Other "Try" [] [Other "ExceptHandler" ["exc"] [nm "p"; Other "Expr" [] [at_ (nm "exc") "args"]]]].
(* match x: case [m1, m2]: m1.ma  - captures are not registered *)
Definition k2 : list node :=
  [Other "Match" [] [nm "x"; Other "match_case" [] [Other "MatchSequence" [] [Other "MatchAs" ["m1"] []; Other "MatchAs" ["m2"] []];
                                                    Other "Expr" [] [at_ (nm "m1") "ma"]]]].
(* del p.a; p.c  - deleting an attribute unregisters the base variable *)
Definition k3 : list node := [SDelete [EAttr (nm "p") "a" Del P0] P0; Other "Expr" [] [at_ (nm "p") "c"]].
(* t = 1; del t  - the del itself is warned about *)
Definition k4 : list node := [SAssign [st "t"] (EConst None) P0; SDelete [EName "t" Del (2, 4)] (2, 0)].

(* the match captures are the remaining class; the other three are repaired (5c7d323, 0e6fa15, 686ac63) *)
Lemma spurious_classes :
  warns k2 = [("m1", P0)] /\ warns k1 = [] /\ warns k3 = [] /\ warns k4 = [].
Proof. vm_compute. repeat split; reflexivity. Qed.

(* the capture IS bound at the point of the read, per the specification's forward pass *)
Definition unbound_site (body : list node) (w : string * pos) : bool :=
  existsb (fun s => String.eqb (st_name s) (fst w) && FaSpecCheck.pos_eqb (st_pos s) (snd w) && negb (st_bound s))
          (sites_of ["getattr"; "setattr"; "hasattr"; "delattr"] (fn_of body)).
Lemma k2_read_is_bound : unbound_site k2 ("m1", P0) = false /\ In ("m1", P0) (warns k2).
Proof.
  split; [vm_compute; reflexivity|]. unfold warns.
  assert (E : v_warn (snd (run k2)) = [("m1", P0)]) by (vm_compute; reflexivity). rewrite E. left. reflexivity.
Qed.

(* the handler's name is defined inside the handler and undefined after it, as in Python *)
Definition k5 : list node :=
  [Other "Try" [] [Other "ExceptHandler" ["exc"] [nm "p"; Other "Expr" [] [at_ (nm "exc") "args"]]];
   Other "Expr" [] [EAttr (EName "exc" Load (9, 0)) "after" Load (9, 0)]].
Lemma handler_name_is_scoped_to_the_handler : warns k5 = [("exc", (9, 0))].
Proof. vm_compute. reflexivity. Qed.

(* the binding constructs that ARE registered: no warning *)
Definition b_ok : list node :=
  [SAssign [st "t1"] (EConst None) P0; Other "Expr" [] [at_ (nm "t1") "a"];
   SAugAssign (st "y") (EConst None) P0;
   SAnnAssign (st "t2") (nm "int0") [EConst None] P0; Other "Expr" [] [nm "t2"];
   Other "Expr" [] [ENamed (st "w") (EConst None) P0]; Other "Expr" [] [nm "w"];
   SFor (st "t3") (nm "x") [Other "Expr" [] [nm "t3"]] [] P0;
   SWith [EWithItem (nm "x") [st "t4"]] [Other "Expr" [] [nm "t4"]] P0;
   Other "Expr" [] [EComp KListComp [at_ (nm "u") "f"] [EGen (st "u") (nm "x") [at_ (nm "u") "c"]] P0]].
Lemma registered_binders_no_warning : warns b_ok = [("int0", P0)].
Proof. vm_compute. reflexivity. Qed.

(* use after del of the variable, and a name bound nowhere, are warned about *)
Definition b_warn : list node :=
  [SDelete [EName "x" Del (1, 4)] (1, 0); Other "Expr" [] [EAttr (EName "x" Load (2, 0)) "after" Load (2, 0)];
   Other "Expr" [] [EName "nowhere" Load (3, 0)];
   Other "Expr" [] [EComp KListComp [nm "u"] [EGen (st "u") (nm "y") []] P0]; Other "Expr" [] [EName "u" Load (5, 0)]].
Lemma unbound_reads_warned : warns b_warn = [("x", (2, 0)); ("nowhere", (3, 0)); ("u", (5, 0))].
Proof. vm_compute. reflexivity. Qed.
