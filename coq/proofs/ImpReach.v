(* C12, completeness in its readable form: every module that is reachable from the target's imports through
   permitted modules with Python source is analysed. *)
From RattrV Require Import Base BaseFacts Str Context CallSwaps FuncAn Results Imports ImpProofs.
Open Scope string_scope.
Open Scope list_scope.

Section Reach.
  Variable module_of : string -> option string.
  Variable origin_of : string -> option string.
  Variable blacklisted in_pip in_stdlib : string -> bool.
  Variable follow_local follow_pip follow_stdlib : bool.
  Variable imports_in : string -> list (string * string).
  Variable has_source : string -> bool.

  Notation permitted := (permitted blacklisted in_pip in_stdlib follow_pip follow_stdlib).
  Notation analysed := (analysed module_of origin_of blacklisted in_pip in_stdlib follow_local follow_pip follow_stdlib imports_in has_source).

  (* the import statement i names a module file o that may be analysed *)
  Definition names_permitted (i : string * string) (o : string) : Prop :=
    exists mn, module_of (snd i) = Some mn /\ origin_of mn = Some o /\ permitted mn = true /\ has_source o = true.

  Inductive reach (q0 : list (string * string)) : string -> Prop :=
  | reach_root i o : In i q0 -> names_permitted i o -> reach q0 o
  | reach_step o i o' : reach q0 o -> In i (imports_in o) -> names_permitted i o' -> reach q0 o'.

  Lemma handled_permitted S i o :
    handled module_of origin_of blacklisted in_pip in_stdlib follow_pip follow_stdlib has_source S i -> names_permitted i o -> In o S.
  Proof.
    unfold handled. intros H (mn & Hm & Ho & Hp & Hs). rewrite Hm, Ho in H.
    destruct H as [H|[H|H]]; [congruence|congruence|exact H].
  Qed.

  Theorem every_reachable_permitted_module_is_analysed fuel q0 res :
    follow_local = true -> analysed fuel q0 = Some res -> forall o, reach q0 o -> In o (map snd res).
  Proof.
    intros Hfl H o Hr.
    destruct (analysed_closed module_of origin_of blacklisted in_pip in_stdlib follow_local follow_pip follow_stdlib imports_in has_source fuel q0 res Hfl H) as [H1 H2].
    induction Hr as [i o Hi Hn|o i o' _ IH Hi Hn].
    - eapply handled_permitted; [apply H1; exact Hi|exact Hn].
    - apply in_map_iff in IH. destruct IH as (x & <- & Hx).
      eapply handled_permitted; [eapply H2; [exact Hx|exact Hi]|exact Hn].
  Qed.
End Reach.
