(* C16: verbosity never changes the analysis (buckets, exit status); printed lines at a lower
   level are a subsequence of those at a higher level; errors and fatals are always printed. *)
From RattrV Require Import DiagRun ExitSpec DiagAbs C15Proofs.
From Coq Require Import Lia.
Open Scope Z_scope.

Definition with_wlevel (a : args) (wl : wlevel) : args := mkArgs (a_is_strict a) (a_threshold a) wl.

(* two worlds that differ at most in what was printed *)
Definition same_state (w1 w2 : world) : Prop :=
  w_target w1 = w_target w2 /\ w_imports w1 = w_imports w2 /\ w_simpl w1 = w_simpl w2 /\ w_place w1 = w_place w2.

Definition same_outcome (r1 r2 : res unit * world) : Prop :=
  same_state (snd r1) (snd r2) /\
  match fst r1, fst r2 with
  | Ret _, Ret _ | Exit1, Exit1 | RaiseValueError, RaiseValueError => True
  | _, _ => False
  end.

Definition log_sub (r1 r2 : res unit * world) : Prop := subseq (w_log (snd r1)) (w_log (snd r2)).

Lemma subseq_refl {A} (l : list A) : subseq l l.
Proof. induction l; [constructor | apply sub_take; auto]. Qed.

Lemma subseq_app {A} (a b c d : list A) : subseq a b -> subseq c d -> subseq (a ++ c) (b ++ d).
Proof.
  induction 1; simpl; intros Hcd; auto.
  - apply sub_skip. auto.
  - apply sub_take. auto.
Qed.

Lemma subseq_nil {A} (l : list A) : subseq [] l.
Proof. induction l; [apply sub_nil | apply sub_skip; auto]. Qed.

Lemma visible_mono wl1 wl2 e :
  wlevel_le wl1 wl2 = true -> visible wl1 e = true -> visible wl2 e = true.
Proof. destruct e as [lv n p]. destruct wl1, wl2, lv, p; unfold visible, wlevel_le; simpl; intros; congruence. Qed.

Lemma escalates_wlevel a wl e : escalates (with_wlevel a wl) e = escalates a e.
Proof. reflexivity. Qed.

(* one event *)
Lemma emit_abs_verbosity a wl1 wl2 e w1 w2 :
  wlevel_le wl1 wl2 = true ->
  same_state w1 w2 -> subseq (w_log w1) (w_log w2) ->
  same_outcome (emit_abs (with_wlevel a wl1) e w1) (emit_abs (with_wlevel a wl2) e w2) /\
  log_sub (emit_abs (with_wlevel a wl1) e w1) (emit_abs (with_wlevel a wl2) e w2).
Proof.
  intros Hle (Ht & Hi & Hs & Hp) Hsub.
  unfold emit_abs. rewrite !escalates_wlevel.
  destruct (escalates a e).
  - split; [split; [|exact I]|].
    + unfold same_state, add_log, bump. destruct (e_place e); simpl; repeat split; congruence.
    + unfold log_sub, add_log, bump. destruct (e_place e); simpl; apply subseq_app; auto; apply subseq_refl.
  - split; [split; [|exact I]|].
    + unfold same_state, add_log, bump. destruct (e_place e); simpl; repeat split; congruence.
    + unfold log_sub. simpl.
      assert (Hv : subseq (if visible wl1 e then [level_of (e_level e)] else [])
                          (if visible wl2 e then [level_of (e_level e)] else [])).
      { destruct (visible wl1 e) eqn:V1.
        - rewrite (visible_mono wl1 wl2 e Hle V1). apply subseq_refl.
        - apply subseq_nil. }
      unfold add_log, bump. destruct (e_place e); simpl; apply subseq_app; auto.
Qed.

(* all events of a run *)
Lemma emit_all_verbosity a wl1 wl2 evs : forall w1 w2,
  weights_nonneg evs ->
  wlevel_le wl1 wl2 = true ->
  same_state w1 w2 -> subseq (w_log w1) (w_log w2) ->
  same_outcome (emit_all (with_wlevel a wl1) evs w1) (emit_all (with_wlevel a wl2) evs w2) /\
  log_sub (emit_all (with_wlevel a wl1) evs w1) (emit_all (with_wlevel a wl2) evs w2).
Proof.
  induction evs as [|e r IH]; intros w1 w2 Hnn Hle Hst Hsub.
  - simpl. unfold ret, same_outcome, log_sub. simpl. auto.
  - inversion Hnn as [|? ? He Hr]; subst.
    rewrite !emit_all_cons, !emit_is_abs by exact He.
    destruct (emit_abs_verbosity a wl1 wl2 e w1 w2 Hle Hst Hsub) as [[Hst' Hres] Hsub'].
    destruct (emit_abs (with_wlevel a wl1) e w1) as [[[]| |] w1'];
    destruct (emit_abs (with_wlevel a wl2) e w2) as [[[]| |] w2']; simpl in Hres; try contradiction.
    + apply IH; auto.
    + unfold same_outcome, log_sub. simpl. auto.
    + unfold same_outcome, log_sub. simpl. auto.
Qed.

Lemma within_verbosity a wl1 wl2 w1 w2 :
  same_state w1 w2 -> within (with_wlevel a wl1) w1 = within (with_wlevel a wl2) w2.
Proof. intros (Ht & _ & Hs & _). unfold within. simpl. rewrite Ht, Hs. reflexivity. Qed.

Theorem run_verbosity a wl1 wl2 evA evS :
  weights_nonneg evA -> weights_nonneg evS ->
  wlevel_le wl1 wl2 = true ->
  same_outcome (run (with_wlevel a wl1) evA evS) (run (with_wlevel a wl2) evA evS) /\
  log_sub (run (with_wlevel a wl1) evA evS) (run (with_wlevel a wl2) evA evS).
Proof.
  intros HA HS Hle.
  assert (Hnn : weights_nonneg (all_events evA evS)).
  { apply weights_nonneg_app; [exact HA|apply weights_nonneg_map_nofile, HS]. }
  rewrite !run_unfold.
  assert (H0 : same_state world0 world0) by (repeat split).
  destruct (emit_all_verbosity a wl1 wl2 _ world0 world0 Hnn Hle H0 (subseq_refl _)) as [[Hst Hres] Hsub].
  destruct (emit_all (with_wlevel a wl1) (all_events evA evS) world0) as [[[]| |] w1'];
  destruct (emit_all (with_wlevel a wl2) (all_events evA evS) world0) as [[[]| |] w2']; simpl in Hres; try contradiction.
  - rewrite !threshold_check_abs, (within_verbosity a wl1 wl2 w1' w2' Hst).
    destruct (within (with_wlevel a wl2) w2').
    + unfold same_outcome, log_sub. auto.
    + simpl in Hst, Hsub. destruct Hst as (Ht & Hi & Hs & Hp).
      unfold same_outcome, log_sub, same_state, add_log, bump. unfold log_sub in Hsub. simpl in Hsub.
      rewrite Hp. destruct (w_place w2'); simpl; repeat split; try congruence; try lia;
        apply subseq_app; auto; apply subseq_refl.
  - unfold same_outcome, log_sub. auto.
  - unfold same_outcome, log_sub. auto.
Qed.

Corollary exit_status_independent_of_verbosity a wl1 wl2 evA evS :
  weights_nonneg evA -> weights_nonneg evS ->
  exit_status (run (with_wlevel a wl1) evA evS) = exit_status (run (with_wlevel a wl2) evA evS).
Proof.
  intros HA HS.
  assert (H : forall x y, wlevel_le x y = true ->
              exit_status (run (with_wlevel a x) evA evS) = exit_status (run (with_wlevel a y) evA evS)).
  { intros x y Hle. destruct (run_verbosity a x y evA evS HA HS Hle) as [[_ Hres] _].
    unfold exit_status.
    destruct (fst (run (with_wlevel a x) evA evS)), (fst (run (with_wlevel a y) evA evS)); simpl in Hres; tauto. }
  transitivity (exit_status (run (with_wlevel a WNone) evA evS)).
  - symmetry. apply H. reflexivity.
  - apply H. reflexivity.
Qed.

(* errors and fatals are printed at every level: every processed error/fatal event leaves a line *)
Lemma error_always_logged a e w :
  0 <= e_weight e ->
  (e_level e = DError \/ e_level e = DFatal) ->
  exists l, w_log (snd (emit a e w)) = w_log w ++ [l] /\ (l = LError \/ l = LFatal).
Proof.
  intros He Hl. rewrite emit_is_abs by exact He. unfold emit_abs.
  destruct (escalates a e).
  - exists LFatal. split; [|auto]. unfold add_log, bump. destruct (e_place e); reflexivity.
  - assert (Hv : visible (a_warning_level a) e = true).
    { unfold visible. destruct Hl as [-> | ->]; reflexivity. }
    rewrite Hv. exists (level_of (e_level e)). split.
    + unfold add_log, bump. destruct (e_place e); reflexivity.
    + destruct Hl as [-> | ->]; simpl; auto.
Qed.

Lemma verbosity_example :
  w_log (snd (run (mkArgs false 0 WNone) ex_events ex_simpl)) = [LError; LError; LError] /\
  w_log (snd (run (mkArgs false 0 WLocal) ex_events ex_simpl)) = [LWarning; LError; LError; LError] /\
  w_log (snd (run (mkArgs false 0 WDefault) ex_events ex_simpl)) = [LWarning; LError; LError; LWarning; LError] /\
  w_log (snd (run (mkArgs false 0 WAll) ex_events ex_simpl)) = [LWarning; LError; LInfo; LError; LWarning; LError].
Proof. vm_compute. repeat split; reflexivity. Qed.
