(* Result generation: what the fold can and cannot do to the shared IR store (C03, C05, C14). *)
From RattrV Require Import Base BaseFacts Str Context CallSwaps PyBind FuncAn FaFacts Results ResCheck Closure ResSpecCheck.
From Coq Require Import Lia.
Open Scope string_scope.
Open Scope list_scope.

(* ---------- sets ---------- *)
Lemma union_keeps x a b : rmem x a = true -> rmem x (union a b) = true.
Proof.
  unfold union. revert a. induction b as [|y b IH]; intros a H; simpl; [exact H|].
  apply IH. apply rmem_radd. exact H.
Qed.

Definition ir3_incl (a b : ir3) : Prop :=
  let '(g1, s1, d1) := a in let '(g2, s2, d2) := b in
  (forall x, rmem x g1 = true -> rmem x g2 = true) /\
  (forall x, rmem x s1 = true -> rmem x s2 = true) /\
  (forall x, rmem x d1 = true -> rmem x d2 = true).

Lemma ir3_incl_refl a : ir3_incl a a.
Proof. destruct a as [[g s] d]. simpl. auto. Qed.

Lemma ir3_incl_trans a b c : ir3_incl a b -> ir3_incl b c -> ir3_incl a c.
Proof.
  destruct a as [[g1 s1] d1], b as [[g2 s2] d2], c as [[g3 s3] d3]. simpl.
  intros (A & B & C0) (D & E & F). repeat split; auto.
Qed.

Definition store_incl (s s' : store) : Prop := forall id, ir3_incl (get_ir s id) (get_ir s' id).

Lemma store_incl_refl s : store_incl s s.
Proof. intros id. apply ir3_incl_refl. Qed.
Lemma store_incl_trans a b c : store_incl a b -> store_incl b c -> store_incl a c.
Proof. intros H1 H2 id. eapply ir3_incl_trans; [apply H1|apply H2]. Qed.

Lemma get_set_same s id v : get_ir (set_ir s id v) id = v.
Proof.
  unfold get_ir. induction s as [|[k w] s IH]; simpl.
  - rewrite String.eqb_refl. reflexivity.
  - destruct (String.eqb_spec k id) as [->|Hk]; simpl.
    + rewrite String.eqb_refl. reflexivity.
    + destruct (String.eqb_spec k id); [contradiction|]. exact IH.
Qed.

Lemma get_set_other s id id' v : id <> id' -> get_ir (set_ir s id v) id' = get_ir s id'.
Proof.
  intros Hn. unfold get_ir. induction s as [|[k w] s IH]; simpl.
  - destruct (String.eqb_spec id id'); [contradiction|reflexivity].
  - destruct (String.eqb_spec k id) as [->|Hk]; simpl.
    + destruct (String.eqb_spec id id'); [contradiction|reflexivity].
    + destruct (String.eqb k id'); [reflexivity|exact IH].
Qed.

(* ---------- the fold only ever grows the store (for every tree, store and call) ---------- *)
Section Fold.
  Variable excluded : string -> bool.

  Lemma fold_child_grows nodes parent s k s' :
    fold_child nodes parent (Some s) k = Some s' -> store_incl s s'.
  Proof.
    unfold fold_child. destruct (nth_error nodes k) as [child|]; [|discriminate].
    destruct (t_edge child) as [call|]; [|discriminate].
    destruct (get_ir s (fe_id (t_entry child))) as [[g se] d].
    destruct (unbind_all _ g) as [ug|]; [|discriminate].
    destruct (unbind_all _ se) as [us|]; [|discriminate].
    destruct (unbind_all _ d) as [ud|]; [|discriminate].
    destruct (get_ir s parent) as [[pg ps] pd] eqn:Ep.
    intros H. injection H as <-. intros id.
    destruct (String.eqb_spec parent id) as [<-|Hn].
    - rewrite get_set_same, Ep. simpl. repeat split; intros; apply union_keeps; assumption.
    - rewrite get_set_other by exact Hn. apply ir3_incl_refl.
  Qed.

  Lemma fold_child_none nodes parent k : fold_child nodes parent None k = None.
  Proof. reflexivity. Qed.

  Lemma fold_children_none nodes parent kids : fold_left (fold_child nodes parent) kids None = None.
  Proof. induction kids; cbn [fold_left]; auto. Qed.

  Lemma fold_children_grows nodes parent kids : forall s s',
    fold_left (fold_child nodes parent) kids (Some s) = Some s' -> store_incl s s'.
  Proof.
    induction kids as [|k kids IH]; intros s s' H; cbn [fold_left] in H.
    - injection H as <-. apply store_incl_refl.
    - destruct (fold_child nodes parent (Some s) k) as [s1|] eqn:E.
      + eapply store_incl_trans; [apply (fold_child_grows _ _ _ _ _ E)|apply (IH _ _ H)].
      + rewrite fold_children_none in H. discriminate.
  Qed.

  Definition fold_node (nodes : list tnode) (acc : option store) (i : nat) : option store :=
    match nth_error nodes i with
    | Some t => fold_left (fold_child nodes (fe_id (t_entry t))) (t_kids t) acc
    | None => None
    end.

  Lemma fold_nodes_none nodes order : fold_left (fold_node nodes) order None = None.
  Proof.
    induction order as [|i order IH]; cbn [fold_left]; [reflexivity|].
    unfold fold_node at 2. destruct (nth_error nodes i); [rewrite fold_children_none|]; exact IH.
  Qed.

  Lemma fold_nodes_grows nodes order : forall s s',
    fold_left (fold_node nodes) order (Some s) = Some s' -> store_incl s s'.
  Proof.
    induction order as [|i order IH]; intros s s' H; cbn [fold_left] in H.
    - injection H as <-. apply store_incl_refl.
    - unfold fold_node at 2 in H. destruct (nth_error nodes i) as [t|].
      + destruct (fold_left (fold_child nodes (fe_id (t_entry t))) (t_kids t) (Some s)) as [s1|] eqn:E.
        * eapply store_incl_trans; [apply (fold_children_grows _ _ _ _ _ E)|apply (IH _ _ H)].
        * rewrite fold_nodes_none in H. discriminate.
      + rewrite fold_nodes_none in H. discriminate.
  Qed.

  Theorem fold_tree_grows nodes s s' : fold_tree nodes s = Some s' -> store_incl s s'.
  Proof. unfold fold_tree. apply fold_nodes_grows. Qed.

  (* a tree that is just its root leaves the store untouched *)
  Lemma fold_tree_single e s : fold_tree [mkT e None []] s = Some s.
  Proof. reflexivity. Qed.

  (* ---------- a function none of whose calls is resolvable gets a single-node tree ---------- *)
  Lemma insert_call_in c x l : In c (insert_call x l) -> c = x \/ In c l.
  Proof.
    induction l as [|y l IH]; simpl.
    - intros [H|[]]. left. symmetry. exact H.
    - destruct (String.leb (c_name y) (c_name x)); simpl.
      + intros [H|H]; [right; left; exact H|]. destruct (IH H); [left; assumption|right; right; assumption].
      + intros [H|[H|H]]; [left; symmetry; exact H|right; left; exact H|right; right; exact H].
  Qed.

  Lemma edges_out_in e c : In c (edges_out e) -> In c (fe_calls e).
  Proof.
    unfold edges_out.
    assert (G : forall l acc, In c (fold_left (fun acc c => insert_call c acc) l acc) -> In c acc \/ In c l).
    { induction l as [|x l IH]; intros acc H; simpl in *; [tauto|].
      destruct (IH _ H) as [H1|H1]; [|tauto]. destruct (insert_call_in _ _ _ H1); [subst|]; tauto. }
    intros H. destruct (G _ _ H); [contradiction|assumption].
  Qed.

  Lemma expand_unresolvable E i calls nodes newq seen :
    (forall c, In c calls -> resolve excluded E c = None) ->
    expand excluded E i calls nodes newq seen = (nodes, newq, seen).
  Proof.
    revert nodes newq seen. induction calls as [|c r IH]; intros nodes newq seen H; simpl; [reflexivity|].
    destruct (cmem c seen); [apply IH; intros; apply H; right; assumption|].
    rewrite (H c (or_introl eq_refl)). apply IH. intros; apply H; right; assumption.
  Qed.

  Theorem no_resolvable_call_single_node E e :
    (forall c, In c (fe_calls e) -> resolve excluded E c = None) ->
    build_tree excluded E e = Some [mkT e None []].
  Proof.
    intros H. unfold build_tree. simpl.
    rewrite expand_unresolvable by (intros c Hc; apply H, edges_out_in, Hc). reflexivity.
  Qed.

  (* C14, partial: if no function of the file has a resolvable call, generation leaves the whole IR as it was *)
  Theorem generate_leaves_ir_unchanged E : forall todo s acc,
    (forall e, In e todo -> forall c, In c (fe_calls e) -> resolve excluded E c = None) ->
    exists rs, generate excluded E todo s acc = GOk rs s.
  Proof.
    induction todo as [|f r IH]; intros s acc H; simpl.
    - eexists. reflexivity.
    - rewrite (no_resolvable_call_single_node E f (H f (or_introl eq_refl))).
      rewrite fold_tree_single. destruct (get_ir s (fe_id f)) as [[g se] d].
      apply IH. intros e He. apply H. right. exact He.
  Qed.
End Fold.

(* ---------- unbinding ---------- *)
Lemma unbind_name_same x : unbind_name x (snd x) = Some x.
Proof. destruct x as [n b]. unfold unbind_name. simpl. rewrite String.eqb_refl. reflexivity. Qed.

(* a name whose base is not a key of the swaps passes unchanged *)
Lemma unbind_unmapped swaps x : dget swaps (snd x) = None -> unbind_name x (swap_for swaps (snd x)) = Some x.
Proof. intros H. unfold swap_for. rewrite H. apply unbind_name_same. Qed.

Lemma starts_with_app b r : starts_with b (b ++ r)%string = true.
Proof. induction b; simpl; [reflexivity|]. rewrite Ascii.eqb_refl. exact IHb. Qed.

Lemma sdrop_app b r : sdrop (String.length b) (b ++ r)%string = r.
Proof. induction b; simpl; auto. Qed.

Lemma replace_first_prefix b a r : replace_first b a (b ++ r)%string = (a ++ r)%string.
Proof.
  destruct b as [|c b'].
  - simpl. destruct r; reflexivity.
  - change ((String c b' ++ r)%string) with (String c (b' ++ r)). cbn [replace_first].
    change (String c (b' ++ r)) with ((String c b') ++ r)%string.
    rewrite starts_with_app, sdrop_app. reflexivity.
Qed.

(* the prefix of a name that spells the parameter is replaced by the argument text; the NEW BASE is the
   whole argument text (not its root variable) - which is what makes the next level miss a compound argument *)
Theorem unbind_rebases b rest a :
  b <> a -> starts_with "*" (b ++ rest)%string = false ->
  unbind_name ((b ++ rest)%string, b) a = Some ((a ++ rest)%string, a).
Proof.
  intros Hne Hst. unfold unbind_name.
  destruct (String.eqb_spec b a); [contradiction|]. rewrite Hst, starts_with_app, replace_first_prefix. reflexivity.
Qed.

(* ---------- kernel-checked witnesses ---------- *)
Definition noexcl (_ : string) : bool := false.
Definition fsym (n : string) : option sym := Some (mkSym n KFunc).
Definition if1 (p : string) : iface := mkIface [] [p] None [] None.

(* top(t): mid(t.outer);  mid(m): leaf(m.inner);  leaf(p): p.leafattr *)
Definition E_chain : env :=
  [mkF "top" KFunc (if1 "t") [mkCallRec "mid" ["t.outer"] [] (fsym "mid")];
   mkF "mid" KFunc (if1 "m") [mkCallRec "leaf" ["m.inner"] [] (fsym "leaf")];
   mkF "leaf" KFunc (if1 "p") []].
Definition S_chain : store :=
  [("top", ([("t.outer", "t")], [], [])); ("mid", ([("m.inner", "m")], [], [])); ("leaf", ([("p.leafattr", "p")], [], []))].

Definition gets_of (o : gen_outcome) (id : string) : list string :=
  match o with GOk rs _ => match find (fun r => String.eqb (r_id r) id) rs with Some r => r_gets r | None => [] end | _ => [] end.

Lemma compound_argument_leaks :
  gets_of (generate noexcl E_chain E_chain S_chain []) "top" = ["t.outer"; "t.outer.inner"; "m.inner.leafattr"]
  /\ map fst (fst (fst (lower noexcl E_chain S_chain (mkF "top" KFunc (if1 "t") [mkCallRec "mid" ["t.outer"] [] (fsym "mid")]))))
     = ["t.outer"; "t.outer.inner"; "t.outer.inner.leafattr"]
  /\ KF_C03_1 noexcl E_chain = true.
Proof. vm_compute. repeat split; reflexivity. Qed.

(* root(a, b): f(a); h(b);  f(x): g(x);  h(x): g(x);  g(y): y.gattr  - in two definition orders *)
Definition e_root := mkF "root" KFunc (mkIface [] ["a"; "b"] None [] None) [mkCallRec "f" ["a"] [] (fsym "f"); mkCallRec "h" ["b"] [] (fsym "h")].
Definition e_f := mkF "f" KFunc (if1 "x") [mkCallRec "g" ["x"] [] (fsym "g")].
Definition e_h := mkF "h" KFunc (if1 "x") [mkCallRec "g" ["x"] [] (fsym "g")].
Definition e_g := mkF "g" KFunc (if1 "y") [].
Definition S_dia : store :=
  [("root", ([("a", "a"); ("b", "b")], [], [])); ("f", ([("x", "x")], [], [])); ("h", ([("x", "x")], [], [])); ("g", ([("y.gattr", "y")], [], []))].
Definition E_root_first : env := [e_root; e_f; e_h; e_g].
Definition E_root_last : env := [e_f; e_h; e_g; e_root].

Lemma order_dependence :
  gets_of (generate noexcl E_root_first E_root_first S_dia []) "root" = ["a"; "b"; "a.gattr"]
  /\ gets_of (generate noexcl E_root_last E_root_last S_dia []) "root" = ["a"; "b"; "a.gattr"; "b.gattr"]
  /\ KF_C03_2 noexcl E_root_first = true.
Proof. vm_compute. repeat split; reflexivity. Qed.

(* the IR of a caller is changed by generating results *)
Lemma ir_is_mutated :
  match generate noexcl E_chain E_chain S_chain [] with
  | GOk _ s1 => map fst (fst (fst (get_ir s1 "mid"))) = ["m.inner"; "m.inner.leafattr"]
  | _ => False
  end.
Proof. vm_compute. reflexivity. Qed.

(* a tree-shaped program with simple arguments: results = closure, exactly *)
Definition E_ok : env :=
  [mkF "top" KFunc (mkIface [] ["t"; "u"] None [] None)
       [mkCallRec "mid" ["t"] [("k", "u")] (fsym "mid"); mkCallRec "leaf" ["u"; "t"; "u"] [] (fsym "leaf")];
   mkF "mid" KFunc (mkIface [] ["m"] None ["k"] None) [];
   mkF "leaf" KFunc (mkIface [] ["p"] (Some "rest") [] None) []].
Definition S_ok : store :=
  [("top", ([("t.own", "t")], [], [])); ("mid", ([("m.ma", "m"); ("k.kb", "k")], [("m.set", "m")], []));
   ("leaf", ([("p.pa", "p"); ("rest.count", "rest")], [], []))].
Definition ok_case : res_case :=
  match generate noexcl E_ok E_ok S_ok [] with
  | GOk rs s1 => mkResCase E_ok S_ok [] rs s1 false
  | _ => mkResCase E_ok S_ok [] [] [] true
  end.
Lemma simple_tree_is_closure :
  lower_ok ok_case = true /\ upper_ok ok_case = true /\ calls_ok ok_case = true
  /\ KF_C03_1 noexcl E_ok = false /\ KF_C03_2 noexcl E_ok = false
  /\ gets_of (generate noexcl E_ok E_ok S_ok []) "top" = ["t.own"; "u.pa"; "@Tuple.count"; "t.ma"; "u.kb"].
Proof. vm_compute. repeat split; reflexivity. Qed.
