(* C01: kernel-checked witnesses that the faithful model does not report an access in each finding
   class (the full statement is false), and examples.  The unbounded completeness theorem is in
   proofs/FaComplete.v. *)
From RattrV Require Import Base Str PyAst Naming Spell Context FuncAn Occurs FaCheck FaSpecCheck.
Open Scope string_scope.
Open Scope list_scope.

Definition P0 : pos := (1, 0).
Definition nm (s : string) : node := EName s Load P0.
Definition at_ (v : node) (a : string) : node := EAttr v a Load P0.
Definition params1 : params := mkParams [] ["p"; "q"; "i"; "x"; "y"; "v"; "a"; "b"] None [] None.
Definition fn_of (body : list node) : node := SFuncDef "f" params1 [] body P0.
Definition root_ctx : ctx := [[mkSym "getattr" KBuiltin; mkSym "setattr" KBuiltin; mkSym "hasattr" KBuiltin; mkSym "delattr" KBuiltin]].

Definition run (body : list node) : outcome unit * vstate :=
  analyse (fun _ => false) (Some "m") (fn_of body) (init_state root_ctx).

Definition reported_in (s : vstate) (x : occ) : bool :=
  match x with
  | (AGet, n) => existsb (fun r => String.eqb (fst r) n) (v_gets s)
  | (ASet, n) => existsb (fun r => String.eqb (fst r) n) (v_sets s)
  | (ADel, n) => existsb (fun r => String.eqb (fst r) n) (v_dels s)
  | (ACall, n) => existsb (fun c => String.eqb (c_name c) n) (v_calls s)
  end.

Definition misses (body : list node) (x : occ) : Prop :=
  fst (run body) = Ok tt /\ occ_mem x (flat_map (occs true) body) = true /\ reported_in (snd (run body)) x = false.

(* q[i.j], p[i.a][i.b].k - the index of every subscript on a spine is visited (KF_C01_1 before its repair) *)
Definition w1 : list node := [Other "Expr" [] [ESub (nm "q") (at_ (nm "i") "j") Load P0];
                              Other "Expr" [] [at_ (ESub (ESub (nm "p") (at_ (nm "i") "a") Load P0) (at_ (nm "i") "b") Load P0) "k"]].
Lemma slices_are_reported :
  fst (run w1) = Ok tt /\ forallb (reported_in (snd (run w1))) [(AGet, "i.j"); (AGet, "i.a"); (AGet, "i.b")] = true.
Proof. vm_compute. auto. Qed.

(* KF_C01_2: p.m(y.z).n - arguments of a call inside a spine, and that call itself *)
Definition w2 : list node := [Other "Expr" [] [at_ (ECall (at_ (nm "p") "m") [at_ (nm "y") "z"] [] P0) "n"]].
Lemma miss_inner_call_arg : misses w2 (AGet, "y.z"). Proof. vm_compute. auto. Qed.
Lemma miss_inner_call : misses w2 (ACall, "p.m"). Proof. vm_compute. auto. Qed.

(* KF_C01_3: setattr(p, 'k', v.w) - arguments of a getattr-family call *)
Definition w3 : list node :=
  [Other "Expr" [] [ECall (nm "setattr") [nm "p"; EConst (Some "k"); at_ (nm "v") "w"] [] P0]].
Lemma miss_attr_call_arg : misses w3 (AGet, "v.w"). Proof. vm_compute. auto. Qed.

(* KF_C01_4: def inner(dflt=x.dv): pass - defaults of a nested def *)
Definition w4 : list node :=
  [SFuncDef "inner" (mkParams [] ["dflt"] None [] None) [at_ (nm "x") "dv"] [Other "Pass" [] []] P0].
Lemma miss_nested_default : misses w4 (AGet, "x.dv"). Proof. vm_compute. auto. Qed.

(* KF_C01_5: (a + b).c.d - an unnameable root under two spine levels *)
Definition w5 : list node := [Other "Expr" [] [at_ (at_ (Other "BinOp" [] [nm "a"; nm "b"]) "c") "d"]].
Lemma miss_deep_root : misses w5 (AGet, "a"). Proof. vm_compute. auto. Qed.

(* one level is fine: (a + b).c reports a and b *)
Definition ok5 : list node := [Other "Expr" [] [at_ (Other "BinOp" [] [nm "a"; nm "b"]) "c"]].
Lemma one_level_reports :
  fst (run ok5) = Ok tt /\ forallb (reported_in (snd (run ok5))) (flat_map (occs true) ok5) = true.
Proof. vm_compute. auto. Qed.

(* a 20-node body with no finding-class position: everything is reported *)
Definition sample_body : list node :=
  [SFor (EName "t" Store P0) (at_ (nm "x") "items")
        [Other "If" [] [Other "Compare" [] [at_ (nm "t") "k"; nm "y"];
                         SAssign [EAttr (nm "p") "acc" Store P0] (Other "BinOp" [] [at_ (nm "p") "acc"; at_ (nm "t") "v"]) P0;
                         Other "Expr" [] [ECall (at_ (nm "q") "push") [at_ (nm "t") "v"] [EKw (Some "k") (at_ (nm "a") "b")] P0]]]
        [] P0;
   SReturn [ESeq KTuple [at_ (nm "p") "acc"; ECall (nm "getattr") [nm "v"; EConst (Some "lit")] [] P0] P0] P0].
Lemma sample_all_reported :
  fst (run sample_body) = Ok tt
  /\ forallb (reported_in (snd (run sample_body))) (flat_map (occs true) sample_body) = true
  /\ List.length (flat_map (occs true) sample_body) = 13.
Proof. vm_compute. auto. Qed.
