(* C07: kernel-checked witnesses that the faithful model raises on the listed shapes (the real run is a
   traceback), and the pieces that are total. *)
From RattrV Require Import Base Str PyAst Naming Context CallSwaps FuncAn.
Open Scope string_scope.
Open Scope list_scope.

Definition no_modules (_ : string) : bool := false.

Definition w_store : node :=
  (SFuncDef "f" (mkParams [] ["a"; "b"] None [] None) [] [(SAssign [(EAttr (Other "BinOp" [] [(EName "a" Load (2, 5)); (EName "b" Load (2, 9))]) "c" Store (2, 4))] (EConst None) (2, 4))] (1, 0)).
Definition w_del : node :=
  (SFuncDef "f" (mkParams [] ["a"; "b"] None [] None) [] [(SDelete [(EAttr (Other "BinOp" [] [(EName "a" Load (2, 9)); (EName "b" Load (2, 13))]) "c" Del (2, 8))] (2, 4))] (1, 0)).
Definition w_for : node :=
  (SFuncDef "f" (mkParams [] ["a"; "y"] None [] None) [] [(SFor (EAttr (Other "BinOp" [] [(EName "a" Load (2, 9)); (EConst None)]) "x" Store (2, 8)) (EName "y" Load (2, 21)) [(Other "Pass" [] [])] [] (2, 4))] (1, 0)).

(* `(a + b).c = 1`, `del (a + b).c`, `for (a + 1).x in y` : the analysis of the function ends in an escaping
   RattrBinOpInNameable (finding KF_C07_4) *)
Lemma store_through_unnameable_receiver_raises :
  fst (analyse no_modules None w_store (init_state [[]])) = Raise "RattrBinOpInNameable"
  /\ fst (analyse no_modules None w_del (init_state [[]])) = Raise "RattrBinOpInNameable"
  /\ fst (analyse no_modules None w_for (init_state [[]])) = Raise "RattrBinOpInNameable".
Proof. repeat split; vm_compute; reflexivity. Qed.

(* the same store through a nameable receiver is fine *)
Definition ok_store : node :=
  (SFuncDef "f" (mkParams [] ["a"; "b"] None [] None) [] [(SAssign [(EAttr (EName "a" Load (2, 4)) "c" Store (2, 4))] (EConst None) (2, 4))] (1, 0)).
Lemma store_through_name_is_ok : fst (analyse no_modules None ok_store (init_state [[]])) = Ok tt.
Proof. vm_compute. reflexivity. Qed.
