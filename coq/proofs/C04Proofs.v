(* C04: the model of construct_call_swaps agrees with Python's binding (spec/PyBind.v) for every
   signature and every call, outside the two finding classes. *)
From RattrV Require Import Base BaseFacts CallSwaps PyBind.
From Coq Require Import Lia.
Open Scope string_scope.
Open Scope list_scope.

(* ---------- positional phases ---------- *)

Lemma bind_pos_consume ps xs m :
  bind_pos ps xs m = (fst (fst (consume ps xs m)), snd (consume ps xs m)).
Proof.
  revert xs m. induction ps as [|p ps IH]; intros xs m; simpl.
  - destruct xs; reflexivity.
  - destruct xs as [|a xs]; [reflexivity|]. apply IH.
Qed.

Lemma consume_app P A xs sw :
  List.length P <= List.length xs ->
  snd (fst (consume P xs sw)) = [] /\
  consume (P ++ A) xs sw = consume A (snd (consume P xs sw)) (fst (fst (consume P xs sw))).
Proof.
  revert xs sw. induction P as [|p P IH]; intros xs sw Hlen; simpl.
  - split; [destruct xs; reflexivity|]. destruct xs; destruct A; reflexivity.
  - destruct xs as [|a xs]; simpl in Hlen; [lia|]. apply IH. lia.
Qed.

Lemma consume_short P xs sw :
  List.length xs < List.length P -> snd (fst (consume P xs sw)) <> [].
Proof.
  revert xs sw. induction P as [|p P IH]; intros xs sw Hlen; simpl in *; [lia|].
  destruct xs as [|a xs]; simpl in *; [discriminate|]. apply IH. lia.
Qed.

(* what a run of `consume` does to the dict and to the parameter list *)
Lemma consume_spec ps : forall xs sw,
  exists done,
    ps = done ++ snd (fst (consume ps xs sw)) /\
    (forall x, dmem x (fst (fst (consume ps xs sw))) = dmem x sw || mem x done) /\
    (snd (fst (consume ps xs sw)) = [] \/ snd (consume ps xs sw) = []).
Proof.
  induction ps as [|p ps IH]; intros xs sw; simpl.
  - exists (@nil string). destruct xs; simpl; repeat split; auto; intros; rewrite orb_false_r; reflexivity.
  - destruct xs as [|a xs]; simpl.
    + exists (@nil string). simpl. repeat split; auto. intros; rewrite orb_false_r; reflexivity.
    + destruct (IH xs (dset sw p a)) as (done & Hps & Hmem & Hend).
      exists (p :: done). simpl. split; [congruence|]. split; [|exact Hend].
      intros x. rewrite Hmem, dmem_dset.
      destruct (String.eqb x p); simpl; [rewrite orb_true_r; reflexivity|reflexivity].
Qed.

(* ---------- keyword phase ---------- *)

Definition kw_bad (st : kwstate) : bool :=
  negb (is_nil (k_unexpected st) && is_nil (k_posname st)).

Lemma kw_step_bad I st kv : kw_bad st = true -> kw_bad (kw_step I st kv) = true.
Proof.
  unfold kw_bad. intros H. apply negb_true_iff in H. apply negb_true_iff.
  destruct kv as [k v]. unfold kw_step.
  assert (Hp : forall b : bool, is_nil (k_unexpected st) && is_nil (if b then k_posname st ++ [k] else k_posname st) = false).
  { intros b. destruct b; [|exact H]. rewrite is_nil_app. simpl. rewrite andb_false_r, andb_false_r. reflexivity. }
  destruct (mem k (k_args st)); simpl; [apply Hp|].
  destruct (mem k (k_kwonly st)); simpl; [apply Hp|].
  destruct (kwarg I); simpl; [apply Hp|].
  destruct (negb (mem k (iface_all I))); simpl; [|apply Hp].
  rewrite is_nil_app. simpl. rewrite andb_false_r. reflexivity.
Qed.

Lemma kw_fold_bad I kws st : kw_bad st = true -> kw_bad (fold_left (kw_step I) kws st) = true.
Proof.
  revert st. induction kws as [|kv kws IH]; intros st H; simpl; [exact H|].
  apply IH, kw_step_bad, H.
Qed.

Record kw_inv (I : iface) (st : kwstate) (m : dict) : Prop := {
  inv_sw : k_sw st = m;
  inv_args : forall x, mem x (k_args st) = mem x (args I) && negb (dmem x m);
  inv_kwonly : forall x, mem x (k_kwonly st) = mem x (kwonly I) && negb (dmem x m);
  inv_dom : forall x, dmem x m = true -> mem x (iface_all I) = true;
  inv_filled : forall x, mem x (posonly I) = true \/ vararg I = Some x -> dmem x m = true;
  inv_nd_args : nodupb (k_args st) = true;
  inv_nd_kwonly : nodupb (k_kwonly st) = true;
  inv_clean : kw_bad st = false }.

Lemma wf_iface_parts I :
  wf_iface I = true ->
  (forall x, mem x (args I) = true -> mem x (kwonly I) = false) /\
  (forall x, mem x (args I) = true \/ mem x (kwonly I) = true -> kwarg I <> Some x) /\
  (forall x, mem x (args I) = true \/ mem x (kwonly I) = true -> mem x (iface_all I) = true) /\
  (forall x, kwarg I = Some x -> mem x (iface_all I) = true).
Proof.
  unfold wf_iface, iface_all. intros H.
  apply nodupb_app in H as (_ & H & _).
  apply nodupb_app in H as (_ & H & Hargs).
  apply nodupb_app in H as (_ & H & _).
  apply nodupb_app in H as (_ & _ & Hkwo).
  repeat split.
  - intros x Hx. specialize (Hargs x Hx). rewrite !mem_app in Hargs.
    apply orb_false_iff in Hargs as [_ Hargs]. apply orb_false_iff in Hargs as [Hargs _]. exact Hargs.
  - intros x [Hx|Hx] Hk.
    + specialize (Hargs x Hx). rewrite !mem_app in Hargs.
      apply orb_false_iff in Hargs as [_ Hargs]. apply orb_false_iff in Hargs as [_ Hargs].
      rewrite Hk in Hargs. simpl in Hargs. rewrite String.eqb_refl in Hargs. discriminate.
    + specialize (Hkwo x Hx). rewrite Hk in Hkwo. simpl in Hkwo. rewrite String.eqb_refl in Hkwo. discriminate.
  - intros x [Hx|Hx]; rewrite !mem_app, Hx; repeat rewrite ?orb_true_r, ?orb_true_l; reflexivity.
  - intros x Hk. rewrite !mem_app, Hk. simpl. rewrite String.eqb_refl. repeat rewrite ?orb_true_r. reflexivity.
Qed.

Lemma mem_all_cases I x :
  mem x (iface_all I) = true ->
  mem x (posonly I) = true \/ mem x (args I) = true \/ vararg I = Some x \/
  mem x (kwonly I) = true \/ kwarg I = Some x.
Proof.
  unfold iface_all. rewrite !mem_app. intros H.
  repeat (apply orb_true_iff in H as [H|H]); auto.
  - destruct (vararg I) as [v|]; simpl in H; [|discriminate].
    destruct (String.eqb_spec x v); [subst; auto|discriminate].
  - destruct (kwarg I) as [v|]; simpl in H; [|discriminate].
    destruct (String.eqb_spec x v); [subst; auto 6|discriminate].
Qed.

(* the keyword phase of the model refines the keyword phase of the specification *)
Lemma kw_phase I : wf_iface I = true ->
  forall kws st m,
  kw_inv I st m ->
  (forall k, In k (dkeys kws) ->
     kwarg I <> None ->
     mem k (posonly I) = false /\ vararg I <> Some k /\ kwarg I <> Some k) ->
  match bind_kw I kws m with
  | Some m' => k_sw (fold_left (kw_step I) kws st) = m' /\ kw_bad (fold_left (kw_step I) kws st) = false
  | None => kw_bad (fold_left (kw_step I) kws st) = true
  end.
Proof.
  intros Hwf. destruct (wf_iface_parts I Hwf) as (Hdisj & Hnkw & Hinall & Hkwall).
  induction kws as [|[k v] kws IH]; intros st m Inv Hkf; simpl.
  - destruct Inv. auto.
  - assert (Hkf' : forall k0, In k0 (dkeys kws) -> kwarg I <> None ->
               mem k0 (posonly I) = false /\ vararg I <> Some k0 /\ kwarg I <> Some k0).
    { intros k0 Hin. apply Hkf. simpl. auto. }
    destruct Inv as [Hsw Ha Hko Hdom Hfill Hnda Hndk Hclean].
    unfold kw_step at 2. fold (kw_step I).
    destruct (mem k (args I) || mem k (kwonly I)) eqn:Hkey.
    + (* the keyword names a keywordable parameter *)
      destruct (dmem k m) eqn:Hdm.
      * (* already bound positionally: Python rejects, rattr reports "by position and name" *)
        apply kw_fold_bad. rewrite Hsw, Hdm.
        assert (Hb : forall a b c, kw_bad (mkKw a b c (k_unexpected st) (k_posname st ++ [k])) = true).
        { intros. unfold kw_bad. simpl. rewrite is_nil_app. simpl. rewrite !andb_false_r. reflexivity. }
        destruct (mem k (k_args st)); [apply Hb|]. destruct (mem k (k_kwonly st)); [apply Hb|].
        destruct (kwarg I); [apply Hb|]. destruct (negb (mem k (iface_all I))); [|apply Hb].
        unfold kw_bad. simpl. rewrite is_nil_app. simpl. rewrite andb_false_r. reflexivity.
      * rewrite Hsw, Hdm.
        assert (Hall : mem k (iface_all I) = true).
        { apply Hinall. apply orb_true_iff in Hkey. exact Hkey. }
        destruct (mem k (args I)) eqn:Hka.
        -- (* positional-or-keyword parameter, still free *)
           rewrite (Ha k), Hka, Hdm. simpl.
           apply IH; [|exact Hkf'].
           constructor; simpl; auto.
           ++ intros x. rewrite mem_remove_first by exact Hnda. rewrite Ha, dmem_dset.
              destruct (String.eqb x k); simpl; rewrite ?andb_false_r, ?andb_true_r; reflexivity.
           ++ intros x. rewrite Hko, dmem_dset.
              destruct (String.eqb_spec x k) as [->|]; simpl; [|reflexivity].
              rewrite (Hdisj k Hka). reflexivity.
           ++ intros x. rewrite dmem_dset. destruct (String.eqb_spec x k) as [->|]; simpl; auto.
           ++ intros x Hx. rewrite dmem_dset, (Hfill x Hx), orb_true_r. reflexivity.
           ++ apply nodupb_remove_first, Hnda.
        -- (* keyword-only parameter, still free *)
           simpl in Hkey. rewrite (Ha k), Hka. simpl. rewrite (Hko k), Hkey, Hdm. simpl.
           apply IH; [|exact Hkf'].
           constructor; simpl; auto.
           ++ intros x. rewrite Ha, dmem_dset.
              destruct (String.eqb_spec x k) as [->|]; simpl; [|reflexivity].
              rewrite Hka. reflexivity.
           ++ intros x. rewrite mem_remove_first by exact Hndk. rewrite Hko, dmem_dset.
              destruct (String.eqb x k); simpl; rewrite ?andb_false_r, ?andb_true_r; reflexivity.
           ++ intros x. rewrite dmem_dset. destruct (String.eqb_spec x k) as [->|]; simpl; auto.
           ++ intros x Hx. rewrite dmem_dset, (Hfill x Hx), orb_true_r. reflexivity.
           ++ apply nodupb_remove_first, Hndk.
    + (* the keyword names no keywordable parameter *)
      apply orb_false_iff in Hkey as [Hka Hkk].
      rewrite (Ha k), Hka, (Hko k), Hkk. simpl.
      destruct (kwarg I) as [kw|] eqn:Hkw.
      * (* collected by **kwargs *)
        assert (Hk3 : mem k (posonly I) = false /\ vararg I <> Some k /\ Some kw <> Some k).
        { apply Hkf; [simpl; auto|discriminate]. }
        destruct Hk3 as (Hkp & Hkv & Hkk').
        assert (Hdm : dmem k m = false).
        { destruct (dmem k m) eqn:E; [|reflexivity]. exfalso.
          destruct (mem_all_cases I k (Hdom k E)) as [H|[H|[H|[H|H]]]]; congruence. }
        rewrite Hsw, Hdm.
        apply IH; [|first [exact Hkf' | rewrite Hkw in Hkf'; exact Hkf' | rewrite <- Hkw; exact Hkf']].
        constructor; simpl; auto.
        -- intros x. rewrite Ha, dmem_dset.
           destruct (String.eqb_spec x kw) as [->|]; simpl; [|reflexivity].
           destruct (mem kw (args I)) eqn:E; [|reflexivity]. exfalso. apply (Hnkw kw); auto.
        -- intros x. rewrite Hko, dmem_dset.
           destruct (String.eqb_spec x kw) as [->|]; simpl; [|reflexivity].
           destruct (mem kw (kwonly I)) eqn:E; [|reflexivity]. exfalso. apply (Hnkw kw); auto.
        -- intros x. rewrite dmem_dset. destruct (String.eqb_spec x kw) as [->|]; simpl; auto.
        -- intros x Hx. rewrite dmem_dset, (Hfill x Hx), orb_true_r. reflexivity.
      * (* no **kwargs: Python rejects; rattr reports it as unexpected or as "by position and name" *)
        apply kw_fold_bad.
        destruct (mem k (iface_all I)) eqn:Hall; simpl.
        -- assert (Hdm : dmem k m = true).
           { destruct (mem_all_cases I k Hall) as [H|[H|[H|[H|H]]]]; try congruence; apply Hfill; auto. }
           rewrite Hsw, Hdm. unfold kw_bad. simpl. rewrite is_nil_app. simpl. rewrite !andb_false_r. reflexivity.
        -- unfold kw_bad. simpl. rewrite is_nil_app. simpl. rewrite andb_false_r. reflexivity.
Qed.

(* ---------- dict equivalence ---------- *)

Definition keys_nodup (d : dict) : bool := nodupb (dkeys d).

Lemma dget_not_mem k d : mem k (dkeys d) = false -> dget d k = None.
Proof.
  induction d as [|[k' v] d IH]; simpl; [reflexivity|].
  destruct (String.eqb k k'); [discriminate|exact IH].
Qed.

Lemma dkeys_dset_mem d k v x : mem x (dkeys (dset d k v)) = String.eqb x k || mem x (dkeys d).
Proof.
  induction d as [|[k' v'] d IH]; simpl.
  - destruct (String.eqb x k); reflexivity.
  - destruct (String.eqb_spec k k') as [->|Hk]; simpl.
    + destruct (String.eqb x k'); reflexivity.
    + rewrite IH. destruct (String.eqb x k'), (String.eqb x k); reflexivity.
Qed.

Lemma keys_nodup_dset d k v : keys_nodup d = true -> keys_nodup (dset d k v) = true.
Proof.
  unfold keys_nodup. induction d as [|[k' v'] d IH]; simpl; intros H; [reflexivity|].
  apply andb_prop in H as [H1 H2].
  destruct (String.eqb_spec k k') as [->|Hk]; simpl.
  - rewrite H1, H2. reflexivity.
  - rewrite (IH H2), andb_true_r. rewrite dkeys_dset_mem.
    apply negb_true_iff in H1. rewrite H1.
    destruct (String.eqb_spec k' k); [congruence|reflexivity].
Qed.

Lemma dict_subb_refl d : keys_nodup d = true -> dict_subb d d = true.
Proof.
  unfold keys_nodup, dict_subb. induction d as [|[k v] d IH]; simpl; intros H; [reflexivity|].
  apply andb_prop in H as [H1 H2]. rewrite !String.eqb_refl. simpl.
  rewrite forallb_forall. intros [k' v'] Hin. simpl.
  destruct (String.eqb_spec k' k) as [->|Hk].
  - apply negb_true_iff in H1. exfalso.
    assert (mem k (dkeys d) = true) by (apply mem_true_iff, in_map_iff; exists (k, v'); auto).
    congruence.
  - specialize (IH H2). rewrite forallb_forall in IH. apply (IH (k', v') Hin).
Qed.

Lemma dict_equivb_refl d : keys_nodup d = true -> dict_equivb d d = true.
Proof. intros H. unfold dict_equivb. rewrite (dict_subb_refl d H). reflexivity. Qed.

Lemma consume_keys_nodup ps : forall xs sw,
  keys_nodup sw = true -> keys_nodup (fst (fst (consume ps xs sw))) = true.
Proof.
  induction ps as [|p ps IH]; intros xs sw H; simpl; [destruct xs; exact H|].
  destruct xs as [|a xs]; [exact H|]. apply IH, keys_nodup_dset, H.
Qed.

Lemma kw_step_keys_nodup I st kv :
  keys_nodup (k_sw st) = true -> keys_nodup (k_sw (kw_step I st kv)) = true.
Proof.
  destruct kv as [k v]. unfold kw_step. intros H.
  destruct (mem k (k_args st)); simpl; [apply keys_nodup_dset, H|].
  destruct (mem k (k_kwonly st)); simpl; [apply keys_nodup_dset, H|].
  destruct (kwarg I); simpl; [apply keys_nodup_dset, H|].
  destruct (negb (mem k (iface_all I))); exact H.
Qed.

Lemma kw_fold_keys_nodup I kws st :
  keys_nodup (k_sw st) = true -> keys_nodup (k_sw (fold_left (kw_step I) kws st)) = true.
Proof.
  revert st. induction kws as [|kv kws IH]; intros st H; simpl; [exact H|].
  apply IH, kw_step_keys_nodup, H.
Qed.

(* ---------- the main theorem ---------- *)


Lemma existsb_false_forall {A} (f : A -> bool) l :
  existsb f l = false -> forall x, In x l -> f x = false.
Proof.
  induction l as [|y l IH]; simpl; intros H x Hin; [tauto|].
  apply orb_false_iff in H as [H1 H2]. destruct Hin as [->|Hin]; auto.
Qed.

Lemma KF2_false_keys I c :
  KF_C04_2 I c = false ->
  forall k, In k (dkeys (ckw c)) -> kwarg I <> None ->
    mem k (posonly I) = false /\ vararg I <> Some k /\ kwarg I <> Some k.
Proof.
  unfold KF_C04_2. intros H k Hin Hkw.
  destruct (kwarg I) as [kw|]; [|congruence].
  pose proof (existsb_false_forall _ _ H k Hin) as Hk. simpl in Hk.
  apply orb_false_iff in Hk as [Hk Hk3]. apply orb_false_iff in Hk as [Hk1 Hk2].
  repeat split; auto.
  - intros E. rewrite E in Hk2. simpl in Hk2. rewrite String.eqb_refl in Hk2. discriminate.
  - intros E. injection E as ->. rewrite String.eqb_refl in Hk3. discriminate.
Qed.

Theorem model_meets_spec I c :
  wf_iface I = true ->
  KF_C04_1 I c = false ->
  KF_C04_2 I c = false ->
  check_C04 I c (construct_call_swaps I c) = true.
Proof.
  intros Hwf HK1 HK2.
  unfold KF_C04_1 in HK1. apply Nat.ltb_ge in HK1.
  unfold check_C04, py_bind, construct_call_swaps.
  rewrite bind_pos_consume.
  destruct (consume_app (posonly I) (args I) (cargs c) [] HK1) as [Hpo Happ].
  rewrite Happ.
  destruct (consume (posonly I) (cargs c) []) as [[sw1 po_left] a1] eqn:E1. simpl in Hpo, Happ |- *.
  subst po_left.
  destruct (consume (args I) a1 sw1) as [[sw2 args_left] a2] eqn:E2. simpl.
  (* facts about the positional phases *)
  destruct (consume_spec (posonly I) (cargs c) []) as (done1 & Hd1 & Hm1 & _).
  rewrite E1 in Hd1, Hm1. simpl in Hd1, Hm1. rewrite app_nil_r in Hd1. subst done1.
  destruct (consume_spec (args I) a1 sw1) as (done2 & Hd2 & Hm2 & Hend2).
  rewrite E2 in Hd2, Hm2, Hend2. simpl in Hd2, Hm2, Hend2.
  assert (Hnd_sw2 : keys_nodup sw2 = true).
  { pose proof (consume_keys_nodup (args I) a1 sw1) as H. rewrite E2 in H. apply H.
    pose proof (consume_keys_nodup (posonly I) (cargs c) []) as H'. rewrite E1 in H'. apply H'. reflexivity. }
  pose proof Hwf as Hwf0. unfold wf_iface, iface_all in Hwf0.
  apply nodupb_app in Hwf0 as (_ & Hwf1 & Hpo_rest).
  apply nodupb_app in Hwf1 as (Hnd_args & Hwf2 & Hargs_rest).
  apply nodupb_app in Hwf2 as (_ & Hwf3 & Hva_rest).
  apply nodupb_app in Hwf3 as (Hnd_kwo & _ & _).
  assert (Hnd_left : nodupb args_left = true).
  { rewrite Hd2 in Hnd_args. apply nodupb_app in Hnd_args. tauto. }
  assert (Hmem_left : forall x, mem x args_left = mem x (args I) && negb (mem x done2)).
  { intros x. rewrite Hd2 in Hnd_args |- *. apply nodupb_app in Hnd_args as (_ & _ & Hx).
    rewrite mem_app. destruct (mem x done2) eqn:E; simpl.
    - rewrite (Hx x E). reflexivity.
    - rewrite andb_true_r. reflexivity. }
  (* membership of the dict after the positional phases *)
  assert (Hsw2 : forall x, dmem x sw2 = mem x (posonly I) || mem x done2).
  { intros x. rewrite Hm2, Hm1. reflexivity. }
  assert (Hdone2_args : forall x, mem x done2 = true -> mem x (args I) = true).
  { intros x Hx. rewrite Hd2, mem_app, Hx. reflexivity. }
  assert (Hpo_not_args : forall x, mem x (posonly I) = true -> mem x (args I) = false /\ mem x (kwonly I) = false).
  { intros x Hx. specialize (Hpo_rest x Hx). rewrite !mem_app in Hpo_rest.
    apply orb_false_iff in Hpo_rest as [H1 H2]. apply orb_false_iff in H2 as [_ H2].
    apply orb_false_iff in H2 as [H2 _]. auto. }
  assert (Hargs_not_kwo : forall x, mem x (args I) = true -> mem x (kwonly I) = false).
  { intros x Hx. specialize (Hargs_rest x Hx). rewrite !mem_app in Hargs_rest.
    apply orb_false_iff in Hargs_rest as [_ H2]. apply orb_false_iff in H2 as [H2 _]. exact H2. }
  assert (Hinv0 : forall sw3,
            (forall x, dmem x sw3 = dmem x sw2 || mem x (opt_list (vararg I))) ->
            kw_inv I (mkKw sw3 args_left (kwonly I) [] []) sw3).
  { intros sw3 H3. constructor; simpl; auto.
    - intros x. rewrite Hmem_left, H3, Hsw2.
      destruct (mem x (args I)) eqn:Ea; simpl; [|reflexivity].
      assert (mem x (posonly I) = false).
      { destruct (mem x (posonly I)) eqn:Ep; [|reflexivity]. destruct (Hpo_not_args x Ep). congruence. }
      assert (mem x (opt_list (vararg I)) = false).
      { specialize (Hargs_rest x Ea). rewrite !mem_app in Hargs_rest.
        apply orb_false_iff in Hargs_rest as [H2 _]. exact H2. }
      rewrite H, H0. simpl. rewrite orb_false_r. reflexivity.
    - intros x. rewrite H3, Hsw2.
      destruct (mem x (kwonly I)) eqn:Ek; simpl; [|reflexivity].
      assert (mem x (posonly I) = false).
      { destruct (mem x (posonly I)) eqn:Ep; [|reflexivity]. destruct (Hpo_not_args x Ep). congruence. }
      assert (mem x done2 = false).
      { destruct (mem x done2) eqn:Ed; [|reflexivity]. pose proof (Hargs_not_kwo x (Hdone2_args x Ed)). congruence. }
      assert (mem x (opt_list (vararg I)) = false).
      { destruct (mem x (opt_list (vararg I))) eqn:Ev; [|reflexivity].
        specialize (Hva_rest x Ev). rewrite mem_app, Ek in Hva_rest. discriminate. }
      rewrite H, H0, H1. reflexivity.
    - intros x. rewrite H3, Hsw2. unfold iface_all. rewrite !mem_app. intros Hx.
      apply orb_true_iff in Hx as [Hx|Hx]; [apply orb_true_iff in Hx as [Hx|Hx]|].
      + rewrite Hx. reflexivity.
      + rewrite (Hdone2_args x Hx). rewrite orb_true_r. reflexivity.
      + rewrite Hx. repeat rewrite ?orb_true_r, ?orb_true_l. reflexivity.
    - intros x [Hx|Hx]; rewrite H3, Hsw2.
      + rewrite Hx. reflexivity.
      + rewrite Hx. simpl. rewrite String.eqb_refl. rewrite orb_true_r. reflexivity. }
  destruct (vararg I) as [v|] eqn:Hva.
  - (* *args present *)
    simpl.
    assert (Inv : kw_inv I (mkKw (dset sw2 v VARARG_NAME) args_left (kwonly I) [] []) (dset sw2 v VARARG_NAME)).
    { apply Hinv0. intros x. rewrite dmem_dset, ?Hva. simpl. destruct (String.eqb x v), (dmem x sw2); reflexivity. }
    pose proof (kw_phase I Hwf (ckw c) _ _ Inv (KF2_false_keys I c HK2)) as Hph.
    pose proof (kw_fold_keys_nodup I (ckw c) (mkKw (dset sw2 v VARARG_NAME) args_left (kwonly I) [] [])
                  (keys_nodup_dset _ _ _ Hnd_sw2)) as Hnd.
    destruct (bind_kw I (ckw c) (dset sw2 v VARARG_NAME)) as [m'|].
    + destruct Hph as [Hsw Hbad]. simpl. rewrite Hsw in *. rewrite (dict_equivb_refl m' Hnd). simpl.
      unfold kw_bad in Hbad. apply negb_false_iff in Hbad. apply andb_prop in Hbad as [Hu Hp].
      rewrite Hu, Hp. reflexivity.
    + simpl. unfold kw_bad in Hph. apply negb_true_iff in Hph.
      destruct (is_nil (k_unexpected _)) eqn:Eu; simpl in *.
      * rewrite Hph. reflexivity.
      * reflexivity.
  - (* no *args *)
    destruct a2 as [|x2 a2'].
    + simpl.
      assert (Inv : kw_inv I (mkKw sw2 args_left (kwonly I) [] []) sw2).
      { apply Hinv0. intros x. rewrite ?Hva. simpl. rewrite orb_false_r. reflexivity. }
      pose proof (kw_phase I Hwf (ckw c) _ _ Inv (KF2_false_keys I c HK2)) as Hph.
      pose proof (kw_fold_keys_nodup I (ckw c) (mkKw sw2 args_left (kwonly I) [] []) Hnd_sw2) as Hnd.
      destruct (bind_kw I (ckw c) sw2) as [m'|].
      * destruct Hph as [Hsw Hbad]. simpl. rewrite Hsw in *. rewrite (dict_equivb_refl m' Hnd). simpl.
        unfold kw_bad in Hbad. apply negb_false_iff in Hbad. apply andb_prop in Hbad as [Hu Hp].
        rewrite Hu, Hp. reflexivity.
      * simpl. unfold kw_bad in Hph. apply negb_true_iff in Hph.
        destruct (is_nil (k_unexpected _)) eqn:Eu; simpl in *.
        -- rewrite Hph. reflexivity.
        -- reflexivity.
    + (* too many positional arguments: Python rejects, rattr reports it *)
      simpl. reflexivity.
Qed.

(* the two finding classes are real: kernel-checked witnesses on which the faithful model
   violates the specification (each is replayed on rattr by the check) *)
Definition witness_KF1 : iface * callargs := (mkIface ["p0"] [] None [] None, mkCall [] []).
Definition witness_KF2 : iface * callargs :=
  (mkIface ["p0"] ["a0"] None [] (Some "kw"), mkCall ["X"; "Y"] [("p0", "Z")]).

Lemma refuted_KF1 :
  check_C04 (fst witness_KF1) (snd witness_KF1) (construct_call_swaps (fst witness_KF1) (snd witness_KF1)) = false
  /\ wf_iface (fst witness_KF1) = true /\ KF_C04_1 (fst witness_KF1) (snd witness_KF1) = true.
Proof. vm_compute. auto. Qed.

Lemma refuted_KF2 :
  check_C04 (fst witness_KF2) (snd witness_KF2) (construct_call_swaps (fst witness_KF2) (snd witness_KF2)) = false
  /\ wf_iface (fst witness_KF2) = true /\ KF_C04_2 (fst witness_KF2) (snd witness_KF2) = true.
Proof. vm_compute. auto. Qed.

(* non-vacuity: a non-trivial input meeting every hypothesis of the theorem *)
Definition sample_ok : iface * callargs :=
  (mkIface ["p0"] ["a0"; "a1"] (Some "va") ["k0"] (Some "kw"),
   mkCall ["X0"; "X1"; "X2"; "X3"] [("a1", "V1"); ("k0", "V2"); ("zz", "V3")]).
Lemma sample_ok_meets_hypotheses :
  wf_iface (fst sample_ok) = true /\ KF_C04_1 (fst sample_ok) (snd sample_ok) = false
  /\ KF_C04_2 (fst sample_ok) (snd sample_ok) = false
  /\ py_bind (fst sample_ok) (snd sample_ok) = None.
Proof. vm_compute. auto. Qed.
Definition sample_ok2 : iface * callargs :=
  (mkIface ["p0"] ["a0"; "a1"] (Some "va") ["k0"] (Some "kw"),
   mkCall ["X0"; "X1"; "X2"; "X3"] [("k0", "V2"); ("zz", "V3")]).
Lemma sample_ok2_bound :
  wf_iface (fst sample_ok2) = true /\ KF_C04_1 (fst sample_ok2) (snd sample_ok2) = false
  /\ KF_C04_2 (fst sample_ok2) (snd sample_ok2) = false
  /\ py_bind (fst sample_ok2) (snd sample_ok2)
     = Some [("p0", "X0"); ("a0", "X1"); ("a1", "X2"); ("va", "@Tuple"); ("k0", "V2"); ("kw", "@Dict")].
Proof. vm_compute. auto. Qed.
