(* C18: symbols round-trip through their JSON form; sorting by an injective key makes the document a
   function of the collection, not of its iteration order; sorting IR lists by name alone does not. *)
From RattrV Require Import Base BaseFacts Str CallSwaps Json.
From Coq Require Import Lia NArith Sorting.Permutation Sorting.Sorted.
Open Scope string_scope.
Open Scope list_scope.

(* ---------- round trip ---------- *)
Lemma de_strs_jstrs l : de_strs (jstrs l) = Some l.
Proof. unfold de_strs, jstrs. induction l; simpl; [reflexivity|]. rewrite IHl. reflexivity. Qed.

Lemma de_kwargs_ser k : de_kwargs (map (fun kv : string * string => (fst kv, JStr (snd kv))) k) = Some k.
Proof. induction k as [|[a b] k IH]; simpl; [reflexivity|]. rewrite IH. reflexivity. Qed.

Lemma de_loc_ser l : de_loc (ser_loc l) = Some l.
Proof. destruct l as [a b [c|] [d|] e]; reflexivity. Qed.

Lemma de_iface_ser i : de_iface (ser_iface i) = Some i.
Proof.
  destruct i as [| |[po a va ko kw]]; try reflexivity.
  unfold ser_iface, de_iface. cbn [jget String.eqb Ascii.eqb Bool.eqb posonly args vararg kwonly kwarg].
  rewrite !de_strs_jstrs. destruct va, kw; reflexivity.
Qed.

Lemma ser_symbol_not_null s : ser_symbol s <> JNull.
Proof. destruct s; discriminate. Qed.

Ltac cb := cbn [depth ser_symbol de_symbol jget String.eqb Ascii.eqb Bool.eqb andb].

(* deserialising a serialised symbol gives the symbol back - every symbol kind, interface kind and
   nesting depth of call targets *)
Theorem symbol_roundtrip : forall s, de_symbol (depth s) (ser_symbol s) = Some s.
Proof.
  fix IH 1. intros s. destruct s as [n b l i|n l i|n q l i|n l i a|n l i|n a k t l].
  - cb. rewrite de_loc_ser. cb. rewrite de_iface_ser. reflexivity.
  - cb. rewrite de_loc_ser. cb. rewrite de_iface_ser. reflexivity.
  - cb. rewrite de_loc_ser. cb. rewrite de_iface_ser. reflexivity.
  - cb. rewrite de_loc_ser. cb. rewrite de_iface_ser. reflexivity.
  - cb. rewrite de_loc_ser. cb. rewrite de_iface_ser. reflexivity.
  - destruct t as [t|].
    + cb. rewrite de_loc_ser. cb. rewrite de_strs_jstrs, de_kwargs_ser.
      pose proof (ser_symbol_not_null t) as Hn. rewrite (IH t).
      destruct (ser_symbol t); try reflexivity. contradiction.
    + cb. rewrite de_loc_ser. cb. rewrite de_strs_jstrs, de_kwargs_ser. reflexivity.
Qed.

(* and serialising the result again reproduces the same document *)
Corollary symbol_reserialise s s' : de_symbol (depth s) (ser_symbol s) = Some s' -> ser_symbol s' = ser_symbol s.
Proof. rewrite symbol_roundtrip. intros H. injection H as <-. reflexivity. Qed.

(* ---------- the order on strings ---------- *)
Lemma ascii_compare_trans_lt a b c : Ascii.compare a b = Lt -> Ascii.compare b c = Lt -> Ascii.compare a c = Lt.
Proof. unfold Ascii.compare. rewrite !N.compare_lt_iff. lia. Qed.

Lemma ascii_compare_eq a b : Ascii.compare a b = Eq -> a = b.
Proof.
  unfold Ascii.compare. rewrite N.compare_eq_iff. intros H.
  rewrite <- (ascii_N_embedding a), <- (ascii_N_embedding b), H. reflexivity.
Qed.

Lemma compare_lt_trans : forall s1 s2 s3, String.compare s1 s2 = Lt -> String.compare s2 s3 = Lt -> String.compare s1 s3 = Lt.
Proof.
  induction s1 as [|a s1 IH]; intros s2 s3 H12 H23; destruct s2 as [|b s2], s3 as [|c s3]; simpl in *; try discriminate; auto.
  destruct (Ascii.compare a b) eqn:Eab; try discriminate.
  - apply ascii_compare_eq in Eab. subst b.
    destruct (Ascii.compare a c) eqn:Eac; try discriminate; auto. eapply IH; eauto.
  - destruct (Ascii.compare b c) eqn:Ebc; try discriminate.
    + apply ascii_compare_eq in Ebc. subst c. rewrite Eab. reflexivity.
    + rewrite (ascii_compare_trans_lt _ _ _ Eab Ebc). reflexivity.
Qed.

Lemma leb_iff s1 s2 : String.leb s1 s2 = true <-> String.compare s1 s2 <> Gt.
Proof. unfold String.leb. destruct (String.compare s1 s2); split; intros; try reflexivity; try discriminate; congruence. Qed.

Lemma leb_trans s1 s2 s3 : String.leb s1 s2 = true -> String.leb s2 s3 = true -> String.leb s1 s3 = true.
Proof.
  rewrite !leb_iff. intros H12 H23.
  destruct (String.compare s1 s2) eqn:E12; try congruence.
  - apply String.compare_eq_iff in E12. subst. exact H23.
  - destruct (String.compare s2 s3) eqn:E23; try congruence.
    + apply String.compare_eq_iff in E23. subst. rewrite E12. discriminate.
    + rewrite (compare_lt_trans _ _ _ E12 E23). discriminate.
Qed.

(* ---------- sorting ---------- *)
Section Sort.
  Context {A : Type} (key : A -> string).
  Definition le (x y : A) : Prop := String.leb (key x) (key y) = true.

  Lemma insert_perm x l : Permutation (x :: l) (insert_by key x l).
  Proof.
    induction l as [|y l IH]; simpl; [apply Permutation_refl|].
    destruct (String.leb (key y) (key x)); [|apply Permutation_refl].
    eapply Permutation_trans; [apply perm_swap|]. apply perm_skip. exact IH.
  Qed.

  Lemma insert_sorted x l : StronglySorted le l -> StronglySorted le (insert_by key x l).
  Proof.
    induction 1 as [|y l Hs IH Hall]; simpl.
    - constructor; constructor.
    - destruct (String.leb (key y) (key x)) eqn:E.
      + constructor; [exact IH|].
        apply (Permutation_Forall (insert_perm x l)). constructor; [exact E|exact Hall].
      + assert (Hxy : le x y).
        { unfold le. destruct (String.leb_total (key x) (key y)); [assumption|congruence]. }
        constructor; [constructor; assumption|]. constructor; [exact Hxy|].
        eapply Forall_impl; [|exact Hall]. intros z Hz. unfold le in *. eapply leb_trans; eassumption.
  Qed.

  Lemma sort_fold_spec xs : forall acc,
    StronglySorted le acc ->
    StronglySorted le (fold_left (fun a x => insert_by key x a) xs acc)
    /\ Permutation (acc ++ xs) (fold_left (fun a x => insert_by key x a) xs acc).
  Proof.
    induction xs as [|x xs IH]; intros acc Hs; simpl.
    - rewrite app_nil_r. split; [exact Hs|apply Permutation_refl].
    - destruct (IH (insert_by key x acc) (insert_sorted x acc Hs)) as [H1 H2]. split; [exact H1|].
      eapply Permutation_trans; [|exact H2].
      eapply Permutation_trans; [apply Permutation_sym, Permutation_middle|].
      change (x :: acc ++ xs) with ((x :: acc) ++ xs). apply Permutation_app_tail. apply insert_perm.
  Qed.

  Lemma sort_by_sorted xs : StronglySorted le (sort_by key xs).
  Proof. apply (sort_fold_spec xs []). constructor. Qed.
  Lemma sort_by_perm xs : Permutation xs (sort_by key xs).
  Proof. apply (sort_fold_spec xs []). constructor. Qed.

  (* two sorted permutations whose keys are pairwise distinct are the same list *)
  Lemma sorted_unique : forall l1 l2,
    StronglySorted le l1 -> StronglySorted le l2 -> Permutation l1 l2 ->
    (forall x y, In x l1 -> In y l1 -> key x = key y -> x = y) -> l1 = l2.
  Proof.
    induction l1 as [|a l1 IH]; intros l2 H1 H2 Hp Hinj.
    - apply Permutation_nil in Hp. congruence.
    - destruct l2 as [|b l2]; [apply Permutation_sym, Permutation_nil in Hp; discriminate|].
      inversion H1 as [|? ? H1s H1a]; subst. inversion H2 as [|? ? H2s H2a]; subst.
      assert (Hab : a = b).
      { assert (Hb : In b (a :: l1)) by (apply (Permutation_in _ (Permutation_sym Hp)); left; reflexivity).
        assert (Ha : In a (b :: l2)) by (apply (Permutation_in _ Hp); left; reflexivity).
        destruct Hb as [->|Hb]; [reflexivity|]. destruct Ha as [->|Ha]; [reflexivity|].
        rewrite Forall_forall in H1a, H2a. specialize (H1a b Hb). specialize (H2a a Ha).
        apply (Hinj a b); [left; reflexivity|right; exact Hb|].
        apply String.leb_antisym; assumption. }
      subst b. f_equal. apply IH; auto.
      + eapply Permutation_cons_inv. exact Hp.
      + intros x y Hx Hy. apply Hinj; right; assumption.
  Qed.

  (* the sorted document does not depend on the order in which the collection is iterated, provided
     the sort key identifies the element *)
  Theorem sort_by_canonical xs ys :
    Permutation xs ys ->
    (forall x y, In x xs -> In y xs -> key x = key y -> x = y) ->
    sort_by key xs = sort_by key ys.
  Proof.
    intros Hp Hinj. apply sorted_unique; try apply sort_by_sorted.
    - eapply Permutation_trans; [apply Permutation_sym, sort_by_perm|].
      eapply Permutation_trans; [exact Hp|apply sort_by_perm].
    - intros x y Hx Hy. apply Hinj; apply (Permutation_in _ (Permutation_sym (sort_by_perm xs))); assumption.
  Qed.
End Sort.

(* the results document: any two iteration orders of the same sets give the same JSON *)
Theorem results_lists_canonical (xs ys : list string) :
  Permutation xs ys -> jstrs (sort_by id xs) = jstrs (sort_by id ys).
Proof. intros Hp. f_equal. apply sort_by_canonical; [exact Hp|]. intros x y _ _ H. exact H. Qed.

(* ---------- the IR lists are sorted by NAME only: refuted when two elements share a name ---------- *)
Definition L0 : loc := mkLoc 1 0 None None "t.py".
Definition n1 : symbol := SyName "x.p" "x" L0 INull.
Definition n2 : symbol := SyName "x.p" "x.p" L0 INull.
Lemma ir_list_depends_on_iteration_order :
  ser_ir_list [n1; n2] <> ser_ir_list [n2; n1] /\ Permutation [n1; n2] [n2; n1].
Proof. split; [vm_compute; discriminate|apply perm_swap]. Qed.

(* two calls to one callee with different arguments: the same tie *)
Definition c1 : symbol := SyCall "f" ["a"] [] None L0.
Definition c2 : symbol := SyCall "f" ["b"] [] None L0.
Lemma ir_calls_depend_on_iteration_order : ser_ir_list [c1; c2] <> ser_ir_list [c2; c1].
Proof. vm_compute. discriminate. Qed.

Lemma roundtrip_example :
  let s := SyCall "C" ["z"; "x.p"] [("k", "y")]
                  (Some (SyClass "C" L0 (IFace (mkIface [] ["self"; "a"] (Some "r") ["k"] (Some "kw"))))) L0 in
  de_symbol 2 (ser_symbol s) = Some s.
Proof. reflexivity. Qed.
