(* C10: both namers follow the README's nameable format. *)
From RattrV Require Import Base BaseFacts PyAst Naming Spell PyAstInd.
Open Scope string_scope.
Open Scope list_scope.

Lemma plain_attr v a c p : plain (EAttr v a c p) = plain v. Proof. reflexivity. Qed.
Lemma plain_sub v s c p : plain (ESub v s c p) = plain v. Proof. reflexivity. Qed.
Lemma plain_star v c p : plain (EStar v c p) = plain v. Proof. reflexivity. Qed.
Lemma plain_call f a k p : plain (ECall f a k p) = plain f. Proof. reflexivity. Qed.

Lemma plain_not_builtin n : plain n = true -> mem (spell_base n) ATTR_BUILTINS = false.
Proof. unfold plain. intros H. apply negb_true_iff in H. exact H. Qed.

(* a direct call to one of the four builtins has that builtin as spelled base *)
Lemma direct_call_base f a k p :
  existsb (is_call_to_fn (ECall f a k p)) ATTR_BUILTINS = true -> mem (spell_base f) ATTR_BUILTINS = true.
Proof.
  destruct f; simpl; try discriminate. intros H.
  repeat (destruct (String.eqb id _); [reflexivity|]); simpl in H; try discriminate; exact H.
Qed.

(* --- (1) compositional and total on plain expressions: the new namer --- *)
Theorem names_of_spells : forall e u, plain e = true -> names_of true u e = NOk (spell_base e) (spell e).
Proof.
  induction e; intros u Hp; try reflexivity.
  - simpl. rewrite plain_attr in Hp. rewrite (IHe true Hp). reflexivity.
  - simpl. rewrite plain_sub in Hp. rewrite (IHe1 true Hp). reflexivity.
  - simpl. rewrite plain_star in Hp. rewrite (IHe true Hp). reflexivity.
  - cbn [names_of]. rewrite plain_call in Hp. rewrite (IHe true Hp).
    rewrite (plain_not_builtin e Hp), andb_false_r. reflexivity.
Qed.

(* --- the deprecated twin agrees --- *)
Theorem old_names_spells : forall e, plain e = true -> old_names true e = NOk (spell_base e) (spell e).
Proof.
  induction e; intros Hp; try reflexivity.
  - simpl. rewrite plain_attr in Hp. rewrite (IHe Hp). reflexivity.
  - simpl. rewrite plain_sub in Hp. rewrite (IHe1 Hp). reflexivity.
  - simpl. rewrite plain_star in Hp. rewrite (IHe Hp). reflexivity.
  - cbn [old_names]. rewrite plain_call in Hp. rewrite (IHe Hp).
    destruct (existsb (is_call_to_fn (ECall e args kws p)) ATTR_BUILTINS) eqn:E.
    + apply direct_call_base in E. rewrite (plain_not_builtin e Hp) in E. discriminate.
    + reflexivity.
Qed.

Corollary namers_agree_on_plain e u : plain e = true -> names_of true u e = old_names true e.
Proof. intros H. rewrite names_of_spells, old_names_spells by exact H. reflexivity. Qed.

(* --- unsafe naming on strictly nameable plain expressions gives the same spelling --- *)
Theorem names_of_unsafe_strict : forall e u, plain e = true -> strict e = true ->
  names_of false u e = NOk (spell_base e) (spell e).
Proof.
  induction e; intros u Hp Hs; try discriminate; try reflexivity.
  - simpl in *. rewrite plain_attr in Hp. rewrite (IHe true Hp Hs). reflexivity.
  - simpl in *. rewrite plain_sub in Hp. rewrite (IHe1 true Hp Hs). reflexivity.
  - simpl in *. rewrite plain_star in Hp. rewrite (IHe true Hp Hs). reflexivity.
  - cbn [names_of]. simpl in Hs. rewrite plain_call in Hp. rewrite (IHe true Hp Hs).
    rewrite (plain_not_builtin e Hp), andb_false_r. reflexivity.
Qed.

(* --- (2) literal getattr-family chains spell as the dotted access, at any nesting depth --- *)

Lemma dotted_snoc b lits l : dotted b (lits ++ [l]) = (dotted b lits ++ "." ++ l)%string.
Proof. unfold dotted. rewrite fold_left_app. reflexivity. Qed.

Definition not_call (n : node) : bool := match n with ECall _ _ _ _ => false | _ => true end.

Lemma chain_pair : forall e fn o lits,
  chain_parts fn e = Some (o, lits) ->
  not_call o = true -> plain o = true -> strict o = true ->
  exists pre l, lits = pre ++ [l] /\ pair_call fn e = POk (dotted (spell o) pre) l.
Proof.
  induction e using node_children_ind. rename H into IH.
  intros fn o lits Hc Hnc Hpl Hst.
  destruct e; try discriminate.
  destruct e; try discriminate.
  destruct args as [|obj [|nm rest]]; try discriminate.
  destruct nm; try discriminate. destruct sv as [lit|]; try discriminate.
  cbn [chain_parts] in Hc.
  destruct (String.eqb id fn) eqn:Eid; [|discriminate].
  cbn [pair_call].
  assert (Hnm : names_of true true (EConst (Some lit)) = NOk "@Constant" "@Constant") by reflexivity.
  rewrite Hnm.
  destruct obj; try (
    injection Hc as <- <-; exists (@nil string), lit; split; [reflexivity|];
    rewrite (names_of_unsafe_strict _ true Hpl Hst); reflexivity).
  (* the object is itself a call: it must be a nested call to the same builtin *)
  destruct (chain_parts fn (ECall obj args kws0 p1)) as [[o' lits']|] eqn:Ein; [|discriminate].
  injection Hc as <- <-.
  assert (Hdirect : is_call_to_fn (ECall obj args kws0 p1) fn = true).
  { destruct obj; try discriminate. cbn [chain_parts] in Ein.
    destruct args as [|? [|? ?]]; try discriminate. destruct n0; try discriminate. destruct sv; try discriminate.
    simpl. destruct (String.eqb id0 fn); [reflexivity|discriminate]. }
  rewrite Hdirect.
  simpl children in IH. inversion IH as [|? ? _ IH']; subst. inversion IH' as [|? ? IHobj _]; subst.
  destruct (IHobj fn o' lits' Ein Hnc Hpl Hst) as (pre & l & Hl & Hp).
  rewrite Hp. exists lits', lit. split; [reflexivity|].
  rewrite Hl, dotted_snoc. reflexivity.
Qed.

Theorem getattr_chain_spells e fn o lits :
  wellformed_chain e = Some (fn, o, lits) ->
  names_of true true e = NOk fn (dotted (spell o) lits).
Proof.
  unfold wellformed_chain. destruct e; try discriminate. destruct e; try discriminate.
  destruct (mem id ATTR_BUILTINS) eqn:Em; [|discriminate].
  destruct (chain_parts id (ECall (EName id c p0) args kws p)) as [[o' lits']|] eqn:Ec; [|discriminate].
  destruct (plain o' && strict o' && negb match o' with ECall _ _ _ _ => true | _ => false end) eqn:Eo; [|discriminate].
  intros H. injection H as <- <- <-.
  apply andb_prop in Eo as [Eo Enc]. apply andb_prop in Eo as [Epl Est].
  assert (Hnc : not_call o' = true) by (destruct o'; simpl in *; congruence).
  destruct (chain_pair _ _ _ _ Ec Hnc Epl Est) as (pre & l & Hl & Hp).
  cbn [names_of]. cbn [pair_call] in Hp. rewrite Em. simpl andb. rewrite Hp.
  rewrite Hl, dotted_snoc. reflexivity.
Qed.

(* --- refutations: the getattr-spine cases (finding class KF_C10_1) --- *)
Definition P0 : pos := (1, 0).
Definition e_getattr_binop : node :=   (* getattr(a + b, 'c') *)
  ECall (EName "getattr" Load P0) [Other "BinOp" [] [EName "a" Load P0; EName "b" Load P0]; EConst (Some "c")] [] P0.
Definition e_getattr_attr : node :=    (* getattr(a, 'b').c *)
  EAttr (ECall (EName "getattr" Load P0) [EName "a" Load P0; EConst (Some "b")] [] P0) "c" Load P0.
Definition e_getattr_method : node :=  (* getattr(a, 'b').c() *)
  ECall e_getattr_attr [] [] P0.

Lemma safe_naming_raises : names_of true true e_getattr_binop = NRaise "RattrBinOpInNameable".
Proof. reflexivity. Qed.
Lemma base_is_builtin_not_variable : names_of true true e_getattr_attr = NOk "getattr" "a.b.c".
Proof. reflexivity. Qed.
Lemma namers_disagree :
  names_of true true e_getattr_method = NFatal /\ old_names true e_getattr_method = NOk "getattr" "a.b.c()".
Proof. split; reflexivity. Qed.
Lemma refutation_inputs_in_class :
  KF_C10_1 e_getattr_binop = true /\ KF_C10_1 e_getattr_attr = true /\ KF_C10_1 e_getattr_method = true.
Proof. repeat split; reflexivity. Qed.

(* non-vacuity *)
Definition e_sample : node :=          (* (a+b).m(k=1)[i].z : an unnameable root under attribute, call, subscript, attribute *)
  EAttr (ESub (ECall (EAttr (Other "BinOp" [] [EName "a" Load P0; EName "b" Load P0]) "m" Load P0)
                     [] [EKw (Some "k") (EConst None)] P0) (EName "i" Load P0) Load P0) "z" Load P0.
Lemma sample_plain : plain e_sample = true /\ names_of true true e_sample = NOk "@BinOp" "@BinOp.m()[].z".
Proof. split; reflexivity. Qed.
Definition e_chain : node :=           (* getattr(getattr(a.b[0], 'c'), 'd', dflt) *)
  ECall (EName "getattr" Load P0)
        [ECall (EName "getattr" Load P0) [ESub (EAttr (EName "a" Load P0) "b" Load P0) (EConst None) Load P0; EConst (Some "c")] [] P0;
         EConst (Some "d"); EName "dflt" Load P0] [] P0.
Lemma sample_chain : wellformed_chain e_chain = Some ("getattr", ESub (EAttr (EName "a" Load P0) "b" Load P0) (EConst None) Load P0, ["c"; "d"])
                     /\ names_of true true e_chain = NOk "getattr" "a.b[].c.d".
Proof. split; reflexivity. Qed.
