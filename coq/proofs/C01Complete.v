(* C01, the positive half: on call-free load expressions - names, attribute / subscript / starred chains over
   them, and ANY expression class without a dedicated visitor (binary, boolean, comparison, conditional, unary
   operators, tuples, lists, sets, dicts, f-strings, ...) nested to any depth - every access the specification
   `occs false` lists is reported, and the visit ends normally. *)
From RattrV Require Import Base BaseFacts Str PyAst Naming Spell Context FuncAn PyAstInd FaFacts FaMono Occurs C10Proofs.
Open Scope string_scope.
Open Scope list_scope.

(* the fragment, node by node *)
Definition cf_local (n : node) : Prop :=
  match n with
  | EName id Load _ => mem id ATTR_BUILTINS = false
  | EAttr _ _ Load _ | ESub _ _ Load _ | EStar _ Load _ => True
  | EConst _ | ESeq _ _ _ | EDict _ _ => True
  | Other _ [] _ => True
  | _ => False
  end.
Definition CF (n : node) : Prop := All cf_local n.

Lemma cf_child n x : CF n -> In x (children n) -> CF x.
Proof. intros H Hx. apply all_children in H. rewrite Forall_forall in H. apply H. exact Hx. Qed.

Lemma cf_plain : forall n, CF n -> plain n = true.
Proof.
  induction n using node_children_ind. rename H into IH. intros Hcf.
  pose proof (all_here _ _ Hcf) as Hl.
  destruct n; simpl in Hl; try contradiction; try reflexivity.
  - destruct c; try contradiction. unfold plain. simpl. rewrite Hl. reflexivity.
  - rewrite plain_attr. inversion IH as [|? ? H1 _]; subst. apply H1. apply (cf_child _ _ Hcf). left. reflexivity.
  - rewrite plain_sub. inversion IH as [|? ? H1 _]; subst. apply H1. apply (cf_child _ _ Hcf). left. reflexivity.
  - rewrite plain_star. inversion IH as [|? ? H1 _]; subst. apply H1. apply (cf_child _ _ Hcf). left. reflexivity.
Qed.

(* without calls the two spellings coincide *)
Lemma spell_u_spell : forall n, CF n -> spell_u n = spell n.
Proof.
  induction n using node_children_ind. rename H into IH. intros Hcf.
  pose proof (all_here _ _ Hcf) as Hl.
  destruct n; simpl in Hl; try contradiction; try reflexivity.
  - simpl. inversion IH as [|? ? H1 _]; subst. rewrite H1; [reflexivity|]. apply (cf_child _ _ Hcf). left. reflexivity.
  - simpl. inversion IH as [|? ? H1 _]; subst. rewrite H1; [reflexivity|]. apply (cf_child _ _ Hcf). left. reflexivity.
  - simpl. inversion IH as [|? ? H1 _]; subst. rewrite H1; [reflexivity|]. apply (cf_child _ _ Hcf). left. reflexivity.
Qed.

(* strictly inside a call-free spine the pruned specification lists nothing *)
Lemma inner_cf_nil : forall v, CF v -> inner false v = [].
Proof.
  induction v using node_children_ind. rename H into IH. intros Hcf.
  pose proof (all_here _ _ Hcf) as Hl.
  destruct v; simpl in Hl; try contradiction; try reflexivity.
  - cbn [inner]. inversion IH as [|? ? H1 _]; subst.
    destruct (is_nameable v); [apply H1; apply (cf_child _ _ Hcf); left; reflexivity|reflexivity].
  - cbn [inner]. inversion IH as [|? ? H1 _]; subst. rewrite app_nil_r.
    destruct (is_nameable v1); [apply H1; apply (cf_child _ _ Hcf); left; reflexivity|reflexivity].
  - cbn [inner]. inversion IH as [|? ? H1 _]; subst.
    destruct (is_nameable v); [apply H1; apply (cf_child _ _ Hcf); left; reflexivity|reflexivity].
Qed.

Lemma kf_c10_plain n : plain n = true -> KF_C10_1 n = false.
Proof. intros H. unfold KF_C10_1. rewrite H. reflexivity. Qed.

(* the specification's local list traversal is a flat_map *)
Lemma olist_flat_map l :
  (fix olist (l : list node) : list occ := match l with [] => [] | x :: r => occs false x ++ olist r end) l
  = flat_map (occs false) l.
Proof. induction l as [|x l IH]; simpl; [reflexivity|]. rewrite IH. reflexivity. Qed.

Section Complete.
  Variable mexists : string -> bool.
  Variable modulename : option string.
  Notation V := (visit mexists modulename).
  Notation VL := (mapM_ V).

  Definition reported (nm : string) (s : vstate) : Prop := exists b, rmem (nm, b) (v_gets s) = true.
  Definition good (n : node) : Prop :=
    forall s, fst (V n s) = Ok tt /\ forall nm, In (AGet, nm) (occs false n) -> reported nm (snd (V n s)).

  Lemma reported_ext nm s s' : ext s s' -> reported nm s -> reported nm s'.
  Proof. intros He (b & H). exists b. apply (ext_gets _ _ He). exact H. Qed.

  Lemma bind_ok {A B} (m : M A) (k : A -> M B) s a : fst (m s) = Ok a -> bind m k s = k a (snd (m s)).
  Proof. unfold bind. destruct (m s) as [o s1]. simpl. intros ->. reflexivity. Qed.

  (* naming a call-free node succeeds with the README spelling, and only appends warnings *)
  Lemma get_and_verify_cf n c s :
    plain n = true ->
    fst (get_and_verify_name n c s) = Ok (spell_base n, spell n) /\ ext s (snd (get_and_verify_name n c s)).
  Proof.
    intros Hp. split; [|apply mono_get_and_verify].
    unfold get_and_verify_name. rewrite (names_of_spells n true Hp). cbn [lift_names].
    unfold bind, ret, get_ctx. cbn [fst snd].
    match goal with |- context [if ?b then add_warn _ _ else _] => destruct b end; reflexivity.
  Qed.

  Lemma VL_good l :
    Forall good l ->
    forall s, fst (VL l s) = Ok tt /\ forall x nm, In x l -> In (AGet, nm) (occs false x) -> reported nm (snd (VL l s)).
  Proof.
    induction 1 as [|x l Hx _ IH]; intros s; simpl.
    - split; [reflexivity|intros ? ? []].
    - destruct (Hx s) as [Hok Hrep]. rewrite (bind_ok _ _ s tt Hok).
      destruct (IH (snd (V x s))) as [Hok2 Hrep2]. split; [exact Hok2|].
      intros y nm [<-|Hy] Hin.
      + eapply reported_ext; [|apply Hrep; exact Hin].
        apply mono_mapM_. intros z. apply (all_here _ _ (visit_retval_mono mexists modulename z)).
      + apply (Hrep2 y nm Hy Hin).
  Qed.

  (* attribute / subscript / starred over v *)
  Lemma compound_good n v c0 :
    plain n = true -> c0 = Load -> KF_C10_1 n = false ->
    (is_nameable v = false -> good v) ->
    forall s, fst (compound_body n v c0 (V v) s) = Ok tt
              /\ reported (spell n) (snd (compound_body n v c0 (V v) s))
              /\ (is_nameable v = false -> forall nm, In (AGet, nm) (occs false v) -> reported nm (snd (compound_body n v c0 (V v) s))).
  Proof.
    intros Hp -> Hk Hv s. unfold compound_body.
    destruct (get_and_verify_cf n Load s Hp) as [Hok Hext]. rewrite (bind_ok _ _ s _ Hok).
    set (s1 := snd (get_and_verify_name n Load s)) in *.
    destruct (is_nameable v) eqn:En.
    - cbn [bind ret]. unfold bind, ret. simpl. repeat split.
      + exists (spell_base n). apply rmem_radd_self.
      + intros H; discriminate H.
    - destruct (Hv eq_refl s1) as [Hok2 Hrep2]. rewrite (bind_ok _ _ s1 tt Hok2). simpl. repeat split.
      + exists (spell_base n). apply rmem_radd_self.
      + intros _ nm Hin. destruct (Hrep2 nm Hin) as (b & Hb). exists b. apply rmem_radd. exact Hb.
  Qed.

  Theorem call_free_loads_are_complete : forall n, CF n -> good n.
  Proof.
    induction n using node_children_ind. rename H into IH. intros Hcf.
    pose proof (all_here _ _ Hcf) as Hl. pose proof (cf_plain n Hcf) as Hp.
    assert (Hkids : Forall good (children n)).
    { rewrite Forall_forall in IH |- *. intros x Hx. apply IH; [exact Hx|apply (cf_child _ _ Hcf Hx)]. }
    destruct n; simpl in Hl; try contradiction.
    - (* Name *)
      destruct c; try contradiction. intros s. rewrite visit_name.
      destruct (get_and_verify_cf (EName id Load p) Load s Hp) as [Hok Hext]. rewrite (bind_ok _ _ s _ Hok). simpl.
      split; [reflexivity|]. intros nm [H|[]]. cbn [kind_of_ctx] in H. injection H as <-. exists id. apply rmem_radd_self.
    - (* Attribute *)
      destruct c; try contradiction. intros s. rewrite visit_attr.
      simpl in Hkids. inversion Hkids as [|? ? Hv _]; subst.
      destruct (compound_good (EAttr n a Load p) n Load Hp eq_refl (kf_c10_plain _ Hp) (fun _ => Hv) s) as (H1 & H2 & H3).
      split; [exact H1|]. intros nm Hin. cbn [occs] in Hin. rewrite (kf_c10_plain _ Hp) in Hin.
      apply in_app_or in Hin. destruct Hin as [[H|[]]|Hin].
      + rewrite (spell_u_spell _ Hcf) in H. cbn [kind_of_ctx] in H. injection H as <-. exact H2.
      + destruct (is_nameable n) eqn:En.
        * rewrite (inner_cf_nil n (cf_child _ _ Hcf (or_introl eq_refl))) in Hin. destruct Hin.
        * apply (H3 eq_refl nm Hin).
    - (* Subscript *)
      destruct c; try contradiction. intros s. rewrite visit_sub.
      simpl in Hkids. inversion Hkids as [|? ? Hv _]; subst.
      destruct (compound_good (ESub n1 n2 Load p) n1 Load Hp eq_refl (kf_c10_plain _ Hp) (fun _ => Hv) s) as (H1 & H2 & H3).
      split; [exact H1|]. intros nm Hin. cbn [occs] in Hin. rewrite (kf_c10_plain _ Hp), app_nil_r in Hin.
      apply in_app_or in Hin. destruct Hin as [[H|[]]|Hin].
      + rewrite (spell_u_spell _ Hcf) in H. cbn [kind_of_ctx] in H. injection H as <-. exact H2.
      + destruct (is_nameable n1) eqn:En.
        * rewrite (inner_cf_nil n1 (cf_child _ _ Hcf (or_introl eq_refl))) in Hin. destruct Hin.
        * apply (H3 eq_refl nm Hin).
    - (* Starred *)
      destruct c; try contradiction. intros s. rewrite visit_star.
      simpl in Hkids. inversion Hkids as [|? ? Hv _]; subst.
      destruct (compound_good (EStar n Load p) n Load Hp eq_refl (kf_c10_plain _ Hp) (fun _ => Hv) s) as (H1 & H2 & H3).
      split; [exact H1|]. intros nm Hin. cbn [occs] in Hin. rewrite (kf_c10_plain _ Hp) in Hin.
      apply in_app_or in Hin. destruct Hin as [[H|[]]|Hin].
      + rewrite (spell_u_spell _ Hcf) in H. cbn [kind_of_ctx] in H. injection H as <-. exact H2.
      + destruct (is_nameable n) eqn:En.
        * rewrite (inner_cf_nil n (cf_child _ _ Hcf (or_introl eq_refl))) in Hin. destruct Hin.
        * apply (H3 eq_refl nm Hin).
    - (* Constant *)
      intros s. rewrite visit_const. split; [reflexivity|intros nm []].
    - (* Tuple / List / Set *)
      intros s. rewrite visit_seq. simpl in Hkids. destruct (VL_good es Hkids s) as [H1 H2]. split; [exact H1|].
      intros nm Hin. cbn [occs] in Hin. rewrite olist_flat_map in Hin. apply in_flat_map in Hin.
      destruct Hin as (x & Hx & Hin). apply (H2 x nm Hx Hin).
    - (* Dict *)
      intros s. rewrite visit_dict. simpl in Hkids. apply Forall_app in Hkids. destruct Hkids as [Hks Hvs].
      destruct (VL_good ks Hks s) as [H1 H2]. rewrite (bind_ok _ _ s tt H1).
      destruct (VL_good vs Hvs (snd (VL ks s))) as [H3 H4]. split; [exact H3|].
      intros nm Hin. cbn [occs] in Hin. rewrite !olist_flat_map in Hin. apply in_app_or in Hin. destruct Hin as [Hin|Hin].
      + apply in_flat_map in Hin. destruct Hin as (x & Hx & Hin).
        eapply reported_ext; [|apply (H2 x nm Hx Hin)].
        apply mono_mapM_. intros z. apply (all_here _ _ (visit_retval_mono mexists modulename z)).
      + apply in_flat_map in Hin. destruct Hin as (x & Hx & Hin). apply (H4 x nm Hx Hin).
    - (* any other expression class *)
      destruct binds; try contradiction.
      intros s. rewrite visit_other. simpl in Hkids. destruct (VL_good _ Hkids s) as [H1 H2]. split; [exact H1|].
      intros nm Hin. cbn [occs] in Hin. rewrite olist_flat_map in Hin. apply in_flat_map in Hin.
      destruct Hin as (x & Hx & Hin). apply (H2 x nm Hx Hin).
  Qed.

  (* everything the specification lists for such an expression is a get *)
  Lemma cf_occs_are_gets : forall n, CF n -> forall o, In o (occs false n) -> fst o = AGet.
  Proof.
    induction n using node_children_ind. rename H into IH. intros Hcf o Hin.
    pose proof (all_here _ _ Hcf) as Hl. pose proof (cf_plain n Hcf) as Hp.
    assert (Hkids : forall x, In x (children n) -> forall o, In o (occs false x) -> fst o = AGet).
    { rewrite Forall_forall in IH. intros x Hx. apply IH; [exact Hx|apply (cf_child _ _ Hcf Hx)]. }
    destruct n; simpl in Hl; try contradiction.
    - destruct c; try contradiction. destruct Hin as [<-|[]]. reflexivity.
    - destruct c; try contradiction. cbn [occs] in Hin. rewrite (kf_c10_plain _ Hp) in Hin.
      apply in_app_or in Hin. destruct Hin as [[<-|[]]|Hin]; [reflexivity|].
      destruct (is_nameable n); [rewrite (inner_cf_nil n (cf_child _ _ Hcf (or_introl eq_refl))) in Hin; destruct Hin|].
      apply (Hkids n (or_introl eq_refl) o Hin).
    - destruct c; try contradiction. cbn [occs] in Hin. rewrite (kf_c10_plain _ Hp), app_nil_r in Hin.
      apply in_app_or in Hin. destruct Hin as [[<-|[]]|Hin]; [reflexivity|].
      destruct (is_nameable n1); [rewrite (inner_cf_nil n1 (cf_child _ _ Hcf (or_introl eq_refl))) in Hin; destruct Hin|].
      apply (Hkids n1 (or_introl eq_refl) o Hin).
    - destruct c; try contradiction. cbn [occs] in Hin. rewrite (kf_c10_plain _ Hp) in Hin.
      apply in_app_or in Hin. destruct Hin as [[<-|[]]|Hin]; [reflexivity|].
      destruct (is_nameable n); [rewrite (inner_cf_nil n (cf_child _ _ Hcf (or_introl eq_refl))) in Hin; destruct Hin|].
      apply (Hkids n (or_introl eq_refl) o Hin).
    - cbn [occs] in Hin. rewrite olist_flat_map in Hin. apply in_flat_map in Hin. destruct Hin as (x & Hx & Hin).
      apply (Hkids x Hx o Hin).
    - cbn [occs] in Hin. rewrite !olist_flat_map in Hin. apply in_app_or in Hin.
      destruct Hin as [Hin|Hin]; apply in_flat_map in Hin; destruct Hin as (x & Hx & Hin);
        apply (Hkids x); [simpl; apply in_or_app; left; exact Hx|exact Hin|simpl; apply in_or_app; right; exact Hx|exact Hin].
    - destruct binds; try contradiction. cbn [occs] in Hin. rewrite olist_flat_map in Hin. apply in_flat_map in Hin.
      destruct Hin as (x & Hx & Hin). apply (Hkids x Hx o Hin).
  Qed.
End Complete.
