(* C01, the positive half: on call-free load expressions - names, attribute / subscript / starred chains over
   them, and ANY expression class without a dedicated visitor (binary, boolean, comparison, conditional, unary
   operators, tuples, lists, sets, dicts, f-strings, ...) nested to any depth - every access the specification
   `occs false` lists is reported, and the visit ends normally. *)
From RattrV Require Import Base BaseFacts Str PyAst Naming Spell Context FuncAn PyAstInd FaFacts FaMono Occurs C10Proofs.
Open Scope string_scope.
Open Scope list_scope.

(* the fragment, node by node *)
Definition cf_local (n : node) : Prop :=
  match n with
  | EName id Load _ => mem id ATTR_BUILTINS = false
  | EAttr _ _ Load _ | ESub _ _ Load _ | EStar _ Load _ => True
  | EConst _ | ESeq _ _ _ | EDict _ _ => True
  | Other _ [] _ => True
  | _ => False
  end.
Definition CF (n : node) : Prop := All cf_local n.

Lemma cf_child n x : CF n -> In x (children n) -> CF x.
Proof. intros H Hx. apply all_children in H. rewrite Forall_forall in H. apply H. exact Hx. Qed.

Lemma cf_plain : forall n, CF n -> plain n = true.
Proof.
  induction n using node_children_ind. rename H into IH. intros Hcf.
  pose proof (all_here _ _ Hcf) as Hl.
  destruct n; simpl in Hl; try contradiction; try reflexivity.
  - destruct c; try contradiction. unfold plain. simpl. rewrite Hl. reflexivity.
  - rewrite plain_attr. inversion IH as [|? ? H1 _]; subst. apply H1. apply (cf_child _ _ Hcf). left. reflexivity.
  - rewrite plain_sub. inversion IH as [|? ? H1 _]; subst. apply H1. apply (cf_child _ _ Hcf). left. reflexivity.
  - rewrite plain_star. inversion IH as [|? ? H1 _]; subst. apply H1. apply (cf_child _ _ Hcf). left. reflexivity.
Qed.

(* without calls the two spellings coincide *)
Lemma spell_u_spell : forall n, CF n -> spell_u n = spell n.
Proof.
  induction n using node_children_ind. rename H into IH. intros Hcf.
  pose proof (all_here _ _ Hcf) as Hl.
  destruct n; simpl in Hl; try contradiction; try reflexivity.
  - simpl. inversion IH as [|? ? H1 _]; subst. rewrite H1; [reflexivity|]. apply (cf_child _ _ Hcf). left. reflexivity.
  - simpl. inversion IH as [|? ? H1 _]; subst. rewrite H1; [reflexivity|]. apply (cf_child _ _ Hcf). left. reflexivity.
  - simpl. inversion IH as [|? ? H1 _]; subst. rewrite H1; [reflexivity|]. apply (cf_child _ _ Hcf). left. reflexivity.
Qed.

(* strictly inside a call-free spine the pruned specification lists exactly the occurrences of the indexes / slices *)
Lemma inner_cf_attr v a c p : CF (EAttr v a c p) -> inner false (EAttr v a c p) = if is_nameable v then inner false v else [].
Proof. intros _. cbn [inner]. reflexivity. Qed.
Lemma inner_cf_star v c p : inner false (EStar v c p) = if is_nameable v then inner false v else [].
Proof. cbn [inner]. reflexivity. Qed.
Lemma inner_cf_sub v sl c p : inner false (ESub v sl c p) = (if is_nameable v then inner false v else []) ++ occs false sl.
Proof. cbn [inner]. reflexivity. Qed.
Lemma inner_cf_other v : CF v -> is_nameable v = false -> inner false v = [].
Proof. intros H Hn. pose proof (all_here _ _ H) as Hl. destruct v; simpl in Hl; try contradiction; try discriminate; reflexivity. Qed.

Lemma kf_c10_plain n : plain n = true -> KF_C10_1 n = false.
Proof. intros H. unfold KF_C10_1. rewrite H. reflexivity. Qed.

(* the specification's local list traversal is a flat_map *)
Lemma olist_flat_map l :
  (fix olist (l : list node) : list occ := match l with [] => [] | x :: r => occs false x ++ olist r end) l
  = flat_map (occs false) l.
Proof. induction l as [|x l IH]; simpl; [reflexivity|]. rewrite IH. reflexivity. Qed.

Section Complete.
  Variable mexists : string -> bool.
  Variable modulename : option string.
  Notation V := (visit mexists modulename).
  Notation VL := (mapM_ V).

  Definition reported (nm : string) (s : vstate) : Prop := exists b, rmem (nm, b) (v_gets s) = true.
  Definition good (n : node) : Prop :=
    forall s, fst (V n s) = Ok tt /\ forall nm, In (AGet, nm) (occs false n) -> reported nm (snd (V n s)).

  Lemma reported_ext nm s s' : ext s s' -> reported nm s -> reported nm s'.
  Proof. intros He (b & H). exists b. apply (ext_gets _ _ He). exact H. Qed.

  Lemma bind_ok {A B} (m : M A) (k : A -> M B) s a : fst (m s) = Ok a -> bind m k s = k a (snd (m s)).
  Proof. unfold bind. destruct (m s) as [o s1]. simpl. intros ->. reflexivity. Qed.

  (* naming a call-free node succeeds with the README spelling, and only appends warnings *)
  Lemma get_and_verify_cf n c s :
    plain n = true ->
    fst (get_and_verify_name n c s) = Ok (spell_base n, spell n) /\ ext s (snd (get_and_verify_name n c s)).
  Proof.
    intros Hp. split; [|apply mono_get_and_verify].
    unfold get_and_verify_name. rewrite (names_of_spells n true Hp). cbn [lift_names].
    unfold bind, ret, get_ctx. cbn [fst snd].
    match goal with |- context [if ?b then add_warn _ _ else _] => destruct b end; reflexivity.
  Qed.

  Lemma VL_good l :
    Forall good l ->
    forall s, fst (VL l s) = Ok tt /\ forall x nm, In x l -> In (AGet, nm) (occs false x) -> reported nm (snd (VL l s)).
  Proof.
    induction 1 as [|x l Hx _ IH]; intros s; simpl.
    - split; [reflexivity|intros ? ? []].
    - destruct (Hx s) as [Hok Hrep]. rewrite (bind_ok _ _ s tt Hok).
      destruct (IH (snd (V x s))) as [Hok2 Hrep2]. split; [exact Hok2|].
      intros y nm [<-|Hy] Hin.
      + eapply reported_ext; [|apply Hrep; exact Hin].
        apply mono_mapM_. intros z. apply (all_here _ _ (visit_retval_mono mexists modulename z)).
      + apply (Hrep2 y nm Hy Hin).
  Qed.

  (* what the visit of the slices passed over by a name reports *)
  Definition slices_good (m : node) : Prop :=
    forall s, fst (spine_with V m s) = Ok tt
              /\ forall nm, In (AGet, nm) (inner false m) -> reported nm (snd (spine_with V m s)).

  Lemma mono_spine_V m : mono (spine_with V m).
  Proof. apply mono_spine. apply visit_retval_mono. Qed.

  (* attribute / subscript / starred over v; m2 = the visit of the slices, L2 what it reports *)
  Lemma compound_good n v c0 m2 (L2 : list occ) :
    plain n = true -> c0 = Load -> KF_C10_1 n = false ->
    (is_nameable v = false -> good v) ->
    mono m2 ->
    (forall s, fst (m2 s) = Ok tt /\ forall nm, In (AGet, nm) L2 -> reported nm (snd (m2 s))) ->
    forall s, fst (compound_body n v c0 (V v) m2 s) = Ok tt
              /\ reported (spell n) (snd (compound_body n v c0 (V v) m2 s))
              /\ (is_nameable v = false -> forall nm, In (AGet, nm) (occs false v) -> reported nm (snd (compound_body n v c0 (V v) m2 s)))
              /\ (forall nm, In (AGet, nm) L2 -> reported nm (snd (compound_body n v c0 (V v) m2 s))).
  Proof.
    intros Hp -> Hk Hv Hmono H2 s. unfold compound_body.
    destruct (get_and_verify_cf n Load s Hp) as [Hok Hext]. rewrite (bind_ok _ _ s _ Hok).
    set (s1 := snd (get_and_verify_name n Load s)) in *.
    destruct (is_nameable v) eqn:En.
    - rewrite (bind_ok (ret tt) _ s1 tt eq_refl). cbn [snd ret].
      destruct (H2 s1) as [Hok2 Hrep2]. rewrite (bind_ok _ _ s1 tt Hok2). cbn [update_results add_get fst snd v_gets].
      repeat split.
      + exists (spell_base n). apply rmem_radd_self.
      + intros H; discriminate H.
      + intros nm Hin. destruct (Hrep2 nm Hin) as (b & Hb). exists b. apply rmem_radd. exact Hb.
    - destruct (Hv eq_refl s1) as [Hok1 Hrep1]. rewrite (bind_ok _ _ s1 tt Hok1).
      set (s2 := snd (V v s1)) in *.
      destruct (H2 s2) as [Hok2 Hrep2]. rewrite (bind_ok _ _ s2 tt Hok2). cbn [update_results add_get fst snd v_gets].
      repeat split.
      + exists (spell_base n). apply rmem_radd_self.
      + intros _ nm Hin. destruct (reported_ext nm s2 _ (Hmono s2) (Hrep1 nm Hin)) as (b & Hb). exists b. apply rmem_radd. exact Hb.
      + intros nm Hin. destruct (Hrep2 nm Hin) as (b & Hb). exists b. apply rmem_radd. exact Hb.
  Qed.

  (* the slices of a subscript node: its own index, then those further down the spine *)
  Lemma sub_slices v sl :
    good sl -> slices_good v ->
    forall s, fst ((V sl ;;; spine_with V v) s) = Ok tt
              /\ forall nm, In (AGet, nm) (occs false sl ++ inner false v) -> reported nm (snd ((V sl ;;; spine_with V v) s)).
  Proof.
    intros Hsl Hv s. destruct (Hsl s) as [Hok Hrep]. rewrite (bind_ok _ _ s tt Hok).
    destruct (Hv (snd (V sl s))) as [Hok2 Hrep2]. split; [exact Hok2|].
    intros nm Hin. apply in_app_or in Hin as [Hin|Hin].
    - eapply reported_ext; [apply mono_spine_V | exact (Hrep nm Hin)].
    - exact (Hrep2 nm Hin).
  Qed.

  Theorem call_free_loads_are_complete_and_slices : forall n, CF n -> good n /\ slices_good n.
  Proof.
    induction n using node_children_ind. rename H into IH. intros Hcf.
    pose proof (all_here _ _ Hcf) as Hl. pose proof (cf_plain n Hcf) as Hp.
    assert (Hkids2 : Forall (fun x => good x /\ slices_good x) (children n)).
    { rewrite Forall_forall in IH |- *. intros x Hx. apply IH; [exact Hx|apply (cf_child _ _ Hcf Hx)]. }
    assert (Hkids : Forall good (children n)).
    { rewrite Forall_forall in Hkids2 |- *. intros x Hx. exact (proj1 (Hkids2 x Hx)). }
    assert (Htriv : forall m, spine_with V m = ret tt -> inner false m = [] -> slices_good m).
    { intros m E1 E2 s. rewrite E1, E2. split; [reflexivity | intros ? []]. }
    destruct n; simpl in Hl; try contradiction.
    - (* Name *)
      destruct c; try contradiction. split; [|apply Htriv; reflexivity].
      intros s. rewrite visit_name.
      destruct (get_and_verify_cf (EName id Load p) Load s Hp) as [Hok Hext]. rewrite (bind_ok _ _ s _ Hok). simpl.
      split; [reflexivity|]. intros nm [H|[]]. cbn [kind_of_ctx] in H. injection H as <-. exists id. apply rmem_radd_self.
    - (* Attribute *)
      destruct c; try contradiction.
      simpl in Hkids2. pose proof (Forall_inv Hkids2) as [Hv Hsv].
      assert (Hsl : forall s, fst (spine_with V n s) = Ok tt /\ forall nm, In (AGet, nm) (if is_nameable n then inner false n else []) -> reported nm (snd (spine_with V n s))).
      { intros s. destruct (Hsv s) as [H1 H2]. split; [exact H1|]. intros nm Hin. destruct (is_nameable n); [exact (H2 nm Hin) | destruct Hin]. }
      split.
      + intros s. rewrite visit_attr.
        destruct (compound_good (EAttr n a Load p) n Load _ _ Hp eq_refl (kf_c10_plain _ Hp) (fun _ => Hv) (mono_spine_V n) Hsl s) as (H1 & H2 & H3 & H4).
        split; [exact H1|]. intros nm Hin. cbn [occs] in Hin. rewrite (kf_c10_plain _ Hp) in Hin.
        apply in_app_or in Hin. destruct Hin as [[H|[]]|Hin].
        * rewrite (spell_u_spell _ Hcf) in H. cbn [kind_of_ctx] in H. injection H as <-. exact H2.
        * destruct (is_nameable n) eqn:En; [exact (H4 nm Hin) | exact (H3 eq_refl nm Hin)].
      + intros s. cbn [spine_with]. destruct (Hsl s) as [H1 H2]. split; [exact H1|].
        intros nm Hin. cbn [inner] in Hin. destruct (is_nameable n); [exact (H2 nm Hin) | destruct Hin].
    - (* Subscript *)
      destruct c; try contradiction.
      simpl in Hkids2. pose proof (Forall_inv Hkids2) as [Hv Hsv]. pose proof (Forall_inv (Forall_inv_tail Hkids2)) as [Hgsl _].
      assert (Hsl : forall s, fst ((V n2 ;;; spine_with V n1) s) = Ok tt
                              /\ forall nm, In (AGet, nm) (occs false n2 ++ (if is_nameable n1 then inner false n1 else [])) ->
                                            reported nm (snd ((V n2 ;;; spine_with V n1) s))).
      { intros s. destruct (sub_slices n1 n2 Hgsl Hsv s) as [H1 H2]. split; [exact H1|]. intros nm Hin. apply H2.
        apply in_app_or in Hin as [Hin|Hin]; apply in_or_app; [left; exact Hin|]. destruct (is_nameable n1); [right; exact Hin | destruct Hin]. }
      assert (Hm2 : mono (V n2 ;;; spine_with V n1)).
      { apply mono_bind; [apply (all_here _ _ (visit_retval_mono mexists modulename n2)) | intros; apply mono_spine_V]. }
      split.
      + intros s. rewrite visit_sub.
        destruct (compound_good (ESub n1 n2 Load p) n1 Load _ _ Hp eq_refl (kf_c10_plain _ Hp) (fun _ => Hv) Hm2 Hsl s) as (H1 & H2 & H3 & H4).
        split; [exact H1|]. intros nm Hin. cbn [occs] in Hin. rewrite (kf_c10_plain _ Hp) in Hin.
        apply in_app_or in Hin. destruct Hin as [[H|[]]|Hin].
        * rewrite (spell_u_spell _ Hcf) in H. cbn [kind_of_ctx] in H. injection H as <-. exact H2.
        * apply in_app_or in Hin. destruct Hin as [Hin|Hin].
          -- destruct (is_nameable n1) eqn:En; [apply H4; apply in_or_app; right; exact Hin | exact (H3 eq_refl nm Hin)].
          -- apply H4. apply in_or_app. left. exact Hin.
      + intros s. cbn [spine_with]. destruct (Hsl s) as [H1 H2]. split; [exact H1|].
        intros nm Hin. cbn [inner] in Hin. apply H2. apply in_app_or in Hin as [Hin|Hin]; apply in_or_app.
        * right. destruct (is_nameable n1); [exact Hin | destruct Hin].
        * left. exact Hin.
    - (* Starred *)
      destruct c; try contradiction.
      simpl in Hkids2. pose proof (Forall_inv Hkids2) as [Hv Hsv].
      assert (Hsl : forall s, fst (spine_with V n s) = Ok tt /\ forall nm, In (AGet, nm) (if is_nameable n then inner false n else []) -> reported nm (snd (spine_with V n s))).
      { intros s. destruct (Hsv s) as [H1 H2]. split; [exact H1|]. intros nm Hin. destruct (is_nameable n); [exact (H2 nm Hin) | destruct Hin]. }
      split.
      + intros s. rewrite visit_star.
        destruct (compound_good (EStar n Load p) n Load _ _ Hp eq_refl (kf_c10_plain _ Hp) (fun _ => Hv) (mono_spine_V n) Hsl s) as (H1 & H2 & H3 & H4).
        split; [exact H1|]. intros nm Hin. cbn [occs] in Hin. rewrite (kf_c10_plain _ Hp) in Hin.
        apply in_app_or in Hin. destruct Hin as [[H|[]]|Hin].
        * rewrite (spell_u_spell _ Hcf) in H. cbn [kind_of_ctx] in H. injection H as <-. exact H2.
        * destruct (is_nameable n) eqn:En; [exact (H4 nm Hin) | exact (H3 eq_refl nm Hin)].
      + intros s. cbn [spine_with]. destruct (Hsl s) as [H1 H2]. split; [exact H1|].
        intros nm Hin. cbn [inner] in Hin. destruct (is_nameable n); [exact (H2 nm Hin) | destruct Hin].
    - (* Constant *)
      split; [|apply Htriv; reflexivity]. intros s. rewrite visit_const. split; [reflexivity|intros nm []].
    - (* Tuple / List / Set *)
      split; [|apply Htriv; reflexivity].
      intros s. rewrite visit_seq. simpl in Hkids. destruct (VL_good es Hkids s) as [H1 H2]. split; [exact H1|].
      intros nm Hin. cbn [occs] in Hin. rewrite olist_flat_map in Hin. apply in_flat_map in Hin.
      destruct Hin as (x & Hx & Hin). apply (H2 x nm Hx Hin).
    - (* Dict *)
      split; [|apply Htriv; reflexivity].
      intros s. rewrite visit_dict. simpl in Hkids. apply Forall_app in Hkids. destruct Hkids as [Hks Hvs].
      destruct (VL_good ks Hks s) as [H1 H2]. rewrite (bind_ok _ _ s tt H1).
      destruct (VL_good vs Hvs (snd (VL ks s))) as [H3 H4]. split; [exact H3|].
      intros nm Hin. cbn [occs] in Hin. rewrite !olist_flat_map in Hin. apply in_app_or in Hin. destruct Hin as [Hin|Hin].
      + apply in_flat_map in Hin. destruct Hin as (x & Hx & Hin).
        eapply reported_ext; [|apply (H2 x nm Hx Hin)].
        apply mono_mapM_. intros z. apply (all_here _ _ (visit_retval_mono mexists modulename z)).
      + apply in_flat_map in Hin. destruct Hin as (x & Hx & Hin). apply (H4 x nm Hx Hin).
    - (* any other expression class *)
      destruct binds; try contradiction. split; [|apply Htriv; reflexivity].
      intros s. rewrite visit_other. simpl in Hkids. destruct (VL_good _ Hkids s) as [H1 H2]. split; [exact H1|].
      intros nm Hin. cbn [occs] in Hin. rewrite olist_flat_map in Hin. apply in_flat_map in Hin.
      destruct Hin as (x & Hx & Hin). apply (H2 x nm Hx Hin).
  Qed.

  Theorem call_free_loads_are_complete : forall n, CF n -> good n.
  Proof. intros n H. exact (proj1 (call_free_loads_are_complete_and_slices n H)). Qed.

  (* everything the specification lists for such an expression - and for the slices under its spine - is a get *)
  Lemma cf_occs_and_inner_are_gets : forall n, CF n ->
    (forall o, In o (occs false n) -> fst o = AGet) /\ (forall o, In o (inner false n) -> fst o = AGet).
  Proof.
    induction n using node_children_ind. rename H into IH. intros Hcf.
    pose proof (all_here _ _ Hcf) as Hl. pose proof (cf_plain n Hcf) as Hp.
    assert (Hkids : forall x, In x (children n) -> (forall o, In o (occs false x) -> fst o = AGet) /\ (forall o, In o (inner false x) -> fst o = AGet)).
    { rewrite Forall_forall in IH. intros x Hx. apply IH; [exact Hx|apply (cf_child _ _ Hcf Hx)]. }
    destruct n; simpl in Hl; try contradiction; try (split; [|intros o []]).
    - destruct c; try contradiction. intros o [<-|[]]. reflexivity.
    - destruct c; try contradiction. destruct (Hkids n (or_introl eq_refl)) as [Ho Hi]. split.
      + intros o Hin. cbn [occs] in Hin. rewrite (kf_c10_plain _ Hp) in Hin.
        apply in_app_or in Hin. destruct Hin as [[<-|[]]|Hin]; [reflexivity|].
        destruct (is_nameable n); [exact (Hi o Hin) | exact (Ho o Hin)].
      + intros o Hin. cbn [inner] in Hin. destruct (is_nameable n); [exact (Hi o Hin) | destruct Hin].
    - destruct c; try contradiction. destruct (Hkids n1 (or_introl eq_refl)) as [Ho Hi].
      destruct (Hkids n2 (or_intror (or_introl eq_refl))) as [Hos _]. split.
      + intros o Hin. cbn [occs] in Hin. rewrite (kf_c10_plain _ Hp) in Hin.
        apply in_app_or in Hin. destruct Hin as [[<-|[]]|Hin]; [reflexivity|].
        apply in_app_or in Hin. destruct Hin as [Hin|Hin]; [|exact (Hos o Hin)].
        destruct (is_nameable n1); [exact (Hi o Hin) | exact (Ho o Hin)].
      + intros o Hin. cbn [inner] in Hin. apply in_app_or in Hin. destruct Hin as [Hin|Hin]; [|exact (Hos o Hin)].
        destruct (is_nameable n1); [exact (Hi o Hin) | destruct Hin].
    - destruct c; try contradiction. destruct (Hkids n (or_introl eq_refl)) as [Ho Hi]. split.
      + intros o Hin. cbn [occs] in Hin. rewrite (kf_c10_plain _ Hp) in Hin.
        apply in_app_or in Hin. destruct Hin as [[<-|[]]|Hin]; [reflexivity|].
        destruct (is_nameable n); [exact (Hi o Hin) | exact (Ho o Hin)].
      + intros o Hin. cbn [inner] in Hin. destruct (is_nameable n); [exact (Hi o Hin) | destruct Hin].
    - intros o [].
    - intros o Hin. cbn [occs] in Hin. rewrite olist_flat_map in Hin. apply in_flat_map in Hin. destruct Hin as (x & Hx & Hin).
      exact (proj1 (Hkids x Hx) o Hin).
    - intros o Hin. cbn [occs] in Hin. rewrite !olist_flat_map in Hin. apply in_app_or in Hin.
      destruct Hin as [Hin|Hin]; apply in_flat_map in Hin; destruct Hin as (x & Hx & Hin);
        apply (proj1 (Hkids x ltac:(simpl; apply in_or_app; (left; exact Hx) || (right; exact Hx)))); exact Hin.
    - destruct binds; try contradiction. intros o Hin. cbn [occs] in Hin. rewrite olist_flat_map in Hin. apply in_flat_map in Hin.
      destruct Hin as (x & Hx & Hin). exact (proj1 (Hkids x Hx) o Hin).
  Qed.
  Lemma cf_occs_are_gets : forall n, CF n -> forall o, In o (occs false n) -> fst o = AGet.
  Proof. intros n H. exact (proj1 (cf_occs_and_inner_are_gets n H)). Qed.
End Complete.
