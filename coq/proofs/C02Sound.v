(* C02, the positive half on the same fragment as proofs/C01Complete.v: visiting a call-free load expression
   reports NOTHING but the accesses the specification lists for it - gets only, never a set, del or call. *)
From RattrV Require Import Base BaseFacts Str PyAst Naming Spell Context FuncAn PyAstInd FaFacts FaMono Occurs C10Proofs C01Complete.
Open Scope string_scope.
Open Scope list_scope.

Lemma rmem_radd_inv y x l : rmem y (radd x l) = true -> rname_eqb y x = true \/ rmem y l = true.
Proof.
  unfold radd. destruct (rmem x l); [right; assumption|].
  induction l as [|z l IH]; simpl.
  - rewrite Bool.orb_false_r. intros H. left. exact H.
  - destruct (rname_eqb y z); simpl; [right; reflexivity|]. intros H. destruct (IH H) as [H1|H1]; [left; exact H1|right; exact H1].
Qed.

Lemma rname_eqb_fst y x : rname_eqb y x = true -> fst y = fst x.
Proof. unfold rname_eqb. intros H. apply andb_prop in H. destruct H as [H _]. apply String.eqb_eq. exact H. Qed.

Section Sound.
  Variable mexists : string -> bool.
  Variable modulename : option string.
  Notation V := (visit mexists modulename).
  Notation VL := (mapM_ V).

  (* s' differs from s by gets drawn from the list L, and by warnings *)
  Definition adds_only (L : list occ) (s s' : vstate) : Prop :=
    (forall x, rmem x (v_gets s') = true -> rmem x (v_gets s) = true \/ In (AGet, fst x) L)
    /\ v_sets s' = v_sets s /\ v_dels s' = v_dels s /\ v_calls s' = v_calls s.

  Lemma adds_only_refl L s : adds_only L s s.
  Proof. repeat split; auto. Qed.

  Lemma adds_only_trans L1 L2 a b c : adds_only L1 a b -> adds_only L2 b c -> adds_only (L1 ++ L2) a c.
  Proof.
    intros (g1 & s1 & d1 & c1) (g2 & s2 & d2 & c2). repeat split; try congruence.
    intros x Hx. destruct (g2 x Hx) as [H|H]; [|right; apply in_or_app; right; exact H].
    destruct (g1 x H) as [H'|H']; [left; exact H'|right; apply in_or_app; left; exact H'].
  Qed.

  Lemma adds_only_weaken L L' s s' : (forall o, In o L -> In o L') -> adds_only L s s' -> adds_only L' s s'.
  Proof. intros Hi (g & r). split; [|exact r]. intros x Hx. destruct (g x Hx); [left; assumption|right; apply Hi; assumption]. Qed.

  Definition sound (n : node) : Prop := forall s, adds_only (occs false n) s (snd (V n s)).

  Lemma gv_frame n c s :
    plain n = true ->
    let s' := snd (get_and_verify_name n c s) in
    v_gets s' = v_gets s /\ v_sets s' = v_sets s /\ v_dels s' = v_dels s /\ v_calls s' = v_calls s.
  Proof.
    intros Hp. unfold get_and_verify_name. rewrite (names_of_spells n true Hp). cbn [lift_names].
    unfold bind, ret, get_ctx. cbn [fst snd].
    match goal with |- context [if ?b then add_warn _ _ else _] => destruct b end; simpl; repeat split; reflexivity.
  Qed.

  Lemma VL_sound l : Forall sound l -> forall s, adds_only (flat_map (occs false) l) s (snd (VL l s)).
  Proof.
    induction 1 as [|x l Hx _ IH]; intros s; simpl; [apply adds_only_refl|].
    unfold bind. destruct (V x s) as [o s1] eqn:E.
    pose proof (Hx s) as H1. rewrite E in H1. simpl in H1.
    destruct o; simpl; try (eapply adds_only_weaken; [|exact H1]; intros; apply in_or_app; left; assumption).
    eapply adds_only_trans; [exact H1|apply IH].
  Qed.

  Lemma adds_only_bind {A B} (m : M A) (k : A -> M B) L1 L2 :
    (forall s, adds_only L1 s (snd (m s))) -> (forall a s, adds_only L2 s (snd (k a s))) ->
    forall s, adds_only (L1 ++ L2) s (snd (bind m k s)).
  Proof.
    intros Hm Hk s. unfold bind. pose proof (Hm s) as H1. destruct (m s) as [o s1]. simpl in H1.
    destruct o; simpl; try (eapply adds_only_weaken; [|exact H1]; intros; apply in_or_app; left; assumption).
    eapply adds_only_trans; [exact H1 | apply Hk].
  Qed.

  Lemma add_get_adds x s : adds_only [(AGet, fst x)] s (snd (add_get x s)).
  Proof.
    unfold add_get. simpl. repeat split; simpl; try reflexivity.
    intros y Hy. apply rmem_radd_inv in Hy. destruct Hy as [Hy|Hy]; [|left; exact Hy].
    right. left. apply rname_eqb_fst in Hy. rewrite Hy. reflexivity.
  Qed.

  (* the visit of the slices passed over by a name adds nothing but their occurrences *)
  Definition slices_sound (m : node) : Prop := forall s, adds_only (inner false m) s (snd (spine_with V m s)).

  Lemma compound_sound n v m2 L2 :
    plain n = true -> (is_nameable v = false -> sound v) -> (forall s, adds_only L2 s (snd (m2 s))) ->
    forall s, adds_only ((AGet, spell n) :: (if is_nameable v then [] else occs false v) ++ L2) s (snd (compound_body n v Load (V v) m2 s)).
  Proof.
    intros Hp Hv H2 s. unfold compound_body.
    destruct (get_and_verify_cf n Load s Hp) as [Hok _]. rewrite (bind_ok _ _ s _ Hok).
    destruct (gv_frame n Load s Hp) as (Fg & Fs & Fd & Fc).
    set (s1 := snd (get_and_verify_name n Load s)) in *. cbn [fst snd].
    assert (Hrest : adds_only (((if is_nameable v then [] else occs false v) ++ L2) ++ [(AGet, spell n)]) s1
                      (snd (((if is_nameable v then ret tt else V v) ;;; m2 ;;; update_results (spell n, spell_base n) Load) s1))).
    { rewrite <- app_assoc. apply adds_only_bind.
      - intros s0. destruct (is_nameable v) eqn:En; [apply adds_only_refl | exact (Hv eq_refl s0)].
      - intros _. apply adds_only_bind; [exact H2|]. intros _ s0. exact (add_get_adds (spell n, spell_base n) s0). }
    destruct Hrest as (g & r1 & r2 & r3). repeat split; try congruence.
    intros x Hx. destruct (g x Hx) as [H|H]; [left; rewrite <- Fg; exact H|]. right.
    apply in_app_or in H as [H|[H|[]]]; [right; exact H | left; exact H].
  Qed.

  Theorem call_free_loads_report_nothing_else_and_slices : forall n, CF n -> sound n /\ slices_sound n.
  Proof.
    induction n using node_children_ind. rename H into IH. intros Hcf.
    pose proof (all_here _ _ Hcf) as Hl. pose proof (cf_plain n Hcf) as Hp.
    assert (Hkids2 : Forall (fun x => sound x /\ slices_sound x) (children n)).
    { rewrite Forall_forall in IH |- *. intros x Hx. apply IH; [exact Hx|apply (cf_child _ _ Hcf Hx)]. }
    assert (Hkids : Forall sound (children n)).
    { rewrite Forall_forall in Hkids2 |- *. intros x Hx. exact (proj1 (Hkids2 x Hx)). }
    assert (Htriv : forall m, spine_with V m = ret tt -> slices_sound m).
    { intros m E1 s. rewrite E1. apply adds_only_refl. }
    destruct n; simpl in Hl; try contradiction.
    - destruct c; try contradiction. split; [|apply Htriv; reflexivity]. intros s. rewrite visit_name.
      destruct (get_and_verify_cf (EName id Load p) Load s Hp) as [Hok _]. rewrite (bind_ok _ _ s _ Hok).
      destruct (gv_frame (EName id Load p) Load s Hp) as (Fg & Fs & Fd & Fc). simpl.
      repeat split; simpl; try congruence.
      intros x Hx. apply rmem_radd_inv in Hx. destruct Hx as [Hx|Hx].
      + right. left. apply rname_eqb_fst in Hx. simpl in Hx. rewrite Hx. reflexivity.
      + left. rewrite <- Fg. exact Hx.
    - destruct c; try contradiction.
      simpl in Hkids2. pose proof (Forall_inv Hkids2) as [Hv Hsv].
      assert (Hsl : forall s, adds_only (if is_nameable n then inner false n else []) s (snd (spine_with V n s))).
      { intros s. destruct (is_nameable n) eqn:En; [exact (Hsv s)|].
        eapply adds_only_weaken; [|exact (Hsv s)]. intros o Ho. rewrite (inner_cf_other n (cf_child _ _ Hcf (or_introl eq_refl)) En) in Ho. exact Ho. }
      split.
      + intros s. rewrite visit_attr.
        eapply adds_only_weaken; [|apply (compound_sound (EAttr n a Load p) n _ _ Hp (fun _ => Hv) Hsl s)].
        intros o Ho. cbn [occs]. rewrite (kf_c10_plain _ Hp), (spell_u_spell _ Hcf).
        destruct Ho as [<-|Ho]; [left; reflexivity|]. right.
        destruct (is_nameable n); [exact Ho | rewrite app_nil_r in Ho; exact Ho].
      + intros s. cbn [spine_with inner]. exact (Hsl s).
    - destruct c; try contradiction.
      simpl in Hkids2. pose proof (Forall_inv Hkids2) as [Hv Hsv]. pose proof (Forall_inv (Forall_inv_tail Hkids2)) as [Hgsl _].
      assert (Hsv' : forall s, adds_only (if is_nameable n1 then inner false n1 else []) s (snd (spine_with V n1 s))).
      { intros s. destruct (is_nameable n1) eqn:En; [exact (Hsv s)|].
        eapply adds_only_weaken; [|exact (Hsv s)]. intros o Ho. rewrite (inner_cf_other n1 (cf_child _ _ Hcf (or_introl eq_refl)) En) in Ho. exact Ho. }
      assert (Hsl : forall s, adds_only (occs false n2 ++ (if is_nameable n1 then inner false n1 else [])) s (snd ((V n2 ;;; spine_with V n1) s))).
      { apply adds_only_bind; [exact Hgsl | intros _; exact Hsv']. }
      split.
      + intros s. rewrite visit_sub.
        eapply adds_only_weaken; [|apply (compound_sound (ESub n1 n2 Load p) n1 _ _ Hp (fun _ => Hv) Hsl s)].
        intros o Ho. cbn [occs]. rewrite (kf_c10_plain _ Hp), (spell_u_spell _ Hcf).
        destruct Ho as [<-|Ho]; [left; reflexivity|]. right. cbn [app].
        apply in_app_or in Ho as [Ho|Ho].
        * apply in_or_app. left. destruct (is_nameable n1); [destruct Ho | exact Ho].
        * apply in_app_or in Ho as [Ho|Ho]; apply in_or_app; [right; exact Ho | left].
          destruct (is_nameable n1); [exact Ho | destruct Ho].
      + intros s. cbn [spine_with inner]. eapply adds_only_weaken; [|exact (Hsl s)].
        intros o Ho. apply in_app_or in Ho as [Ho|Ho]; apply in_or_app; [right; exact Ho | left; exact Ho].
    - destruct c; try contradiction.
      simpl in Hkids2. pose proof (Forall_inv Hkids2) as [Hv Hsv].
      assert (Hsl : forall s, adds_only (if is_nameable n then inner false n else []) s (snd (spine_with V n s))).
      { intros s. destruct (is_nameable n) eqn:En; [exact (Hsv s)|].
        eapply adds_only_weaken; [|exact (Hsv s)]. intros o Ho. rewrite (inner_cf_other n (cf_child _ _ Hcf (or_introl eq_refl)) En) in Ho. exact Ho. }
      split.
      + intros s. rewrite visit_star.
        eapply adds_only_weaken; [|apply (compound_sound (EStar n Load p) n _ _ Hp (fun _ => Hv) Hsl s)].
        intros o Ho. cbn [occs]. rewrite (kf_c10_plain _ Hp), (spell_u_spell _ Hcf).
        destruct Ho as [<-|Ho]; [left; reflexivity|]. right.
        destruct (is_nameable n); [exact Ho | rewrite app_nil_r in Ho; exact Ho].
      + intros s. cbn [spine_with inner]. exact (Hsl s).
    - split; [|apply Htriv; reflexivity]. intros s. rewrite visit_const. apply adds_only_refl.
    - split; [|apply Htriv; reflexivity]. intros s. rewrite visit_seq. simpl in Hkids. cbn [occs]. rewrite olist_flat_map. apply VL_sound. exact Hkids.
    - split; [|apply Htriv; reflexivity]. intros s. rewrite visit_dict. simpl in Hkids. apply Forall_app in Hkids. destruct Hkids as [Hks Hvs].
      cbn [occs]. rewrite !olist_flat_map. unfold bind.
      pose proof (VL_sound ks Hks s) as H1. destruct (VL ks s) as [o s1]. simpl in H1.
      destruct o; simpl; try (eapply adds_only_weaken; [|exact H1]; intros; apply in_or_app; left; assumption).
      eapply adds_only_trans; [exact H1|apply VL_sound; exact Hvs].
    - destruct binds; try contradiction. split; [|apply Htriv; reflexivity]. intros s. rewrite visit_other. simpl in Hkids.
      cbn [occs]. rewrite olist_flat_map. apply VL_sound. exact Hkids.
  Qed.

  Theorem call_free_loads_report_nothing_else : forall n, CF n -> sound n.
  Proof. intros n H. exact (proj1 (call_free_loads_report_nothing_else_and_slices n H)). Qed.
End Sound.
