(* C01 for a binding statement: `t = v` with a single variable on the left and, on the right, any expression of the
   fragment of C01Calls.v that is not itself a call, a tuple / list display or a lambda.  The statement ends normally,
   t is reported under sets and is bound afterwards (the link to C17), and every load and call of v is reported. *)
From RattrV Require Import Base BaseFacts Str PyAst Naming Spell Context FuncAn PyAstInd FaFacts FaMono Occurs C10Proofs C17Proofs C01Complete C01Calls.
Open Scope string_scope.
Open Scope list_scope.

Lemma cfc_not_lambda v : CFC v -> FuncAn.is_lambda v = false.
Proof. intros H. pose proof (all_here _ _ H) as Hl. destruct v; simpl in Hl; try contradiction; reflexivity. Qed.

Section Assign.
  Variable mexists : string -> bool.
  Variable modulename : option string.
  Notation V := (visit mexists modulename).
  Notation VL := (mapM_ V).

  Lemma rmem_self x l : rmem x (radd x l) = true.
  Proof. apply rmem_radd_self. Qed.

  Lemma identifier_has_no_star t : isidentifier t = true -> lstrip_star t = t.
  Proof.
    destruct t as [|ch r]; [reflexivity|]. cbn [isidentifier lstrip_star]. intros H.
    apply Bool.andb_true_iff in H. destruct H as [H _].
    destruct (Ascii.eqb ch "*"%char) eqn:E; [|reflexivity].
    apply Ascii.eqb_eq in E. subst ch. discriminate H.
  Qed.

  Theorem simple_assignment_is_complete c t pt v p :
    CFC v -> FuncAn.is_call v = false -> FuncAn.is_seq_tl v = false -> mem t ATTR_BUILTINS = false ->
    isidentifier t = true ->
    NoCustom mexists modulename (ctx_add c (mkSym t KName) false) v ->
    forall s, v_ctx s = c ->
      let r := V (SAssign [EName t Store pt] v p) s in
      fst r = Ok tt
      /\ v_ctx (snd r) = ctx_add c (mkSym t KName) false
      /\ ctx_in (v_ctx (snd r)) t = true
      /\ rmem (t, t) (v_sets (snd r)) = true
      /\ (forall nm, In (AGet, nm) (occs false v) -> reported nm (snd r))
      /\ (forall nm, In (ACall, nm) (occs false v) -> call_reported nm (snd r)).
  Proof.
    intros Hcf Hcall Hseq Hb Hid Hnc s Hc r. subst r.
    (* the classifiers of the right-hand side all answer no *)
    assert (Hlam : lambda_in_rhs (Some v) = false).
    { unfold lambda_in_rhs. rewrite (cfc_not_lambda v Hcf), Hseq. reflexivity. }
    assert (Hnt : namedtuple_in_rhs (Some v) = ret false).
    { unfold namedtuple_in_rhs. rewrite Hcall, Hseq. reflexivity. }
    assert (Hcl : class_in_rhs mexists (Some v) = ret false).
    { unfold class_in_rhs. rewrite Hcall, Hseq. reflexivity. }
    (* bind the target *)
    set (s1 := mkV (v_gets s) (v_sets s) (v_dels s) (v_calls s) (ctx_add (v_ctx s) (mkSym t KName) false) (v_warn s)).
    assert (Hadd : mapM_ add_identifiers [EName t Store pt] s = (Ok tt, s1)).
    { assert (Hun : unravel_gen true (EName t Store pt) s = (Ok [t], s)) by reflexivity.
      cbn [mapM_]. unfold add_identifiers. cbv beta iota delta [FuncAn.bind]. rewrite Hun. cbv beta iota.
      cbn [map filter]. rewrite (identifier_has_no_star t Hid), Hid. reflexivity. }
    (* visit the target: a store never warns *)
    assert (Hp : plain (EName t Store pt) = true) by (unfold plain; cbn [spell_base]; rewrite Hb; reflexivity).
    assert (Hgv : get_and_verify_name (EName t Store pt) Store s1 = (Ok (t, t), s1)).
    { rewrite (warning_decision _ Store s1 _ _ (names_of_spells _ true Hp)). cbn [ctx_eqb negb andb spell_base spell].
      rewrite Bool.andb_false_r. reflexivity. }
    set (s2 := mkV (v_gets s1) (radd (t, t) (v_sets s1)) (v_dels s1) (v_calls s1) (v_ctx s1) (v_warn s1)).
    assert (Hvt : VL [EName t Store pt] s1 = (Ok tt, s2)).
    { cbn [mapM_]. rewrite visit_name. unfold FuncAn.bind. rewrite Hgv. cbn [fst snd update_results]. reflexivity. }
    (* the statement is the visit of the right-hand side in that state *)
    assert (Heq : V (SAssign [EName t Store pt] v p) s = V v s2).
    { rewrite visit_assign. unfold assign_body. rewrite Hlam, Hnt, Hcl.
      cbv beta iota delta [FuncAn.bind ret]. rewrite Hadd. cbv beta iota. rewrite Hvt. cbv beta iota. reflexivity. }
    rewrite Heq.
    assert (Hc2 : v_ctx s2 = ctx_add c (mkSym t KName) false) by (cbn [s2 s1 v_ctx]; rewrite Hc; reflexivity).
    destruct (loads_with_calls_are_complete mexists modulename _ v Hcf Hnc s2 Hc2) as (Hok & Hctx & Hget & Hcalls).
    repeat split.
    - exact Hok.
    - exact Hctx.
    - rewrite Hctx. apply ctx_add_visible.
    - apply (ext_sets _ _ (mono_V mexists modulename v s2)). cbn [s2 v_sets]. apply rmem_self.
    - exact Hget.
    - exact Hcalls.
  Qed.
End Assign.

(* non-vacuity: t = p.a[0] + f(q.b).c  in a scope where f is a parameter *)
Example assignment_theorem_applies :
  let v := Other "BinOp" [] [ESub (EAttr (EName "p" Load P0) "a" Load P0) (EConst None) Load P0;
                             EAttr (ECall (EName "f" Load P0) [EAttr (EName "q" Load P0) "b" Load P0] [] P0) "c" Load P0] in
  CFC v /\ FuncAn.is_call v = false /\ FuncAn.is_seq_tl v = false
  /\ NoCustom (fun _ => false) None (ctx_add [[mkSym "f" KName; mkSym "p" KName; mkSym "q" KName]] (mkSym "t" KName) false) v.
Proof. cbn. repeat split; repeat constructor. Qed.
