(* C01 / C09 on load expressions WITH calls: names, attribute / subscript / starred chains, every node class
   without dedicated visitor, containers, keyword arguments and CALLS of callees that no custom analyser claims -
   nested to any depth.  The visit ends normally, leaves the scope chain alone, reports every access `occs false`
   lists (gets AND calls).  `occs false` prunes exactly the positions of the listed finding classes (slices,
   arguments of calls inside a spine), which is where this theorem stops. *)
From RattrV Require Import Base BaseFacts Str PyAst Naming Spell Context FuncAn PyAstInd FaFacts FaMono Occurs C10Proofs C01Complete.
Open Scope string_scope.
Open Scope list_scope.

Definition cfc_local (n : node) : Prop :=
  match n with
  | EName id Load _ => mem id ATTR_BUILTINS = false
  | EAttr _ _ Load _ | ESub _ _ Load _ | EStar _ Load _ => True
  | ECall _ _ _ _ | EKw _ _ => True
  | EConst _ | ESeq _ _ _ | EDict _ _ => True
  | Other _ [] _ => True
  | _ => False
  end.
Definition CFC (n : node) : Prop := All cfc_local n.

Lemma cfc_child n x : CFC n -> In x (children n) -> CFC x.
Proof. intros H Hx. apply all_children in H. rewrite Forall_forall in H. apply H. exact Hx. Qed.

Lemma cfc_plain : forall n, CFC n -> plain n = true.
Proof.
  induction n using node_children_ind. rename H into IH. intros Hcf.
  pose proof (all_here _ _ Hcf) as Hl.
  destruct n; simpl in Hl; try contradiction; try reflexivity.
  - destruct c; try contradiction. unfold plain. simpl. rewrite Hl. reflexivity.
  - rewrite plain_attr. inversion IH as [|? ? H1 _]; subst. apply H1. apply (cfc_child _ _ Hcf). left. reflexivity.
  - rewrite plain_sub. inversion IH as [|? ? H1 _]; subst. apply H1. apply (cfc_child _ _ Hcf). left. reflexivity.
  - rewrite plain_star. inversion IH as [|? ? H1 _]; subst. apply H1. apply (cfc_child _ _ Hcf). left. reflexivity.
  - rewrite plain_call. inversion IH as [|? ? H1 _]; subst. apply H1. apply (cfc_child _ _ Hcf). left. reflexivity.
Qed.

Lemma spell_u_call_nonname f a k p :
  (forall id c q, f <> EName id c q) -> spell_u (ECall f a k p) = (spell_u f ++ "()")%string.
Proof. intros H. destruct f; try reflexivity. exfalso. eapply H. reflexivity. Qed.

Lemma spell_u_spell_c : forall n, CFC n -> spell_u n = spell n.
Proof.
  induction n using node_children_ind. rename H into IH. intros Hcf.
  pose proof (all_here _ _ Hcf) as Hl. pose proof (cfc_plain n Hcf) as Hp.
  destruct n; simpl in Hl; try contradiction; try reflexivity.
  - simpl. inversion IH as [|? ? H1 _]; subst. rewrite H1; [reflexivity|]. apply (cfc_child _ _ Hcf). left. reflexivity.
  - simpl. inversion IH as [|? ? H1 _]; subst. rewrite H1; [reflexivity|]. apply (cfc_child _ _ Hcf). left. reflexivity.
  - simpl. inversion IH as [|? ? H1 _]; subst. rewrite H1; [reflexivity|]. apply (cfc_child _ _ Hcf). left. reflexivity.
  - inversion IH as [|? ? H1 _]; subst.
    assert (Hf : spell_u n = spell n) by (apply H1; apply (cfc_child _ _ Hcf); left; reflexivity).
    rewrite plain_call in Hp. pose proof (plain_not_builtin n Hp) as Hb.
    destruct n; try (rewrite spell_u_call_nonname by (intros; discriminate); rewrite Hf; reflexivity).
    cbn [spell_base] in Hb. cbn [spell_u spell]. destruct args as [|o [|nm r]]; try reflexivity. rewrite Hb. reflexivity.
Qed.

Lemma inner_cfc_other v : CFC v -> is_nameable v = false -> inner false v = [].
Proof. intros H Hn. pose proof (all_here _ _ H) as Hl. destruct v; simpl in Hl; try contradiction; try discriminate; reflexivity. Qed.

Lemma plain_not_attr_call n : plain n = true -> is_attr_call n = false.
Proof.
  intros Hp. unfold is_attr_call. destruct (existsb (is_call_to_fn n) ATTR_BUILTINS) eqn:E; [|reflexivity].
  destruct n; try (simpl in E; discriminate E).
  apply direct_call_base in E. rewrite plain_call in Hp. rewrite (plain_not_builtin n Hp) in E. discriminate.
Qed.

Lemma callrec_eqb_refl' c : callrec_eqb c c = true.
Proof.
  unfold callrec_eqb. rewrite String.eqb_refl. simpl.
  assert (H1 : strs_eqb (c_args c) (c_args c) = true).
  { unfold strs_eqb. apply list_eqb_refl. intros x. apply String.eqb_refl. }
  assert (H2 : dict_eqb (c_kw c) (c_kw c) = true).
  { unfold dict_eqb. apply list_eqb_refl. intros [a b]. unfold pair_eqb. simpl. rewrite !String.eqb_refl. reflexivity. }
  assert (H3 : opt_sym_eqb (c_target c) (c_target c) = true).
  { destruct (c_target c) as [[n k]|]; simpl; [|reflexivity]. unfold sym_eqb. simpl. rewrite String.eqb_refl. simpl.
    destruct k; simpl; try reflexivity. apply String.eqb_refl. }
  rewrite H1, H2, H3. reflexivity.
Qed.

(* a call record with this name is among the calls *)
Definition call_reported (nm : string) (s : vstate) : Prop :=
  existsb (fun cr => String.eqb (c_name cr) nm) (v_calls s) = true.

Lemma cmem_named cr l : cmem cr l = true -> existsb (fun x => String.eqb (c_name x) (c_name cr)) l = true.
Proof.
  induction l as [|y l IH]; simpl; [discriminate|]. intros H. apply Bool.orb_true_iff in H. destruct H as [H|H].
  - unfold callrec_eqb in H. repeat (apply andb_prop in H; destruct H as [H ?]).
    apply String.eqb_eq in H. rewrite H, String.eqb_refl. reflexivity.
  - rewrite (IH H). apply Bool.orb_true_r.
Qed.

Lemma call_reported_ext nm s s' : ext s s' -> call_reported nm s -> call_reported nm s'.
Proof.
  intros He H. unfold call_reported in *. apply existsb_exists in H. destruct H as (cr & Hin & Hn).
  apply String.eqb_eq in Hn. subst nm.
  apply cmem_named. apply (ext_calls _ _ He).
  clear -Hin. induction (v_calls s) as [|y l IH]; [destruct Hin|]. simpl. destruct Hin as [->|Hin].
  - rewrite (callrec_eqb_refl' cr). reflexivity.
  - rewrite (IH Hin). apply Bool.orb_true_r.
Qed.

Section Calls.
  Variable mexists : string -> bool.
  Variable modulename : option string.
  Notation V := (visit mexists modulename).
  Notation VL := (mapM_ V).

  (* no call of the expression is claimed by a custom analyser in scope chain c (getattr family, sorted,
     collections.defaultdict): a condition on the callee names and the chain, not on the analyser *)
  Definition plain_call_site (c : ctx) (m : node) : Prop :=
    match m with
    | ECall _ _ _ _ => analyser_for modulename (get_call_target mexists c (without_call_brackets (spell m))) = ANone
    | _ => True
    end.
  Definition NoCustom (c : ctx) (n : node) : Prop := All (plain_call_site c) n.

  Lemma nocustom_child c n x : NoCustom c n -> In x (children n) -> NoCustom c x.
  Proof. intros H Hx. apply all_children in H. rewrite Forall_forall in H. apply H. exact Hx. Qed.

  Definition goodc (c : ctx) (n : node) : Prop :=
    forall s, v_ctx s = c ->
      fst (V n s) = Ok tt /\ v_ctx (snd (V n s)) = c
      /\ (forall nm, In (AGet, nm) (occs false n) -> reported nm (snd (V n s)))
      /\ (forall nm, In (ACall, nm) (occs false n) -> call_reported nm (snd (V n s))).

  Lemma mono_V x : mono (V x).
  Proof. apply (all_here _ _ (visit_retval_mono mexists modulename x)). Qed.

  Lemma gv_ctx n c0 s : plain n = true -> v_ctx (snd (get_and_verify_name n c0 s)) = v_ctx s.
  Proof.
    intros Hp. unfold get_and_verify_name. rewrite (names_of_spells n true Hp). cbn [lift_names].
    unfold bind, ret, get_ctx. cbn [fst snd].
    match goal with |- context [if ?b then add_warn _ _ else _] => destruct b end; reflexivity.
  Qed.

  Lemma VL_goodc c l :
    Forall (goodc c) l ->
    forall s, v_ctx s = c ->
      fst (VL l s) = Ok tt /\ v_ctx (snd (VL l s)) = c
      /\ (forall x nm, In x l -> In (AGet, nm) (occs false x) -> reported nm (snd (VL l s)))
      /\ (forall x nm, In x l -> In (ACall, nm) (occs false x) -> call_reported nm (snd (VL l s))).
  Proof.
    induction 1 as [|x l Hx _ IH]; intros s Hc; simpl.
    - repeat split; auto; intros ? ? [].
    - destruct (Hx s Hc) as (Hok & Hctx & Hg & Hcl). rewrite (bind_ok _ _ s tt Hok).
      destruct (IH (snd (V x s)) Hctx) as (Hok2 & Hctx2 & Hg2 & Hcl2). repeat split; auto.
      + intros y nm [<-|Hy] Hin; [|apply (Hg2 y nm Hy Hin)].
        eapply reported_ext; [|apply Hg; exact Hin]. apply mono_mapM_. intros z. apply mono_V.
      + intros y nm [<-|Hy] Hin; [|apply (Hcl2 y nm Hy Hin)].
        eapply call_reported_ext; [|apply Hcl; exact Hin]. apply mono_mapM_. intros z. apply mono_V.
  Qed.

  (* what an action does in scope chain c: ends normally, leaves the chain alone, reports the gets and calls of L *)
  Definition acts (c : ctx) (m : M unit) (L : list occ) : Prop :=
    forall s, v_ctx s = c ->
      fst (m s) = Ok tt /\ v_ctx (snd (m s)) = c
      /\ (forall nm, In (AGet, nm) L -> reported nm (snd (m s)))
      /\ (forall nm, In (ACall, nm) L -> call_reported nm (snd (m s))).

  Lemma goodc_acts c n : goodc c n <-> acts c (V n) (occs false n).
  Proof. split; intros H; exact H. Qed.

  Lemma acts_ret c : acts c (ret tt) [].
  Proof. intros s Hc. repeat split; auto; intros nm []. Qed.

  Lemma acts_weaken c m L L' : (forall o, In o L' -> In o L) -> acts c m L -> acts c m L'.
  Proof. intros Hi H s Hc. destruct (H s Hc) as (H1 & H2 & H3 & H4). repeat split; auto. Qed.

  Lemma acts_bind c m1 m2 L1 L2 : acts c m1 L1 -> mono m2 -> acts c m2 L2 -> acts c (m1 ;;; m2) (L1 ++ L2).
  Proof.
    intros A1 Hm A2 s Hc. destruct (A1 s Hc) as (H1 & H2 & H3 & H4). rewrite (bind_ok _ _ s tt H1).
    destruct (A2 (snd (m1 s)) H2) as (K1 & K2 & K3 & K4). repeat split; auto.
    - intros nm Hin. apply in_app_or in Hin as [Hin|Hin]; [|exact (K3 nm Hin)].
      eapply reported_ext; [apply Hm | exact (H3 nm Hin)].
    - intros nm Hin. apply in_app_or in Hin as [Hin|Hin]; [|exact (K4 nm Hin)].
      eapply call_reported_ext; [apply Hm | exact (H4 nm Hin)].
  Qed.

  Lemma mono_VL' l : mono (VL l).
  Proof. apply mono_mapM_. intros z. apply mono_V. Qed.

  Lemma mono_spine_V m : mono (spine_with V m).
  Proof. apply mono_spine. apply visit_retval_mono. Qed.

  Lemma VL_acts c l : Forall (goodc c) l -> acts c (VL l) (flat_map (occs false) l).
  Proof.
    intros H s Hc. destruct (VL_goodc c l H s Hc) as (H1 & H2 & H3 & H4). repeat split; auto.
    - intros nm Hin. apply in_flat_map in Hin as (x & Hx & Hin). exact (H3 x nm Hx Hin).
    - intros nm Hin. apply in_flat_map in Hin as (x & Hx & Hin). exact (H4 x nm Hx Hin).
  Qed.

  (* attribute / subscript / starred: Lv = what visiting v reports, L2 = what the visit of the slices reports *)
  Lemma compound_acts c n v m2 Lv L2 :
    plain n = true -> (is_nameable v = false -> acts c (V v) Lv) -> mono m2 -> acts c m2 L2 ->
    acts c (compound_body n v Load (V v) m2) ((AGet, spell n) :: (if is_nameable v then [] else Lv) ++ L2).
  Proof.
    intros Hp Hv Hm2 A2 s Hc. unfold compound_body.
    destruct (get_and_verify_cf n Load s Hp) as [Hok Hext]. rewrite (bind_ok _ _ s _ Hok).
    pose proof (gv_ctx n Load s Hp) as Hc1. rewrite Hc in Hc1.
    set (s1 := snd (get_and_verify_name n Load s)) in *. cbn [fst snd].
    assert (A1 : acts c (if is_nameable v then ret tt else V v) (if is_nameable v then [] else Lv)).
    { destruct (is_nameable v); [apply acts_ret | exact (Hv eq_refl)]. }
    destruct (acts_bind c _ _ _ _ A1 Hm2 A2 s1 Hc1) as (H1 & H2 & H3 & H4).
    match goal with |- context [bind ?a (fun _ => bind ?b ?k)] => change (bind a (fun _ => bind b k)) with (bind (bind a (fun _ => b)) k) end || idtac.
    unfold bind in *. destruct ((if is_nameable v then ret tt else V v) s1) as [o1 t1] eqn:E1.
    destruct o1; cbn [fst snd] in *; try discriminate H1.
    destruct (m2 t1) as [o2 t2] eqn:E2. cbn [fst snd] in *. destruct o2; try discriminate H1.
    cbn [update_results add_get fst snd v_ctx v_gets v_calls].
    repeat split; auto.
    - intros nm [Hin|Hin].
      + injection Hin as <-. exists (spell_base n). apply rmem_radd_self.
      + destruct (H3 nm Hin) as (b & Hb). exists b. apply rmem_radd. exact Hb.
    - intros nm [Hin|Hin]; [discriminate Hin|]. exact (H4 nm Hin).
  Qed.

  Lemma arg_names_ok args s :
    Forall (fun a => plain a = true) args -> exists l, arg_names args s = (Ok l, s).
  Proof.
    induction 1 as [|a r Ha _ IH]; simpl; [eexists; reflexivity|].
    rewrite (old_names_spells a Ha). cbn [lift_names]. unfold bind, ret. cbn [fst snd].
    destruct IH as (l & ->). eexists. reflexivity.
  Qed.

  Lemma kwarg_names_ok kws : forall d s,
    Forall (fun k => match k with EKw _ v => plain v = true | _ => True end) kws -> exists d', kwarg_names kws d s = (Ok d', s).
  Proof.
    induction kws as [|k r IH]; intros d s H; simpl; [eexists; reflexivity|].
    inversion H as [|? ? Hk Hr]; subst.
    destruct k; try (apply IH; exact Hr). destruct arg as [kname|]; [|apply IH; exact Hr].
    rewrite (old_names_spells k Hk). cbn [lift_names]. unfold bind, ret. cbn [fst snd]. apply IH. exact Hr.
  Qed.

  Lemma mapM_add_get_ok l : forall s,
    fst (mapM_ add_get l s) = Ok tt /\ v_ctx (snd (mapM_ add_get l s)) = v_ctx s /\ ext s (snd (mapM_ add_get l s)).
  Proof.
    induction l as [|x l IH]; intros s; simpl; [split; [reflexivity|split; [reflexivity|apply ext_refl]]|].
    unfold bind. cbn [add_get fst snd]. destruct (IH (mkV (radd x (v_gets s)) (v_sets s) (v_dels s) (v_calls s) (v_ctx s) (v_warn s))) as (H1 & H2 & H3).
    split; [exact H1|]. split; [exact H2|]. eapply ext_trans; [|exact H3]. apply (mono_add_get x s).
  Qed.

  Lemma call_target_eq name s : call_target mexists name s = (Ok (get_call_target mexists (v_ctx s) name), s).
  Proof. reflexivity. Qed.

  (* a call that no custom analyser claims: the record is added, then the arguments are visited *)
  Lemma call_body_plain f args kws p (m : M unit) s :
    let n := ECall f args kws p in
    plain n = true ->
    analyser_for modulename (get_call_target mexists (v_ctx s) (without_call_brackets (spell n))) = ANone ->
    Forall (fun a => plain a = true) args ->
    Forall (fun k => match k with EKw _ v => plain v = true | _ => True end) kws ->
    exists s3, call_body mexists modulename n args kws m s = m s3
               /\ v_ctx s3 = v_ctx s /\ ext s s3 /\ call_reported (without_call_brackets (spell n)) s3.
  Proof.
    intros n Hp Hsite Hargs Hkws. unfold call_body.
    rewrite (names_of_spells n false Hp). cbn [lift_names].
    unfold bind at 1. cbn [ret fst snd]. unfold bind at 1. rewrite call_target_eq.
    rewrite Hsite.
    destruct (get_and_verify_cf n Load s Hp) as [Hok Hext]. rewrite (bind_ok _ _ s _ Hok).
    pose proof (gv_ctx n Load s Hp) as Hc1.
    set (s1 := snd (get_and_verify_name n Load s)) in *.
    cbn [fst snd]. unfold bind at 1. rewrite call_target_eq.
    set (target := get_call_target mexists (v_ctx s1) (spell n)).
    set (self_name := match target with Some (mkSym nm KClass) => Some (LITERAL_PREFIX ++ nm)%string | _ => None end).
    destruct (mapM_add_get_ok (receiver_prefixes (spell n)) s1) as (Hok2 & Hctx2 & Hext2).
    rewrite (bind_ok _ _ s1 tt Hok2).
    set (s2 := snd (mapM_ add_get (receiver_prefixes (spell n)) s1)) in *.
    unfold make_call.
    destruct (arg_names_ok args s2 Hargs) as (la & Ea). unfold bind at 1. unfold bind at 1. rewrite Ea.
    destruct (kwarg_names_ok kws [] s2 Hkws) as (dk & Ek). unfold bind at 1. rewrite Ek. cbn [ret].
    set (cr := mkCallRec (without_call_brackets (spell n)) (opt_list self_name ++ la) dk target).
    unfold bind at 1. cbn [add_call fst snd].
    eexists. split; [reflexivity|]. split; [simpl; congruence|]. split.
    - eapply ext_trans; [exact Hext|]. eapply ext_trans; [exact Hext2|]. apply (mono_add_call cr s2).
    - unfold call_reported. simpl. destruct (cmem cr (v_calls s2)) eqn:Em; [apply (cmem_named cr); exact Em|].
      rewrite existsb_app. simpl. rewrite String.eqb_refl. rewrite Bool.orb_true_r. reflexivity.
  Qed.

  Definition slices_goodc (c : ctx) (m : node) : Prop := acts c (spine_with V m) (inner false m).

  Theorem loads_with_calls_are_complete_and_slices c : forall n, CFC n -> NoCustom c n -> goodc c n /\ slices_goodc c n.
  Proof.
    induction n using node_children_ind. rename H into IH. intros Hcf Hnc.
    pose proof (all_here _ _ Hcf) as Hl. pose proof (cfc_plain n Hcf) as Hp.
    assert (Hkids2 : Forall (fun x => goodc c x /\ slices_goodc c x) (children n)).
    { rewrite Forall_forall in IH |- *. intros x Hx. apply IH; [exact Hx|apply (cfc_child _ _ Hcf Hx)|apply (nocustom_child _ _ _ Hnc Hx)]. }
    assert (Hkids : Forall (goodc c) (children n)).
    { rewrite Forall_forall in Hkids2 |- *. intros x Hx. exact (proj1 (Hkids2 x Hx)). }
    assert (Htriv : forall m, spine_with V m = ret tt -> inner false m = [] -> slices_goodc c m).
    { intros m E1 E2. unfold slices_goodc. rewrite E1, E2. apply acts_ret. }
    (* the slices under a child v, as the parent's specification lists them *)
    assert (Hunder : forall v, In v (children n) -> acts c (spine_with V v) (if is_nameable v then inner false v else [])).
    { intros v Hv. rewrite Forall_forall in Hkids2. destruct (Hkids2 v Hv) as [_ Hs].
      destruct (is_nameable v) eqn:En; [exact Hs|].
      eapply acts_weaken; [|exact Hs]. intros o []. }
    destruct n; simpl in Hl; try contradiction.
    - (* Name *)
      destruct c0; try contradiction. split; [|apply Htriv; reflexivity]. intros s Hc. rewrite visit_name.
      destruct (get_and_verify_cf (EName id Load p) Load s Hp) as [Hok Hext]. rewrite (bind_ok _ _ s _ Hok). simpl.
      pose proof (gv_ctx (EName id Load p) Load s Hp) as Hc1. repeat split; auto; [congruence| |].
      + intros nm [H|[]]. cbn [kind_of_ctx] in H. injection H as <-. exists id. apply rmem_radd_self.
      + intros nm [H|[]]. discriminate H.
    - (* Attribute *)
      destruct c0; try contradiction.
      simpl in Hkids. pose proof (Forall_inv Hkids) as Hv. pose proof (Hunder n (or_introl eq_refl)) as Hs.
      split.
      + apply goodc_acts. rewrite visit_attr.
        eapply acts_weaken; [|apply (compound_acts c (EAttr n a Load p) n _ _ _ Hp (fun _ => Hv) (mono_spine_V n) Hs)].
        intros o Ho. cbn [occs] in Ho. rewrite (kf_c10_plain _ Hp), (spell_u_spell_c _ Hcf) in Ho.
        destruct Ho as [<-|Ho]; [left; reflexivity|]. right.
        destruct (is_nameable n); [exact Ho | apply in_or_app; left; exact Ho].
      + unfold slices_goodc. cbn [spine_with inner]. eapply acts_weaken; [|exact Hs].
        intros o Ho. destruct (is_nameable n); [exact Ho | destruct Ho].
    - (* Subscript *)
      destruct c0; try contradiction.
      simpl in Hkids. pose proof (Forall_inv Hkids) as Hv. pose proof (Forall_inv (Forall_inv_tail Hkids)) as Hgsl.
      pose proof (Hunder n1 (or_introl eq_refl)) as Hs.
      assert (Hsl : acts c (V n2 ;;; spine_with V n1) (occs false n2 ++ (if is_nameable n1 then inner false n1 else []))).
      { apply acts_bind; [exact Hgsl | apply mono_spine_V | exact Hs]. }
      assert (Hm2 : mono (V n2 ;;; spine_with V n1)).
      { apply mono_bind; [apply mono_V | intros; apply mono_spine_V]. }
      split.
      + apply goodc_acts. rewrite visit_sub.
        eapply acts_weaken; [|apply (compound_acts c (ESub n1 n2 Load p) n1 _ _ _ Hp (fun _ => Hv) Hm2 Hsl)].
        intros o Ho. cbn [occs] in Ho. rewrite (kf_c10_plain _ Hp), (spell_u_spell_c _ Hcf) in Ho.
        destruct Ho as [<-|Ho]; [left; reflexivity|]. right. cbn [app] in Ho.
        apply in_app_or in Ho as [Ho|Ho].
        * destruct (is_nameable n1); [apply in_or_app; right; apply in_or_app; right; exact Ho | apply in_or_app; left; exact Ho].
        * apply in_or_app. right. apply in_or_app. left. exact Ho.
      + unfold slices_goodc. cbn [spine_with inner]. eapply acts_weaken; [|exact Hsl].
        intros o Ho. apply in_app_or in Ho as [Ho|Ho]; apply in_or_app; [right | left; exact Ho].
        destruct (is_nameable n1); [exact Ho | destruct Ho].
    - (* Starred *)
      destruct c0; try contradiction.
      simpl in Hkids. pose proof (Forall_inv Hkids) as Hv. pose proof (Hunder n (or_introl eq_refl)) as Hs.
      split.
      + apply goodc_acts. rewrite visit_star.
        eapply acts_weaken; [|apply (compound_acts c (EStar n Load p) n _ _ _ Hp (fun _ => Hv) (mono_spine_V n) Hs)].
        intros o Ho. cbn [occs] in Ho. rewrite (kf_c10_plain _ Hp), (spell_u_spell_c _ Hcf) in Ho.
        destruct Ho as [<-|Ho]; [left; reflexivity|]. right.
        destruct (is_nameable n); [exact Ho | apply in_or_app; left; exact Ho].
      + unfold slices_goodc. cbn [spine_with inner]. eapply acts_weaken; [|exact Hs].
        intros o Ho. destruct (is_nameable n); [exact Ho | destruct Ho].
    - (* Call *)
      pose proof (Hunder n (or_introl eq_refl)) as Hs.
      split.
      + intros s Hc. rewrite visit_call.
        assert (Hargs : Forall (fun a => plain a = true) args).
        { apply Forall_forall. intros a Ha. apply cfc_plain. apply (cfc_child _ _ Hcf). simpl. right. apply in_or_app. left. exact Ha. }
        assert (Hkws : Forall (fun k => match k with EKw _ v => plain v = true | _ => True end) kws).
        { apply Forall_forall. intros k Hk. destruct k; auto. apply cfc_plain.
          apply (cfc_child (EKw arg k)); [apply (cfc_child _ _ Hcf); simpl; right; apply in_or_app; right; exact Hk|left; reflexivity]. }
        pose proof (all_here _ _ Hnc) as Hsite. simpl in Hsite. rewrite <- Hc in Hsite.
        destruct (call_body_plain n args kws p (VL args ;;; VL kws ;;; spine_with V n) s Hp Hsite Hargs Hkws) as (s3 & Heq & Hc3 & Hext3 & Hrep3).
        rewrite Heq. rewrite Hc in Hc3.
        simpl in Hkids. pose proof (Forall_inv_tail Hkids) as Hrest. apply Forall_app in Hrest. destruct Hrest as [Hga Hgk].
        assert (Hm : mono (VL args ;;; VL kws ;;; spine_with V n)).
        { apply mono_bind; [apply mono_VL'|]. intros. apply mono_bind; [apply mono_VL' | intros; apply mono_spine_V]. }
        assert (A : acts c (VL args ;;; VL kws ;;; spine_with V n)
                         (flat_map (occs false) args ++ flat_map (occs false) kws ++ (if is_nameable n then inner false n else []))).
        { apply acts_bind; [apply VL_acts; exact Hga | apply mono_bind; [apply mono_VL' | intros; apply mono_spine_V] |].
          apply acts_bind; [apply VL_acts; exact Hgk | apply mono_spine_V | exact Hs]. }
        destruct (A s3 Hc3) as (A1 & A2 & A3 & A4).
        split; [exact A1|]. split; [exact A2|]. split.
        * intros nm Hin. cbn [occs] in Hin. rewrite (plain_not_attr_call _ Hp), (kf_c10_plain _ Hp), !olist_flat_map in Hin.
          destruct Hin as [Hin|Hin]; [discriminate Hin|]. cbn [app] in Hin. apply A3.
          apply in_app_or in Hin as [Hin|Hin]; [apply in_or_app; left; exact Hin|].
          apply in_app_or in Hin as [Hin|Hin]; apply in_or_app; right; apply in_or_app; [left; exact Hin | right].
          destruct (is_nameable n); [exact Hin | destruct Hin].
        * intros nm Hin. cbn [occs] in Hin. rewrite (plain_not_attr_call _ Hp), (kf_c10_plain _ Hp), !olist_flat_map in Hin.
          destruct Hin as [Hin|Hin].
          -- rewrite (spell_u_spell_c _ Hcf) in Hin. injection Hin as <-.
             eapply call_reported_ext; [apply Hm | exact Hrep3].
          -- cbn [app] in Hin. apply A4.
             apply in_app_or in Hin as [Hin|Hin]; [apply in_or_app; left; exact Hin|].
             apply in_app_or in Hin as [Hin|Hin]; apply in_or_app; right; apply in_or_app; [left; exact Hin | right].
             destruct (is_nameable n); [exact Hin | destruct Hin].
      + unfold slices_goodc. cbn [spine_with inner]. eapply acts_weaken; [|exact Hs].
        intros o Ho. cbn [app] in Ho. destruct (is_nameable n); [exact Ho | destruct Ho].
    - (* keyword argument *)
      split; [|apply Htriv; reflexivity].
      intros s Hc. rewrite visit_kw. simpl in Hkids. pose proof (Forall_inv Hkids) as Hv.
      destruct (Hv s Hc) as (H1 & H2 & H3 & H4). repeat split; auto.
    - (* Constant *)
      split; [|apply Htriv; reflexivity]. intros s Hc. rewrite visit_const. repeat split; auto; intros nm [].
    - (* Tuple / List / Set *)
      split; [|apply Htriv; reflexivity].
      intros s Hc. rewrite visit_seq. simpl in Hkids. destruct (VL_goodc c es Hkids s Hc) as (H1 & H2 & H3 & H4).
      repeat split; auto; intros nm Hin; cbn [occs] in Hin; rewrite olist_flat_map in Hin; apply in_flat_map in Hin;
        destruct Hin as (x & Hx & Hin); [apply (H3 x nm Hx Hin)|apply (H4 x nm Hx Hin)].
    - (* Dict *)
      split; [|apply Htriv; reflexivity].
      intros s Hc. rewrite visit_dict. simpl in Hkids. apply Forall_app in Hkids. destruct Hkids as [Hks Hvs].
      destruct (VL_goodc c ks Hks s Hc) as (H1 & H2 & H3 & H4). rewrite (bind_ok _ _ s tt H1).
      destruct (VL_goodc c vs Hvs (snd (VL ks s)) H2) as (H5 & H6 & H7 & H8).
      assert (Hmv : mono (VL vs)) by (apply mono_mapM_; intros z; apply mono_V).
      repeat split; auto; intros nm Hin; cbn [occs] in Hin; rewrite !olist_flat_map in Hin; apply in_app_or in Hin; destruct Hin as [Hin|Hin];
        apply in_flat_map in Hin; destruct Hin as (x & Hx & Hin).
      + eapply reported_ext; [apply Hmv|apply (H3 x nm Hx Hin)].
      + apply (H7 x nm Hx Hin).
      + eapply call_reported_ext; [apply Hmv|apply (H4 x nm Hx Hin)].
      + apply (H8 x nm Hx Hin).
    - (* any other node class *)
      destruct binds; try contradiction. split; [|apply Htriv; reflexivity].
      intros s Hc. rewrite visit_other. simpl in Hkids. destruct (VL_goodc c _ Hkids s Hc) as (H1 & H2 & H3 & H4).
      repeat split; auto; intros nm Hin; cbn [occs] in Hin; rewrite olist_flat_map in Hin; apply in_flat_map in Hin;
        destruct Hin as (x & Hx & Hin); [apply (H3 x nm Hx Hin)|apply (H4 x nm Hx Hin)].
  Qed.

  Theorem loads_with_calls_are_complete c : forall n, CFC n -> NoCustom c n -> goodc c n.
  Proof. intros n H1 H2. exact (proj1 (loads_with_calls_are_complete_and_slices c n H1 H2)). Qed.
End Calls.
