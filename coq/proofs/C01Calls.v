(* C01 / C09 on load expressions WITH calls: names, attribute / subscript / starred chains, every node class
   without dedicated visitor, containers, keyword arguments and CALLS of callees that no custom analyser claims -
   nested to any depth.  The visit ends normally, leaves the scope chain alone, reports every access `occs false`
   lists (gets AND calls).  `occs false` prunes exactly the positions of the listed finding classes (slices,
   arguments of calls inside a spine), which is where this theorem stops. *)
From RattrV Require Import Base BaseFacts Str PyAst Naming Spell Context FuncAn PyAstInd FaFacts FaMono Occurs C10Proofs C01Complete.
Open Scope string_scope.
Open Scope list_scope.

Definition cfc_local (n : node) : Prop :=
  match n with
  | EName id Load _ => mem id ATTR_BUILTINS = false
  | EAttr _ _ Load _ | ESub _ _ Load _ | EStar _ Load _ => True
  | ECall _ _ _ _ | EKw _ _ => True
  | EConst _ | ESeq _ _ _ | EDict _ _ => True
  | Other _ [] _ => True
  | _ => False
  end.
Definition CFC (n : node) : Prop := All cfc_local n.

Lemma cfc_child n x : CFC n -> In x (children n) -> CFC x.
Proof. intros H Hx. apply all_children in H. rewrite Forall_forall in H. apply H. exact Hx. Qed.

Lemma cfc_plain : forall n, CFC n -> plain n = true.
Proof.
  induction n using node_children_ind. rename H into IH. intros Hcf.
  pose proof (all_here _ _ Hcf) as Hl.
  destruct n; simpl in Hl; try contradiction; try reflexivity.
  - destruct c; try contradiction. unfold plain. simpl. rewrite Hl. reflexivity.
  - rewrite plain_attr. inversion IH as [|? ? H1 _]; subst. apply H1. apply (cfc_child _ _ Hcf). left. reflexivity.
  - rewrite plain_sub. inversion IH as [|? ? H1 _]; subst. apply H1. apply (cfc_child _ _ Hcf). left. reflexivity.
  - rewrite plain_star. inversion IH as [|? ? H1 _]; subst. apply H1. apply (cfc_child _ _ Hcf). left. reflexivity.
  - rewrite plain_call. inversion IH as [|? ? H1 _]; subst. apply H1. apply (cfc_child _ _ Hcf). left. reflexivity.
Qed.

Lemma spell_u_call_nonname f a k p :
  (forall id c q, f <> EName id c q) -> spell_u (ECall f a k p) = (spell_u f ++ "()")%string.
Proof. intros H. destruct f; try reflexivity. exfalso. eapply H. reflexivity. Qed.

Lemma spell_u_spell_c : forall n, CFC n -> spell_u n = spell n.
Proof.
  induction n using node_children_ind. rename H into IH. intros Hcf.
  pose proof (all_here _ _ Hcf) as Hl. pose proof (cfc_plain n Hcf) as Hp.
  destruct n; simpl in Hl; try contradiction; try reflexivity.
  - simpl. inversion IH as [|? ? H1 _]; subst. rewrite H1; [reflexivity|]. apply (cfc_child _ _ Hcf). left. reflexivity.
  - simpl. inversion IH as [|? ? H1 _]; subst. rewrite H1; [reflexivity|]. apply (cfc_child _ _ Hcf). left. reflexivity.
  - simpl. inversion IH as [|? ? H1 _]; subst. rewrite H1; [reflexivity|]. apply (cfc_child _ _ Hcf). left. reflexivity.
  - inversion IH as [|? ? H1 _]; subst.
    assert (Hf : spell_u n = spell n) by (apply H1; apply (cfc_child _ _ Hcf); left; reflexivity).
    rewrite plain_call in Hp. pose proof (plain_not_builtin n Hp) as Hb.
    destruct n; try (rewrite spell_u_call_nonname by (intros; discriminate); rewrite Hf; reflexivity).
    cbn [spell_base] in Hb. cbn [spell_u spell]. destruct args as [|o [|nm r]]; try reflexivity. rewrite Hb. reflexivity.
Qed.

Lemma inner_cfc_nil : forall v, CFC v -> inner false v = [].
Proof.
  induction v using node_children_ind. rename H into IH. intros Hcf.
  pose proof (all_here _ _ Hcf) as Hl.
  destruct v; simpl in Hl; try contradiction; try reflexivity.
  - cbn [inner]. inversion IH as [|? ? H1 _]; subst.
    destruct (is_nameable v); [apply H1; apply (cfc_child _ _ Hcf); left; reflexivity|reflexivity].
  - cbn [inner]. inversion IH as [|? ? H1 _]; subst. rewrite app_nil_r.
    destruct (is_nameable v1); [apply H1; apply (cfc_child _ _ Hcf); left; reflexivity|reflexivity].
  - cbn [inner]. inversion IH as [|? ? H1 _]; subst.
    destruct (is_nameable v); [apply H1; apply (cfc_child _ _ Hcf); left; reflexivity|reflexivity].
Qed.

Lemma plain_not_attr_call n : plain n = true -> is_attr_call n = false.
Proof.
  intros Hp. unfold is_attr_call. destruct (existsb (is_call_to_fn n) ATTR_BUILTINS) eqn:E; [|reflexivity].
  destruct n; try (simpl in E; discriminate E).
  apply direct_call_base in E. rewrite plain_call in Hp. rewrite (plain_not_builtin n Hp) in E. discriminate.
Qed.

Lemma callrec_eqb_refl' c : callrec_eqb c c = true.
Proof.
  unfold callrec_eqb. rewrite String.eqb_refl. simpl.
  assert (H1 : strs_eqb (c_args c) (c_args c) = true).
  { unfold strs_eqb. apply list_eqb_refl. intros x. apply String.eqb_refl. }
  assert (H2 : dict_eqb (c_kw c) (c_kw c) = true).
  { unfold dict_eqb. apply list_eqb_refl. intros [a b]. unfold pair_eqb. simpl. rewrite !String.eqb_refl. reflexivity. }
  assert (H3 : opt_sym_eqb (c_target c) (c_target c) = true).
  { destruct (c_target c) as [[n k]|]; simpl; [|reflexivity]. unfold sym_eqb. simpl. rewrite String.eqb_refl. simpl.
    destruct k; simpl; try reflexivity. apply String.eqb_refl. }
  rewrite H1, H2, H3. reflexivity.
Qed.

(* a call record with this name is among the calls *)
Definition call_reported (nm : string) (s : vstate) : Prop :=
  existsb (fun cr => String.eqb (c_name cr) nm) (v_calls s) = true.

Lemma cmem_named cr l : cmem cr l = true -> existsb (fun x => String.eqb (c_name x) (c_name cr)) l = true.
Proof.
  induction l as [|y l IH]; simpl; [discriminate|]. intros H. apply Bool.orb_true_iff in H. destruct H as [H|H].
  - unfold callrec_eqb in H. repeat (apply andb_prop in H; destruct H as [H ?]).
    apply String.eqb_eq in H. rewrite H, String.eqb_refl. reflexivity.
  - rewrite (IH H). apply Bool.orb_true_r.
Qed.

Lemma call_reported_ext nm s s' : ext s s' -> call_reported nm s -> call_reported nm s'.
Proof.
  intros He H. unfold call_reported in *. apply existsb_exists in H. destruct H as (cr & Hin & Hn).
  apply String.eqb_eq in Hn. subst nm.
  apply cmem_named. apply (ext_calls _ _ He).
  clear -Hin. induction (v_calls s) as [|y l IH]; [destruct Hin|]. simpl. destruct Hin as [->|Hin].
  - rewrite (callrec_eqb_refl' cr). reflexivity.
  - rewrite (IH Hin). apply Bool.orb_true_r.
Qed.

Section Calls.
  Variable mexists : string -> bool.
  Variable modulename : option string.
  Notation V := (visit mexists modulename).
  Notation VL := (mapM_ V).

  (* no call of the expression is claimed by a custom analyser in scope chain c (getattr family, sorted,
     collections.defaultdict): a condition on the callee names and the chain, not on the analyser *)
  Definition plain_call_site (c : ctx) (m : node) : Prop :=
    match m with
    | ECall _ _ _ _ => analyser_for modulename (get_call_target mexists c (without_call_brackets (spell m))) = ANone
    | _ => True
    end.
  Definition NoCustom (c : ctx) (n : node) : Prop := All (plain_call_site c) n.

  Lemma nocustom_child c n x : NoCustom c n -> In x (children n) -> NoCustom c x.
  Proof. intros H Hx. apply all_children in H. rewrite Forall_forall in H. apply H. exact Hx. Qed.

  Definition goodc (c : ctx) (n : node) : Prop :=
    forall s, v_ctx s = c ->
      fst (V n s) = Ok tt /\ v_ctx (snd (V n s)) = c
      /\ (forall nm, In (AGet, nm) (occs false n) -> reported nm (snd (V n s)))
      /\ (forall nm, In (ACall, nm) (occs false n) -> call_reported nm (snd (V n s))).

  Lemma mono_V x : mono (V x).
  Proof. apply (all_here _ _ (visit_retval_mono mexists modulename x)). Qed.

  Lemma gv_ctx n c0 s : plain n = true -> v_ctx (snd (get_and_verify_name n c0 s)) = v_ctx s.
  Proof.
    intros Hp. unfold get_and_verify_name. rewrite (names_of_spells n true Hp). cbn [lift_names].
    unfold bind, ret, get_ctx. cbn [fst snd].
    match goal with |- context [if ?b then add_warn _ _ else _] => destruct b end; reflexivity.
  Qed.

  Lemma VL_goodc c l :
    Forall (goodc c) l ->
    forall s, v_ctx s = c ->
      fst (VL l s) = Ok tt /\ v_ctx (snd (VL l s)) = c
      /\ (forall x nm, In x l -> In (AGet, nm) (occs false x) -> reported nm (snd (VL l s)))
      /\ (forall x nm, In x l -> In (ACall, nm) (occs false x) -> call_reported nm (snd (VL l s))).
  Proof.
    induction 1 as [|x l Hx _ IH]; intros s Hc; simpl.
    - repeat split; auto; intros ? ? [].
    - destruct (Hx s Hc) as (Hok & Hctx & Hg & Hcl). rewrite (bind_ok _ _ s tt Hok).
      destruct (IH (snd (V x s)) Hctx) as (Hok2 & Hctx2 & Hg2 & Hcl2). repeat split; auto.
      + intros y nm [<-|Hy] Hin; [|apply (Hg2 y nm Hy Hin)].
        eapply reported_ext; [|apply Hg; exact Hin]. apply mono_mapM_. intros z. apply mono_V.
      + intros y nm [<-|Hy] Hin; [|apply (Hcl2 y nm Hy Hin)].
        eapply call_reported_ext; [|apply Hcl; exact Hin]. apply mono_mapM_. intros z. apply mono_V.
  Qed.

  (* attribute / subscript / starred *)
  Lemma compound_goodc c n v :
    plain n = true -> (is_nameable v = false -> goodc c v) ->
    forall s, v_ctx s = c ->
      fst (compound_body n v Load (V v) s) = Ok tt /\ v_ctx (snd (compound_body n v Load (V v) s)) = c
      /\ reported (spell n) (snd (compound_body n v Load (V v) s))
      /\ (is_nameable v = false ->
          (forall nm, In (AGet, nm) (occs false v) -> reported nm (snd (compound_body n v Load (V v) s)))
          /\ (forall nm, In (ACall, nm) (occs false v) -> call_reported nm (snd (compound_body n v Load (V v) s)))).
  Proof.
    intros Hp Hv s Hc. unfold compound_body.
    destruct (get_and_verify_cf n Load s Hp) as [Hok Hext]. rewrite (bind_ok _ _ s _ Hok).
    pose proof (gv_ctx n Load s Hp) as Hc1. rewrite Hc in Hc1.
    set (s1 := snd (get_and_verify_name n Load s)) in *.
    destruct (is_nameable v) eqn:En.
    - unfold bind, ret. simpl. split; [reflexivity|]. split; [exact Hc1|]. split.
      + exists (spell_base n). apply rmem_radd_self.
      + intros Hfalse; discriminate Hfalse.
    - destruct (Hv eq_refl s1 Hc1) as (Hok2 & Hctx2 & Hg2 & Hcl2). rewrite (bind_ok _ _ s1 tt Hok2). simpl.
      split; [reflexivity|]. split; [exact Hctx2|]. split.
      + exists (spell_base n). apply rmem_radd_self.
      + intros _. split.
        * intros nm Hin. destruct (Hg2 nm Hin) as (b & Hb). exists b. apply rmem_radd. exact Hb.
        * intros nm Hin. apply (Hcl2 nm Hin).
  Qed.

  Lemma arg_names_ok args s :
    Forall (fun a => plain a = true) args -> exists l, arg_names args s = (Ok l, s).
  Proof.
    induction 1 as [|a r Ha _ IH]; simpl; [eexists; reflexivity|].
    rewrite (old_names_spells a Ha). cbn [lift_names]. unfold bind, ret. cbn [fst snd].
    destruct IH as (l & ->). eexists. reflexivity.
  Qed.

  Lemma kwarg_names_ok kws : forall d s,
    Forall (fun k => match k with EKw _ v => plain v = true | _ => True end) kws -> exists d', kwarg_names kws d s = (Ok d', s).
  Proof.
    induction kws as [|k r IH]; intros d s H; simpl; [eexists; reflexivity|].
    inversion H as [|? ? Hk Hr]; subst.
    destruct k; try (apply IH; exact Hr). destruct arg as [kname|]; [|apply IH; exact Hr].
    rewrite (old_names_spells k Hk). cbn [lift_names]. unfold bind, ret. cbn [fst snd]. apply IH. exact Hr.
  Qed.

  Lemma mapM_add_get_ok l : forall s,
    fst (mapM_ add_get l s) = Ok tt /\ v_ctx (snd (mapM_ add_get l s)) = v_ctx s /\ ext s (snd (mapM_ add_get l s)).
  Proof.
    induction l as [|x l IH]; intros s; simpl; [split; [reflexivity|split; [reflexivity|apply ext_refl]]|].
    unfold bind. cbn [add_get fst snd]. destruct (IH (mkV (radd x (v_gets s)) (v_sets s) (v_dels s) (v_calls s) (v_ctx s) (v_warn s))) as (H1 & H2 & H3).
    split; [exact H1|]. split; [exact H2|]. eapply ext_trans; [|exact H3]. apply (mono_add_get x s).
  Qed.

  Lemma call_target_eq name s : call_target mexists name s = (Ok (get_call_target mexists (v_ctx s) name), s).
  Proof. reflexivity. Qed.

  (* a call that no custom analyser claims: the record is added, then the arguments are visited *)
  Lemma call_body_plain f args kws p (m : M unit) s :
    let n := ECall f args kws p in
    plain n = true ->
    analyser_for modulename (get_call_target mexists (v_ctx s) (without_call_brackets (spell n))) = ANone ->
    Forall (fun a => plain a = true) args ->
    Forall (fun k => match k with EKw _ v => plain v = true | _ => True end) kws ->
    exists s3, call_body mexists modulename n args kws m s = m s3
               /\ v_ctx s3 = v_ctx s /\ ext s s3 /\ call_reported (without_call_brackets (spell n)) s3.
  Proof.
    intros n Hp Hsite Hargs Hkws. unfold call_body.
    rewrite (names_of_spells n false Hp). cbn [lift_names].
    unfold bind at 1. cbn [ret fst snd]. unfold bind at 1. rewrite call_target_eq.
    rewrite Hsite.
    destruct (get_and_verify_cf n Load s Hp) as [Hok Hext]. rewrite (bind_ok _ _ s _ Hok).
    pose proof (gv_ctx n Load s Hp) as Hc1.
    set (s1 := snd (get_and_verify_name n Load s)) in *.
    cbn [fst snd]. unfold bind at 1. rewrite call_target_eq.
    set (target := get_call_target mexists (v_ctx s1) (spell n)).
    set (self_name := match target with Some (mkSym nm KClass) => Some (LITERAL_PREFIX ++ nm)%string | _ => None end).
    destruct (mapM_add_get_ok (receiver_prefixes (spell n)) s1) as (Hok2 & Hctx2 & Hext2).
    rewrite (bind_ok _ _ s1 tt Hok2).
    set (s2 := snd (mapM_ add_get (receiver_prefixes (spell n)) s1)) in *.
    unfold make_call.
    destruct (arg_names_ok args s2 Hargs) as (la & Ea). unfold bind at 1. unfold bind at 1. rewrite Ea.
    destruct (kwarg_names_ok kws [] s2 Hkws) as (dk & Ek). unfold bind at 1. rewrite Ek. cbn [ret].
    set (cr := mkCallRec (without_call_brackets (spell n)) (opt_list self_name ++ la) dk target).
    unfold bind at 1. cbn [add_call fst snd].
    eexists. split; [reflexivity|]. split; [simpl; congruence|]. split.
    - eapply ext_trans; [exact Hext|]. eapply ext_trans; [exact Hext2|]. apply (mono_add_call cr s2).
    - unfold call_reported. simpl. destruct (cmem cr (v_calls s2)) eqn:Em; [apply (cmem_named cr); exact Em|].
      rewrite existsb_app. simpl. rewrite String.eqb_refl. rewrite Bool.orb_true_r. reflexivity.
  Qed.

  Theorem loads_with_calls_are_complete c : forall n, CFC n -> NoCustom c n -> goodc c n.
  Proof.
    induction n using node_children_ind. rename H into IH. intros Hcf Hnc.
    pose proof (all_here _ _ Hcf) as Hl. pose proof (cfc_plain n Hcf) as Hp.
    assert (Hkids : Forall (goodc c) (children n)).
    { rewrite Forall_forall in IH |- *. intros x Hx. apply IH; [exact Hx|apply (cfc_child _ _ Hcf Hx)|apply (nocustom_child _ _ _ Hnc Hx)]. }
    destruct n; simpl in Hl; try contradiction.
    - (* Name *)
      destruct c0; try contradiction. intros s Hc. rewrite visit_name.
      destruct (get_and_verify_cf (EName id Load p) Load s Hp) as [Hok Hext]. rewrite (bind_ok _ _ s _ Hok). simpl.
      pose proof (gv_ctx (EName id Load p) Load s Hp) as Hc1. repeat split; auto; [congruence| |].
      + intros nm [H|[]]. cbn [kind_of_ctx] in H. injection H as <-. exists id. apply rmem_radd_self.
      + intros nm [H|[]]. discriminate H.
    - (* Attribute *)
      destruct c0; try contradiction. intros s Hc. rewrite visit_attr.
      simpl in Hkids. pose proof (Forall_inv Hkids) as Hv.
      destruct (compound_goodc c (EAttr n a Load p) n Hp (fun _ => Hv) s Hc) as (H1 & H2 & H3 & H4).
      repeat split; auto.
      + intros nm Hin. cbn [occs] in Hin. rewrite (kf_c10_plain _ Hp) in Hin.
        apply in_app_or in Hin. destruct Hin as [[H|[]]|Hin].
        * rewrite (spell_u_spell_c _ Hcf) in H. cbn [kind_of_ctx] in H. injection H as <-. exact H3.
        * destruct (is_nameable n) eqn:En; [rewrite (inner_cfc_nil n (cfc_child _ _ Hcf (or_introl eq_refl))) in Hin; destruct Hin|].
          apply (proj1 (H4 eq_refl) nm Hin).
      + intros nm Hin. cbn [occs] in Hin. rewrite (kf_c10_plain _ Hp) in Hin.
        apply in_app_or in Hin. destruct Hin as [[H|[]]|Hin]; [discriminate H|].
        destruct (is_nameable n) eqn:En; [rewrite (inner_cfc_nil n (cfc_child _ _ Hcf (or_introl eq_refl))) in Hin; destruct Hin|].
        apply (proj2 (H4 eq_refl) nm Hin).
    - (* Subscript *)
      destruct c0; try contradiction. intros s Hc. rewrite visit_sub.
      simpl in Hkids. pose proof (Forall_inv Hkids) as Hv.
      destruct (compound_goodc c (ESub n1 n2 Load p) n1 Hp (fun _ => Hv) s Hc) as (H1 & H2 & H3 & H4).
      repeat split; auto.
      + intros nm Hin. cbn [occs] in Hin. rewrite (kf_c10_plain _ Hp), app_nil_r in Hin.
        apply in_app_or in Hin. destruct Hin as [[H|[]]|Hin].
        * rewrite (spell_u_spell_c _ Hcf) in H. cbn [kind_of_ctx] in H. injection H as <-. exact H3.
        * destruct (is_nameable n1) eqn:En; [rewrite (inner_cfc_nil n1 (cfc_child _ _ Hcf (or_introl eq_refl))) in Hin; destruct Hin|].
          apply (proj1 (H4 eq_refl) nm Hin).
      + intros nm Hin. cbn [occs] in Hin. rewrite (kf_c10_plain _ Hp), app_nil_r in Hin.
        apply in_app_or in Hin. destruct Hin as [[H|[]]|Hin]; [discriminate H|].
        destruct (is_nameable n1) eqn:En; [rewrite (inner_cfc_nil n1 (cfc_child _ _ Hcf (or_introl eq_refl))) in Hin; destruct Hin|].
        apply (proj2 (H4 eq_refl) nm Hin).
    - (* Starred *)
      destruct c0; try contradiction. intros s Hc. rewrite visit_star.
      simpl in Hkids. pose proof (Forall_inv Hkids) as Hv.
      destruct (compound_goodc c (EStar n Load p) n Hp (fun _ => Hv) s Hc) as (H1 & H2 & H3 & H4).
      repeat split; auto.
      + intros nm Hin. cbn [occs] in Hin. rewrite (kf_c10_plain _ Hp) in Hin.
        apply in_app_or in Hin. destruct Hin as [[H|[]]|Hin].
        * rewrite (spell_u_spell_c _ Hcf) in H. cbn [kind_of_ctx] in H. injection H as <-. exact H3.
        * destruct (is_nameable n) eqn:En; [rewrite (inner_cfc_nil n (cfc_child _ _ Hcf (or_introl eq_refl))) in Hin; destruct Hin|].
          apply (proj1 (H4 eq_refl) nm Hin).
      + intros nm Hin. cbn [occs] in Hin. rewrite (kf_c10_plain _ Hp) in Hin.
        apply in_app_or in Hin. destruct Hin as [[H|[]]|Hin]; [discriminate H|].
        destruct (is_nameable n) eqn:En; [rewrite (inner_cfc_nil n (cfc_child _ _ Hcf (or_introl eq_refl))) in Hin; destruct Hin|].
        apply (proj2 (H4 eq_refl) nm Hin).
    - (* Call *)
      intros s Hc. rewrite visit_call.
      assert (Hargs : Forall (fun a => plain a = true) args).
      { apply Forall_forall. intros a Ha. apply cfc_plain. apply (cfc_child _ _ Hcf). simpl. right. apply in_or_app. left. exact Ha. }
      assert (Hkws : Forall (fun k => match k with EKw _ v => plain v = true | _ => True end) kws).
      { apply Forall_forall. intros k Hk. destruct k; auto. apply cfc_plain.
        apply (cfc_child (EKw arg k)); [apply (cfc_child _ _ Hcf); simpl; right; apply in_or_app; right; exact Hk|left; reflexivity]. }
      pose proof (all_here _ _ Hnc) as Hsite. simpl in Hsite. rewrite <- Hc in Hsite.
      destruct (call_body_plain n args kws p (VL args ;;; VL kws) s Hp Hsite Hargs Hkws) as (s3 & Heq & Hc3 & Hext3 & Hrep3).
      rewrite Heq. rewrite Hc in Hc3.
      simpl in Hkids. pose proof (Forall_inv_tail Hkids) as Hrest. apply Forall_app in Hrest. destruct Hrest as [Hga Hgk].
      destruct (VL_goodc c args Hga s3 Hc3) as (Ha1 & Ha2 & Ha3 & Ha4). rewrite (bind_ok _ _ s3 tt Ha1).
      destruct (VL_goodc c kws Hgk (snd (VL args s3)) Ha2) as (Hk1 & Hk2 & Hk3 & Hk4).
      assert (Hmk : mono (VL kws)) by (apply mono_mapM_; intros z; apply mono_V).
      assert (Hma : mono (VL args)) by (apply mono_mapM_; intros z; apply mono_V).
      split; [exact Hk1|]. split; [exact Hk2|]. split.
      + intros nm Hin. cbn [occs] in Hin. rewrite (plain_not_attr_call _ Hp), (kf_c10_plain _ Hp), !olist_flat_map in Hin.
        repeat (apply in_app_or in Hin; destruct Hin as [Hin|Hin]);
          first [ solve [destruct Hin as [H|[]]; discriminate H]
                | solve [destruct Hin]
                | (apply in_flat_map in Hin; destruct Hin as (x & Hx & Hin);
                   first [ solve [eapply reported_ext; [apply Hmk|apply (Ha3 x nm Hx Hin)]] | solve [apply (Hk3 x nm Hx Hin)] ]) ].
      + intros nm Hin. cbn [occs] in Hin. rewrite (plain_not_attr_call _ Hp), (kf_c10_plain _ Hp), !olist_flat_map in Hin.
        repeat (apply in_app_or in Hin; destruct Hin as [Hin|Hin]);
          first [ solve [destruct Hin as [H|[]]; rewrite (spell_u_spell_c _ Hcf) in H; injection H as <-;
                         eapply call_reported_ext; [apply Hmk|]; eapply call_reported_ext; [apply Hma|]; exact Hrep3]
                | solve [destruct Hin]
                | (apply in_flat_map in Hin; destruct Hin as (x & Hx & Hin);
                   first [ solve [eapply call_reported_ext; [apply Hmk|apply (Ha4 x nm Hx Hin)]] | solve [apply (Hk4 x nm Hx Hin)] ]) ].
    - (* keyword argument *)
      intros s Hc. rewrite visit_kw. simpl in Hkids. pose proof (Forall_inv Hkids) as Hv.
      destruct (Hv s Hc) as (H1 & H2 & H3 & H4). repeat split; auto.
    - (* Constant *)
      intros s Hc. rewrite visit_const. repeat split; auto; intros nm [].
    - (* Tuple / List / Set *)
      intros s Hc. rewrite visit_seq. simpl in Hkids. destruct (VL_goodc c es Hkids s Hc) as (H1 & H2 & H3 & H4).
      repeat split; auto; intros nm Hin; cbn [occs] in Hin; rewrite olist_flat_map in Hin; apply in_flat_map in Hin;
        destruct Hin as (x & Hx & Hin); [apply (H3 x nm Hx Hin)|apply (H4 x nm Hx Hin)].
    - (* Dict *)
      intros s Hc. rewrite visit_dict. simpl in Hkids. apply Forall_app in Hkids. destruct Hkids as [Hks Hvs].
      destruct (VL_goodc c ks Hks s Hc) as (H1 & H2 & H3 & H4). rewrite (bind_ok _ _ s tt H1).
      destruct (VL_goodc c vs Hvs (snd (VL ks s)) H2) as (H5 & H6 & H7 & H8).
      assert (Hmv : mono (VL vs)) by (apply mono_mapM_; intros z; apply mono_V).
      repeat split; auto; intros nm Hin; cbn [occs] in Hin; rewrite !olist_flat_map in Hin; apply in_app_or in Hin; destruct Hin as [Hin|Hin];
        apply in_flat_map in Hin; destruct Hin as (x & Hx & Hin).
      + eapply reported_ext; [apply Hmv|apply (H3 x nm Hx Hin)].
      + apply (H7 x nm Hx Hin).
      + eapply call_reported_ext; [apply Hmv|apply (H4 x nm Hx Hin)].
      + apply (H8 x nm Hx Hin).
    - (* any other node class *)
      destruct binds; try contradiction.
      intros s Hc. rewrite visit_other. simpl in Hkids. destruct (VL_goodc c _ Hkids s Hc) as (H1 & H2 & H3 & H4).
      repeat split; auto; intros nm Hin; cbn [occs] in Hin; rewrite olist_flat_map in Hin; apply in_flat_map in Hin;
        destruct Hin as (x & Hx & Hin); [apply (H3 x nm Hx Hin)|apply (H4 x nm Hx Hin)].
  Qed.
End Calls.
