(* C03 at depth one, for every caller, callee, call and store: a function whose only call resolves to a
   function without resolvable calls gets exactly its own accesses plus the callee's accesses rewritten by the
   call's substitution. *)
From RattrV Require Import Base BaseFacts Str Context CallSwaps FuncAn Results ResProofs.
Open Scope string_scope.
Open Scope list_scope.

Section OneLevel.
  Variable excluded : string -> bool.
  Variable E : env.
  Variables f g : fentry.
  Variable c : callrec.
  Hypothesis f_calls : fe_calls f = [c].
  Hypothesis c_resolves : resolve excluded E c = Some g.
  Hypothesis g_is_leaf : forall c', In c' (fe_calls g) -> resolve excluded E c' = None.

  Lemma edges_out_single : edges_out f = [c].
  Proof. unfold edges_out. rewrite f_calls. reflexivity. Qed.

  Theorem one_level_tree : build_tree excluded E f = Some [mkT f None [1]; mkT g (Some c) []].
  Proof.
    unfold build_tree. destruct (total_calls E) as [|n] eqn:Et; cbn [bfs Nat.add nth_error t_entry].
    - rewrite edges_out_single. cbn [expand cmem]. rewrite c_resolves. cbn [List.length set_nth app].
      cbn [bfs nth_error t_entry].
      rewrite (expand_unresolvable excluded E 1 (edges_out g) _ [] [c]); [reflexivity|].
      intros c' Hc'. apply g_is_leaf. apply edges_out_in. exact Hc'.
    - rewrite edges_out_single. cbn [expand cmem]. rewrite c_resolves. cbn [List.length set_nth app].
      cbn [bfs nth_error t_entry].
      rewrite (expand_unresolvable excluded E 1 (edges_out g) _ [] [c]); [reflexivity|].
      intros c' Hc'. apply g_is_leaf. apply edges_out_in. exact Hc'.
  Qed.

  (* the fold over that tree: the caller's entry becomes own U unbind(callee, swaps) - and nothing else changes *)
  Theorem one_level_fold s :
    let swaps := fst (construct_call_swaps (fe_iface g) (mkCall (c_args c) (c_kw c))) in
    let '(gg, gs, gd) := get_ir s (fe_id g) in
    fold_tree [mkT f None [1]; mkT g (Some c) []] s =
    match unbind_all swaps gg, unbind_all swaps gs, unbind_all swaps gd with
    | Some ug, Some us, Some ud =>
      let '(pg, ps, pd) := get_ir s (fe_id f) in
      Some (set_ir s (fe_id f) (union pg ug, union ps us, union pd ud))
    | _, _, _ => None
    end.
  Proof.
    cbv zeta. destruct (get_ir s (fe_id g)) as [[gg gs] gd] eqn:Eg.
    unfold fold_tree. cbn [List.length seq rev app fold_left nth_error t_kids t_entry fold_child t_edge].
    rewrite Eg. reflexivity.
  Qed.
End OneLevel.
