(* C17, whole expressions: on call-free load expressions (the fragment of C01Complete.v) NO "potentially undefined"
   warning is issued when every variable the expression mentions is visible in the scope chain, and the visit
   leaves the scope chain as it was; conversely a variable that is not visible is warned about. *)
From RattrV Require Import Base BaseFacts Str PyAst Naming Spell Context FuncAn PyAstInd FaFacts FaMono Occurs C10Proofs C17Proofs C01Complete.
Open Scope string_scope.
Open Scope list_scope.

Definition name_visible (c : ctx) (m : node) : Prop :=
  match m with EName id _ _ => ctx_in c id = true | _ => True end.
Definition visible (c : ctx) (n : node) : Prop := All (name_visible c) n.

Lemma visible_child c n x : visible c n -> In x (children n) -> visible c x.
Proof. intros H Hx. apply all_children in H. rewrite Forall_forall in H. apply H. exact Hx. Qed.

(* the base of a call-free nameable is a variable of the expression, or an "@" stand-in *)
Lemma cf_base_visible c : forall n, CF n -> visible c n ->
  ctx_in c (spell_base n) = true \/ starts_with LITERAL_PREFIX (spell_base n) = true.
Proof.
  induction n using node_children_ind. rename H into IH. intros Hcf Hv.
  pose proof (all_here _ _ Hcf) as Hl. pose proof (all_here _ _ Hv) as Hh.
  destruct n; simpl in Hl; try contradiction; try (right; reflexivity).
  - left. exact Hh.
  - cbn [spell_base]. inversion IH as [|? ? H1 _]; subst.
    apply H1; [apply (cf_child _ _ Hcf) | apply (visible_child _ _ _ Hv)]; left; reflexivity.
  - cbn [spell_base]. inversion IH as [|? ? H1 _]; subst.
    apply H1; [apply (cf_child _ _ Hcf) | apply (visible_child _ _ _ Hv)]; left; reflexivity.
  - cbn [spell_base]. inversion IH as [|? ? H1 _]; subst.
    apply H1; [apply (cf_child _ _ Hcf) | apply (visible_child _ _ _ Hv)]; left; reflexivity.
Qed.

Section Quiet.
  Variable mexists : string -> bool.
  Variable modulename : option string.
  Notation V := (visit mexists modulename).
  Notation VL := (mapM_ V).

  (* the visit ends normally, adds no warning and leaves the scope chain alone *)
  Definition quiet (c : ctx) (n : node) : Prop :=
    forall s, v_ctx s = c ->
      fst (V n s) = Ok tt /\ v_warn (snd (V n s)) = v_warn s /\ v_ctx (snd (V n s)) = c.

  Lemma gv_quiet c n s :
    CF n -> visible c n -> v_ctx s = c ->
    get_and_verify_name n Load s = (Ok (spell_base n, spell n), s).
  Proof.
    intros Hcf Hv Hc. pose proof (cf_plain n Hcf) as Hp.
    rewrite (warning_decision n Load s _ _ (names_of_spells n true Hp)). rewrite Hc.
    destruct (cf_base_visible c n Hcf Hv) as [H|H]; rewrite H; cbn [negb andb]; try reflexivity.
    rewrite Bool.andb_false_r. reflexivity.
  Qed.

  Lemma VL_quiet c l : Forall (quiet c) l -> forall s, v_ctx s = c ->
    fst (VL l s) = Ok tt /\ v_warn (snd (VL l s)) = v_warn s /\ v_ctx (snd (VL l s)) = c.
  Proof.
    induction 1 as [|x l Hx _ IH]; intros s Hc; cbn [mapM_].
    - repeat split; try reflexivity; exact Hc.
    - destruct (Hx s Hc) as (Hok & Hw & Hc1). rewrite (bind_ok _ _ s tt Hok).
      destruct (IH (snd (V x s)) Hc1) as (Hok2 & Hw2 & Hc2). repeat split; [exact Hok2 | rewrite Hw2; exact Hw | exact Hc2].
  Qed.

  (* an action that ends normally, adds no warning and leaves the scope chain alone *)
  Definition quiet_act (c : ctx) (m : M unit) : Prop :=
    forall s, v_ctx s = c -> fst (m s) = Ok tt /\ v_warn (snd (m s)) = v_warn s /\ v_ctx (snd (m s)) = c.

  Lemma quiet_bind c m1 m2 : quiet_act c m1 -> quiet_act c m2 -> quiet_act c (m1 ;;; m2).
  Proof.
    intros A1 A2 s Hc. destruct (A1 s Hc) as (H1 & H2 & H3). rewrite (bind_ok _ _ s tt H1).
    destruct (A2 _ H3) as (K1 & K2 & K3). repeat split; [exact K1 | rewrite K2; exact H2 | exact K3].
  Qed.
  Lemma quiet_ret c : quiet_act c (ret tt).
  Proof. intros s Hc. repeat split; try reflexivity; exact Hc. Qed.

  Lemma compound_quiet c n v m2 :
    CF n -> visible c n -> (is_nameable v = false -> quiet c v) -> quiet_act c m2 ->
    quiet_act c (compound_body n v Load (V v) m2).
  Proof.
    intros Hcf Hv Hq H2 s Hc. unfold compound_body.
    assert (Hg := gv_quiet c n s Hcf Hv Hc).
    assert (Hok : fst (get_and_verify_name n Load s) = Ok (spell_base n, spell n)) by (rewrite Hg; reflexivity).
    rewrite (bind_ok _ _ s _ Hok). rewrite Hg. cbn [snd fst].
    assert (A1 : quiet_act c (if is_nameable v then ret tt else V v)).
    { destruct (is_nameable v); [apply quiet_ret | exact (Hq eq_refl)]. }
    destruct (quiet_bind c _ _ A1 H2 s Hc) as (H1 & Hw & Hx).
    unfold bind in *. destruct ((if is_nameable v then ret tt else V v) s) as [o1 t1] eqn:E1.
    destruct o1; cbn [fst snd] in *; try discriminate H1.
    destruct (m2 t1) as [o2 t2] eqn:E2. cbn [fst snd] in *. destruct o2; try discriminate H1.
    cbn [update_results add_get fst snd v_warn v_ctx]. repeat split; [exact Hw | exact Hx].
  Qed.

  Definition quiet_slices (c : ctx) (m : node) : Prop := quiet_act c (spine_with V m).

  (* NO SPURIOUS WARNING, any nesting depth *)
  Theorem call_free_loads_are_quiet_and_slices : forall c n, CF n -> visible c n -> quiet c n /\ quiet_slices c n.
  Proof.
    intros c. induction n using node_children_ind. rename H into IH. intros Hcf Hv.
    pose proof (all_here _ _ Hcf) as Hl.
    assert (Hkids2 : Forall (fun x => quiet c x /\ quiet_slices c x) (children n)).
    { rewrite Forall_forall in IH |- *. intros x Hx. apply IH; [exact Hx | apply (cf_child _ _ Hcf Hx) | apply (visible_child _ _ _ Hv Hx)]. }
    assert (Hkids : Forall (quiet c) (children n)).
    { rewrite Forall_forall in Hkids2 |- *. intros x Hx. exact (proj1 (Hkids2 x Hx)). }
    assert (Htriv : forall m, spine_with V m = ret tt -> quiet_slices c m).
    { intros m E. unfold quiet_slices. rewrite E. apply quiet_ret. }
    destruct n; simpl in Hl; try contradiction.
    - destruct c0; try contradiction. split; [|apply Htriv; reflexivity]. intros s Hc. rewrite visit_name.
      assert (Hg := gv_quiet c _ s Hcf Hv Hc).
      assert (Hok : fst (get_and_verify_name (EName id Load p) Load s) = Ok (spell_base (EName id Load p), spell (EName id Load p))) by (rewrite Hg; reflexivity).
      rewrite (bind_ok _ _ s _ Hok). rewrite Hg. cbn [snd fst]. unfold update_results, add_get. cbn [fst snd v_warn v_ctx].
      repeat split; try reflexivity; exact Hc.
    - destruct c0; try contradiction. simpl in Hkids2. pose proof (Forall_inv Hkids2) as [Hq Hs]. split.
      + intros s Hc. rewrite visit_attr. exact (compound_quiet c _ n _ Hcf Hv (fun _ => Hq) Hs s Hc).
      + unfold quiet_slices. cbn [spine_with]. exact Hs.
    - destruct c0; try contradiction. simpl in Hkids2. pose proof (Forall_inv Hkids2) as [Hq Hs].
      pose proof (Forall_inv (Forall_inv_tail Hkids2)) as [Hqsl _].
      assert (Hs2 : quiet_act c (V n2 ;;; spine_with V n1)) by (apply quiet_bind; [exact Hqsl | exact Hs]).
      split.
      + intros s Hc. rewrite visit_sub. exact (compound_quiet c _ n1 _ Hcf Hv (fun _ => Hq) Hs2 s Hc).
      + unfold quiet_slices. cbn [spine_with]. exact Hs2.
    - destruct c0; try contradiction. simpl in Hkids2. pose proof (Forall_inv Hkids2) as [Hq Hs]. split.
      + intros s Hc. rewrite visit_star. exact (compound_quiet c _ n _ Hcf Hv (fun _ => Hq) Hs s Hc).
      + unfold quiet_slices. cbn [spine_with]. exact Hs.
    - split; [|apply Htriv; reflexivity]. intros s Hc. rewrite visit_const. unfold ret. cbn [fst snd]. repeat split; try reflexivity; exact Hc.
    - split; [|apply Htriv; reflexivity]. intros s Hc. rewrite visit_seq. simpl in Hkids. exact (VL_quiet c es Hkids s Hc).
    - split; [|apply Htriv; reflexivity]. intros s Hc. rewrite visit_dict. simpl in Hkids. apply Forall_app in Hkids. destruct Hkids as [Hks Hvs].
      destruct (VL_quiet c ks Hks s Hc) as (H1 & H2 & H3). rewrite (bind_ok _ _ s tt H1).
      destruct (VL_quiet c vs Hvs _ H3) as (H4 & H5 & H6). repeat split; [exact H4 | rewrite H5; exact H2 | exact H6].
    - destruct binds; try contradiction. split; [|apply Htriv; reflexivity]. intros s Hc. rewrite visit_other. simpl in Hkids. exact (VL_quiet c _ Hkids s Hc).
  Qed.

  Theorem call_free_loads_are_quiet : forall c n, CF n -> visible c n -> quiet c n.
  Proof. intros c n H1 H2. exact (proj1 (call_free_loads_are_quiet_and_slices c n H1 H2)). Qed.

  (* and the converse at the root: a bare variable that is not visible IS warned about, once, at its position *)
  Theorem unbound_variable_is_warned_about c id p s :
    mem id ATTR_BUILTINS = false -> v_ctx s = c -> ctx_in c id = false -> starts_with LITERAL_PREFIX id = false ->
    v_warn (snd (V (EName id Load p) s)) = v_warn s ++ [(id, pos_of (EName id Load p))].
  Proof.
    intros Hb Hc Hin Hl. rewrite visit_name.
    assert (Hp : plain (EName id Load p) = true) by (unfold plain; cbn [spell_base]; rewrite Hb; reflexivity).
    assert (Hg := warning_decision (EName id Load p) Load s _ _ (names_of_spells _ true Hp)).
    cbn [spell_base spell] in Hg. rewrite Hc, Hin, Hl in Hg. cbn [negb andb ctx_eqb] in Hg.
    assert (Hok : fst (get_and_verify_name (EName id Load p) Load s) = Ok (id, id)) by (rewrite Hg; reflexivity).
    rewrite (bind_ok _ _ s _ Hok). rewrite Hg. cbn [snd fst]. unfold update_results, add_get. cbn [snd v_warn]. reflexivity.
  Qed.
End Quiet.

(* non-vacuity: (p.a[0], [q, *p.b]) in a scope that holds p and q *)
Example quiet_applies :
  let e := ESeq KTuple [ESub (EAttr (EName "p" Load P0) "a" Load P0) (EConst None) Load P0;
                         ESeq KList [EName "q" Load P0; EStar (EAttr (EName "p" Load P0) "b" Load P0) Load P0] P0] P0 in
  CF e /\ visible [[mkSym "p" KName; mkSym "q" KName]] e.
Proof. cbn. split; repeat constructor. Qed.
