(* C17: a store into an attribute or an item of a variable defines nothing - `x.a = v` and `x[i] = v` leave the scope
   chain as it is, so x is neither defined by them nor hidden from the undefined-name warning (the behaviour after the
   repair of KF_C17_6; before it the base name x was registered). *)
From RattrV Require Import Base Str PyAst Naming Context FuncAn.
Import ListNotations.
Local Open Scope string_scope.

Lemma all_chars_sep f d x a : f d = false -> all_chars f (x ++ String d a) = false.
Proof.
  intros Hf. induction x as [|c r IH]; cbn [append all_chars].
  - rewrite Hf. reflexivity.
  - rewrite IH. apply Bool.andb_false_r.
Qed.

(* a spelling that contains a character no identifier contains (".", "[") is not an identifier, however many stars
   are stripped from its front *)
Lemma separated_is_no_identifier d x a :
  is_ident_char d = false -> Ascii.eqb d "*"%char = false -> isidentifier (lstrip_star (x ++ String d a)) = false.
Proof.
  intros Hd Hs. induction x as [|c r IH]; cbn [append lstrip_star].
  - rewrite Hs. cbn [isidentifier]. unfold is_ident_char in Hd. apply Bool.orb_false_iff in Hd. destruct Hd as [Hd _].
    rewrite Hd. reflexivity.
  - destruct (Ascii.eqb c "*"%char); [exact IH|]. cbn [isidentifier].
    rewrite (all_chars_sep is_ident_char d r a Hd). apply Bool.andb_false_r.
Qed.

Theorem attribute_store_defines_nothing x a px p s :
  add_identifiers (EAttr (EName x Store px) a Store p) s = (Ok tt, s).
Proof.
  unfold add_identifiers. cbv beta iota delta [FuncAn.bind].
  assert (Hun : unravel_gen true (EAttr (EName x Store px) a Store p) s = (Ok [x ++ String "."%char a], s)) by reflexivity.
  rewrite Hun. cbv beta iota. cbn [map filter].
  rewrite (separated_is_no_identifier "."%char x a eq_refl eq_refl). reflexivity.
Qed.

(* a tuple target binds its plain and starred names and nothing else: `x.a, *r = v` defines r only *)
Example mixed_target_defines_plain_names_only :
  forall s, v_ctx s = [[]] ->
    let r := add_identifiers (ESeq KTuple [EAttr (EName "x" Store (1,0)) "a" Store (1,0);
                                           EStar (EName "r" Store (1,6)) Store (1,5)] (1,0)) s in
    fst r = Ok tt /\ ctx_in (v_ctx (snd r)) "r" = true /\ ctx_in (v_ctx (snd r)) "x" = false.
Proof. intros s Hc. destruct s. cbn in Hc. subst. vm_compute. repeat split. Qed.

Theorem item_store_defines_nothing x i px p s :
  add_identifiers (ESub (EName x Store px) i Store p) s = (Ok tt, s).
Proof.
  unfold add_identifiers. cbv beta iota delta [FuncAn.bind].
  assert (Hun : unravel_gen true (ESub (EName x Store px) i Store p) s = (Ok [x ++ String "["%char "]"], s)) by reflexivity.
  rewrite Hun. cbv beta iota. cbn [map filter].
  rewrite (separated_is_no_identifier "["%char x "]" eq_refl eq_refl). reflexivity.
Qed.
