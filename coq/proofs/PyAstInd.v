(* Induction over the whole tree: P holds of a node as soon as it holds of all its child nodes. *)
From RattrV Require Import Base PyAst.
Open Scope list_scope.

Definition children (n : node) : list node :=
  match n with
  | EName _ _ _ => []
  | EAttr v _ _ _ => [v]
  | ESub v sl _ _ => [v; sl]
  | EStar v _ _ => [v]
  | ECall f args kws _ => f :: args ++ kws
  | EKw _ v => [v]
  | EConst _ => []
  | ESeq _ es _ => es
  | EDict ks vs => ks ++ vs
  | ENoKey => []
  | ELambda _ d b _ => d ++ [b]
  | ENamed t v _ => [t; v]
  | EComp _ es gs _ => es ++ gs
  | EGen t i ifs => t :: i :: ifs
  | SAssign ts v _ => ts ++ [v]
  | SAnnAssign t a v _ => t :: a :: v
  | SAugAssign t v _ => [t; v]
  | SDelete ts _ => ts
  | SFor t i b o _ => t :: i :: b ++ o
  | SWith its b _ => its ++ b
  | EWithItem c vs => c :: vs
  | SReturn v _ => v
  | SFuncDef _ _ o b _ => o ++ b
  | SClassDef _ cs _ => cs
  | SForbidden _ _ => []
  | Other _ _ cs => cs
  end.

Section Ind.
  Variable P : node -> Prop.
  Hypothesis H : forall n, Forall P (children n) -> P n.

  Lemma Forall_app2 (a b : list node) : Forall P a -> Forall P b -> Forall P (a ++ b).
  Proof. intros. apply Forall_app. auto. Qed.

  Fixpoint node_children_ind (n : node) : P n :=
    let go := fix go (l : list node) : Forall P l :=
                match l with
                | [] => Forall_nil P
                | x :: r => Forall_cons x (node_children_ind x) (go r)
                end in
    H n (match n as n0 return Forall P (children n0) with
         | EName _ _ _ => Forall_nil P
         | EAttr v _ _ _ => Forall_cons v (node_children_ind v) (Forall_nil P)
         | ESub v sl _ _ => Forall_cons v (node_children_ind v) (Forall_cons sl (node_children_ind sl) (Forall_nil P))
         | EStar v _ _ => Forall_cons v (node_children_ind v) (Forall_nil P)
         | ECall f args kws _ => Forall_cons f (node_children_ind f) (Forall_app2 _ _ (go args) (go kws))
         | EKw _ v => Forall_cons v (node_children_ind v) (Forall_nil P)
         | EConst _ => Forall_nil P
         | ESeq _ es _ => go es
         | EDict ks vs => Forall_app2 _ _ (go ks) (go vs)
         | ENoKey => Forall_nil P
         | ELambda _ d b _ => Forall_app2 _ _ (go d) (Forall_cons b (node_children_ind b) (Forall_nil P))
         | ENamed t v _ => Forall_cons t (node_children_ind t) (Forall_cons v (node_children_ind v) (Forall_nil P))
         | EComp _ es gs _ => Forall_app2 _ _ (go es) (go gs)
         | EGen t i ifs => Forall_cons t (node_children_ind t) (Forall_cons i (node_children_ind i) (go ifs))
         | SAssign ts v _ => Forall_app2 _ _ (go ts) (Forall_cons v (node_children_ind v) (Forall_nil P))
         | SAnnAssign t a v _ => Forall_cons t (node_children_ind t) (Forall_cons a (node_children_ind a) (go v))
         | SAugAssign t v _ => Forall_cons t (node_children_ind t) (Forall_cons v (node_children_ind v) (Forall_nil P))
         | SDelete ts _ => go ts
         | SFor t i b o _ => Forall_cons t (node_children_ind t) (Forall_cons i (node_children_ind i) (Forall_app2 _ _ (go b) (go o)))
         | SWith its b _ => Forall_app2 _ _ (go its) (go b)
         | EWithItem c vs => Forall_cons c (node_children_ind c) (go vs)
         | SReturn v _ => go v
         | SFuncDef _ _ o b _ => Forall_app2 _ _ (go o) (go b)
         | SClassDef _ cs _ => go cs
         | SForbidden _ _ => Forall_nil P
         | Other _ _ cs => go cs
         end).
End Ind.
