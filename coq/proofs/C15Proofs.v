(* C15: badness buckets are sums by place; exit status follows the documented contract. *)
From RattrV Require Import DiagRun ExitSpec DiagAbs.
From Coq Require Import Lia.
Open Scope Z_scope.

Lemma emit_all_cons a e r w :
  emit_all a (e :: r) w = match emit a e w with
                          | (Ret _, w') => emit_all a r w'
                          | (Exit1, w') => (Exit1, w')
                          | (RaiseValueError, w') => (RaiseValueError, w')
                          end.
Proof. simpl. unfold bind. destruct (emit a e w) as [[[]| |] w']; reflexivity. Qed.

(* no event escalates: every event is processed, the result is Ret, buckets are the sums *)
Lemma emit_all_no_escalation a evs : forall w,
  weights_nonneg evs ->
  existsb (escalates a) evs = false ->
  exists w', emit_all a evs w = (Ret tt, w') /\
    w_target w' = w_target w + sum_at InTarget evs /\
    w_imports w' = w_imports w + sum_at InImport evs /\
    w_simpl w' = w_simpl w + sum_at NoFile evs.
Proof.
  induction evs as [|e r IH]; intros w Hnn Hesc.
  - exists w. simpl. unfold ret. repeat split; lia.
  - inversion Hnn as [|? ? He Hr]; subst. simpl in Hesc. apply orb_false_iff in Hesc as [He1 Hr1].
    rewrite emit_all_cons, emit_is_abs by exact He. unfold emit_abs. rewrite He1.
    destruct (IH (add_log (if visible (a_warning_level a) e then [level_of (e_level e)] else [])
                          (bump (e_place e) (e_weight e) w)) Hr Hr1) as (w' & Hrun & Ht & Hi & Hs).
    exists w'. split; [exact Hrun|].
    rewrite Ht, Hi, Hs. simpl. destruct (e_place e); simpl; repeat split; lia.
Qed.

(* some event escalates: the run ends with exit status 1, never with an escaping exception *)
Lemma emit_all_escalation a evs : forall w,
  weights_nonneg evs ->
  existsb (escalates a) evs = true ->
  exists w', emit_all a evs w = (Exit1, w').
Proof.
  induction evs as [|e r IH]; intros w Hnn Hesc; [discriminate|].
  inversion Hnn as [|? ? He Hr]; subst.
  rewrite emit_all_cons, emit_is_abs by exact He. unfold emit_abs.
  destruct (escalates a e) eqn:E.
  - eexists. reflexivity.
  - simpl in Hesc. rewrite E in Hesc. simpl in Hesc. apply IH; assumption.
Qed.

Lemma sum_at_app p l1 l2 : sum_at p (l1 ++ l2) = sum_at p l1 + sum_at p l2.
Proof. induction l1 as [|e r IH]; simpl; [reflexivity|]. rewrite IH. lia. Qed.

Lemma sum_at_nonneg p evs : weights_nonneg evs -> 0 <= sum_at p evs.
Proof.
  induction evs as [|e r IH]; intros H; simpl; [lia|]. inversion H; subst.
  specialize (IH H3). destruct (place_eqb (e_place e) p); lia.
Qed.

Lemma weights_nonneg_app l1 l2 : weights_nonneg l1 -> weights_nonneg l2 -> weights_nonneg (l1 ++ l2).
Proof. unfold weights_nonneg. intros. apply Forall_app. auto. Qed.

Lemma weights_nonneg_map_nofile l : weights_nonneg l -> weights_nonneg (map at_nofile l).
Proof. unfold weights_nonneg. induction 1; simpl; constructor; auto. Qed.

Lemma escalates_cases a e :
  escalates a e = is_fatal e || (a_is_strict a && is_weighted_error e).
Proof.
  unfold escalates, is_fatal, is_weighted_error. destruct (e_level e); simpl; rewrite ?andb_false_r; auto.
  apply andb_comm.
Qed.

Lemma existsb_orb {A} (f g : A -> bool) l :
  existsb (fun x => f x || g x) l = existsb f l || existsb g l.
Proof.
  induction l as [|x l IH]; simpl; [reflexivity|]. rewrite IH.
  destruct (f x), (g x), (existsb f l), (existsb g l); reflexivity.
Qed.

Lemma existsb_andb_const {A} (b : bool) (g : A -> bool) l :
  existsb (fun x => b && g x) l = b && existsb g l.
Proof. induction l as [|x l IH]; simpl; [destruct b; reflexivity|]. rewrite IH. destruct b; reflexivity. Qed.

Lemma existsb_escalates a evs :
  existsb (escalates a) evs = existsb is_fatal evs || (a_is_strict a && existsb is_weighted_error evs).
Proof.
  rewrite <- existsb_andb_const, <- existsb_orb.
  induction evs as [|e r IH]; simpl; [reflexivity|]. rewrite IH, escalates_cases. reflexivity.
Qed.

Lemma emit_all_app a l1 l2 w :
  emit_all a (l1 ++ l2) w = match emit_all a l1 w with
                            | (Ret _, w') => emit_all a l2 w'
                            | (Exit1, w') => (Exit1, w')
                            | (RaiseValueError, w') => (RaiseValueError, w')
                            end.
Proof.
  revert w. induction l1 as [|e r IH]; intros w; simpl.
  - reflexivity.
  - unfold bind. destruct (emit a e w) as [[[]| |] w']; auto.
Qed.

(* the whole run, with the phase order main() really has *)
Definition all_events (evA evS : list ev) : list ev := evA ++ map at_nofile evS.

Lemma run_unfold a evA evS :
  run a evA evS =
  match emit_all a (all_events evA evS) world0 with
  | (Ret _, w') => main_threshold_check a w'
  | (Exit1, w') => (Exit1, w')
  | (RaiseValueError, w') => (RaiseValueError, w')
  end.
Proof.
  unfold run, all_events. rewrite main_phase_order. simpl. unfold bind, ret at 1.
  rewrite emit_all_app.
  destruct (emit_all a evA world0) as [[[]| |] w1]; auto.
  destruct (emit_all a (map at_nofile evS) w1) as [[[]| |] w2]; auto.
  destruct (main_threshold_check a w2) as [[[]| |] w3]; reflexivity.
Qed.

Theorem exit_iff_spec a evA evS :
  0 <= a_threshold a ->
  weights_nonneg evA -> weights_nonneg evS ->
  exit_status (run a evA evS) = 1 <-> spec_exit1 a (all_events evA evS).
Proof.
  intros Hthr HA HS.
  assert (Hnn : weights_nonneg (all_events evA evS)).
  { apply weights_nonneg_app; [exact HA|apply weights_nonneg_map_nofile, HS]. }
  rewrite run_unfold. set (evs := all_events evA evS) in *.
  unfold spec_exit1, counted.
  pose proof (sum_at_nonneg InTarget evs Hnn) as HT.
  pose proof (sum_at_nonneg NoFile evs Hnn) as HN.
  destruct (existsb (escalates a) evs) eqn:Hesc.
  - destruct (emit_all_escalation a evs world0 Hnn Hesc) as (w' & Hrun). rewrite Hrun.
    split; [intros _|reflexivity].
    rewrite existsb_escalates in Hesc. apply orb_true_iff in Hesc as [Hf|Hs]; [left; exact Hf|].
    apply andb_prop in Hs as [Hst Hwe]. right. right. auto.
  - destruct (emit_all_no_escalation a evs world0 Hnn Hesc) as (w' & Hrun & Ht & _ & Hs). rewrite Hrun.
    rewrite threshold_check_abs. simpl in Ht, Hs.
    rewrite existsb_escalates in Hesc. apply orb_false_iff in Hesc as [Hf Hse].
    unfold within. rewrite Ht, Hs.
    destruct (a_is_strict a) eqn:Est; simpl in Hse.
    + destruct (Z.leb_spec (sum_at InTarget evs + sum_at NoFile evs) 0) as [Hle|Hgt]; simpl.
      * split; [discriminate|]. intros [H|[[_ H]|[_ [H|H]]]]; try congruence; lia.
      * split; [intros _|reflexivity]. right. right. split; [reflexivity|]. right. lia.
    + destruct (Z.eqb_spec (a_threshold a) 0) as [Hz|Hnz]; simpl.
      * split; [discriminate|]. intros [H|[[H _]|[H _]]]; congruence.
      * destruct (Z.leb_spec (sum_at InTarget evs + sum_at NoFile evs) (a_threshold a)) as [Hle|Hgt]; simpl.
        -- split; [discriminate|]. intros [H|[[_ H]|[H _]]]; try congruence; lia.
        -- split; [intros _|reflexivity]. right. left. split; [exact Hnz|lia].
Qed.

(* a run never ends in an escaping exception *)
Theorem run_never_raises a evA evS :
  weights_nonneg evA -> weights_nonneg evS -> fst (run a evA evS) <> RaiseValueError.
Proof.
  intros HA HS.
  assert (Hnn : weights_nonneg (all_events evA evS)).
  { apply weights_nonneg_app; [exact HA|apply weights_nonneg_map_nofile, HS]. }
  rewrite run_unfold.
  destruct (existsb (escalates a) (all_events evA evS)) eqn:Hesc.
  - destruct (emit_all_escalation a _ world0 Hnn Hesc) as (w' & Hrun). rewrite Hrun. discriminate.
  - destruct (emit_all_no_escalation a _ world0 Hnn Hesc) as (w' & Hrun & _). rewrite Hrun.
    rewrite threshold_check_abs. destruct (within a w'); discriminate.
Qed.

(* buckets: when the run reaches the threshold check, each bucket is the sum of the weights
   emitted in its place, and imports are not counted by the check *)
Theorem buckets_are_sums a evA evS w' :
  weights_nonneg evA -> weights_nonneg evS ->
  emit_all a (all_events evA evS) world0 = (Ret tt, w') ->
  w_target w' = sum_at InTarget (all_events evA evS) /\
  w_imports w' = sum_at InImport (all_events evA evS) /\
  w_simpl w' = sum_at NoFile (all_events evA evS).
Proof.
  intros HA HS Hrun.
  assert (Hnn : weights_nonneg (all_events evA evS)).
  { apply weights_nonneg_app; [exact HA|apply weights_nonneg_map_nofile, HS]. }
  destruct (existsb (escalates a) (all_events evA evS)) eqn:Hesc.
  - destruct (emit_all_escalation a _ world0 Hnn Hesc) as (w2 & Hrun2). congruence.
  - destruct (emit_all_no_escalation a _ world0 Hnn Hesc) as (w2 & Hrun2 & Ht & Hi & Hs).
    rewrite Hrun in Hrun2. injection Hrun2 as <-. simpl in *. repeat split; lia.
Qed.

(* non-vacuity and boundary behaviour, by computation on the generated code *)
Definition ex_args (strict : bool) (thr : Z) := mkArgs strict thr WDefault.
Definition ex_events : list ev :=
  [mkEv DWarning 1 InTarget; mkEv DError 5 InImport; mkEv DInfo 0 InTarget; mkEv DError 5 InTarget].
Definition ex_simpl : list ev := [mkEv DWarning 1 NoFile; mkEv DError 5 NoFile].

Lemma boundary_examples :
  exit_status (run (ex_args false 12) ex_events ex_simpl) = 0 /\   (* counted = 12, threshold 12 *)
  exit_status (run (ex_args false 11) ex_events ex_simpl) = 1 /\   (* counted = 12 > 11 *)
  exit_status (run (ex_args false 0) ex_events ex_simpl) = 0 /\    (* 0 = unlimited *)
  exit_status (run (ex_args true 0) ex_events ex_simpl) = 1 /\     (* strict: weighted error in an import *)
  exit_status (run (ex_args true 0) [mkEv DInfo 0 InTarget] []) = 0.
Proof. vm_compute. repeat split; reflexivity. Qed.
