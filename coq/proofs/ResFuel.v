(* The call-tree BFS of result generation terminates: the fuel 2 + total_calls E of build_tree is never
   exhausted, for every environment (recursion, cycles, diamonds included). *)
From RattrV Require Import Base BaseFacts Str Context CallSwaps FuncAn Results ResProofs.
From Coq Require Import Lia.
Open Scope string_scope.
Open Scope list_scope.

Lemma callrec_eqb_refl c : callrec_eqb c c = true.
Proof.
  unfold callrec_eqb. rewrite String.eqb_refl. simpl.
  assert (H1 : strs_eqb (c_args c) (c_args c) = true).
  { unfold strs_eqb. apply list_eqb_refl. intros x. apply String.eqb_refl. }
  assert (H2 : dict_eqb (c_kw c) (c_kw c) = true).
  { unfold dict_eqb. apply list_eqb_refl. intros [a b]. unfold pair_eqb. simpl. rewrite !String.eqb_refl. reflexivity. }
  assert (H3 : opt_sym_eqb (c_target c) (c_target c) = true).
  { destruct (c_target c) as [[n k]|]; simpl; [|reflexivity]. unfold sym_eqb. simpl. rewrite String.eqb_refl. simpl.
    destruct k; simpl; try reflexivity. apply String.eqb_refl. }
  rewrite H1, H2, H3. reflexivity.
Qed.

Lemma cmem_snoc_self c l : cmem c (l ++ [c]) = true.
Proof. induction l as [|x l IH]; simpl; [rewrite callrec_eqb_refl; reflexivity|rewrite IH; apply Bool.orb_true_r]. Qed.

Lemma cmem_snoc_mono x c l : cmem x l = true -> cmem x (l ++ [c]) = true.
Proof. induction l as [|y l IH]; simpl; [discriminate|]. destruct (callrec_eqb x y); simpl; auto. Qed.

Section Fuel.
  Variable excluded : string -> bool.
  Variable E : env.

  Definition allcalls : list callrec := flat_map fe_calls E.
  Definition unseen (seen : list callrec) : nat := List.length (filter (fun c => negb (cmem c seen)) allcalls).

  Lemma total_calls_length : total_calls E = List.length allcalls.
  Proof.
    unfold total_calls, allcalls.
    assert (H : forall l n, fold_left (fun n e => n + List.length (fe_calls e)) l n = n + List.length (flat_map fe_calls l)).
    { induction l as [|e l IH]; intros n; simpl; [lia|]. rewrite IH, app_length. lia. }
    rewrite H. reflexivity.
  Qed.

  Lemma flen_le (l : list callrec) (f g : callrec -> bool) :
    (forall x, g x = true -> f x = true) -> List.length (filter g l) <= List.length (filter f l).
  Proof.
    intros H. induction l as [|x l IH]; simpl; [lia|].
    destruct (g x) eqn:Eg; [rewrite (H x Eg); simpl; lia|destruct (f x); simpl; lia].
  Qed.

  Lemma flen_lt (l : list callrec) (f g : callrec -> bool) c :
    (forall x, g x = true -> f x = true) -> In c l -> f c = true -> g c = false ->
    List.length (filter g l) < List.length (filter f l).
  Proof.
    intros H Hin Hf Hg. induction l as [|x l IH]; [destruct Hin|]. simpl. destruct Hin as [->|Hin].
    - rewrite Hf, Hg. simpl. pose proof (flen_le l f g H). lia.
    - specialize (IH Hin). destruct (g x) eqn:Eg; [rewrite (H x Eg); simpl; lia|destruct (f x); simpl; lia].
  Qed.

  Lemma unseen_decreases c seen : In c allcalls -> cmem c seen = false -> unseen (seen ++ [c]) < unseen seen.
  Proof.
    intros Hin Hm. unfold unseen. apply (flen_lt allcalls _ _ c); auto.
    - intros x Hx. destruct (cmem x seen) eqn:Ex; [|reflexivity].
      rewrite (cmem_snoc_mono x c seen Ex) in Hx. discriminate.
    - rewrite Hm. reflexivity.
    - rewrite cmem_snoc_self. reflexivity.
  Qed.

  Lemma find_entry_in id k e : find_entry E id k = Some e -> In e E.
  Proof.
    induction E as [|x r IH]; simpl; [discriminate|].
    destruct (String.eqb (fe_id x) id && skind_eqb (fe_kind x) k); intros H; [injection H as <-; left; reflexivity|right; apply IH; exact H].
  Qed.

  Lemma resolve_in c g : resolve excluded E c = Some g -> In g E.
  Proof.
    unfold resolve. destruct (c_target c) as [[nm [| | | |]]|]; try discriminate.
    - destruct (excluded nm); [discriminate|apply find_entry_in].
    - apply find_entry_in.
  Qed.

  Definition entries_in_E (nodes : list tnode) : Prop := forall t, In t nodes -> In (t_entry t) E.

  Lemma set_nth_length {A} n (f : A -> A) l : List.length (set_nth n f l) = List.length l.
  Proof. revert n. induction l as [|x l IH]; intros [|n]; simpl; auto. Qed.

  Lemma set_nth_entries n f nodes :
    (forall t, t_entry (f t) = t_entry t) -> entries_in_E nodes -> entries_in_E (set_nth n f nodes).
  Proof.
    intros Hf. revert n. induction nodes as [|x l IH]; intros n H t Ht; [destruct n; destruct Ht|].
    destruct n as [|n]; simpl in Ht.
    - destruct Ht as [<-|Ht]; [rewrite Hf; apply H; left; reflexivity|apply H; right; exact Ht].
    - destruct Ht as [<-|Ht]; [apply H; left; reflexivity|].
      apply (IH n); [intros t' Ht'; apply H; right; exact Ht'|exact Ht].
  Qed.

  Lemma expand_inv i calls : forall nodes newq seen nodes' newq' seen',
    expand excluded E i calls nodes newq seen = (nodes', newq', seen') ->
    entries_in_E nodes -> (forall c, In c calls -> In c allcalls) ->
    (forall j, In j newq -> j < List.length nodes) ->
    entries_in_E nodes' /\ List.length nodes <= List.length nodes'
    /\ (forall j, In j newq' -> j < List.length nodes')
    /\ List.length newq' + unseen seen' <= List.length newq + unseen seen.
  Proof.
    induction calls as [|c r IH]; intros nodes newq seen nodes' newq' seen' H HP HA HQ; simpl in H.
    - injection H as <- <- <-. repeat split; auto.
    - assert (HAr : forall c', In c' r -> In c' allcalls) by (intros c' Hc'; apply HA; right; exact Hc').
      destruct (cmem c seen) eqn:Es; [apply (IH _ _ _ _ _ _ H HP HAr HQ)|].
      destruct (resolve excluded E c) as [g|] eqn:Er; [|apply (IH _ _ _ _ _ _ H HP HAr HQ)].
      set (nodes1 := set_nth i (fun t => mkT (t_entry t) (t_edge t) (t_kids t ++ [List.length nodes])) nodes ++ [mkT g (Some c) []]) in *.
      assert (Hlen : List.length nodes1 = S (List.length nodes)).
      { unfold nodes1. rewrite app_length, set_nth_length. simpl. lia. }
      assert (HP1 : entries_in_E nodes1).
      { unfold nodes1. intros t Ht. apply in_app_or in Ht. destruct Ht as [Ht|[<-|[]]].
        - revert t Ht. apply set_nth_entries; [reflexivity|exact HP].
        - simpl. eapply resolve_in. exact Er. }
      assert (HQ1 : forall j, In j (newq ++ [List.length nodes]) -> j < List.length nodes1).
      { intros j Hj. apply in_app_or in Hj. rewrite Hlen. destruct Hj as [Hj|[<-|[]]]; [specialize (HQ j Hj); lia|lia]. }
      destruct (IH _ _ _ _ _ _ H HP1 HAr HQ1) as (H1 & H2 & H3 & H4).
      repeat split; auto; [lia|].
      rewrite app_length in H4. simpl in H4.
      pose proof (unseen_decreases c seen (HA c (or_introl eq_refl)) Es). lia.
  Qed.

  Theorem bfs_total fuel : forall queue nodes seen,
    entries_in_E nodes -> (forall j, In j queue -> j < List.length nodes) ->
    List.length queue + unseen seen + 1 <= fuel ->
    bfs excluded E fuel queue nodes seen <> None.
  Proof.
    induction fuel as [|f IH]; intros queue nodes seen HP HQ Hf; [lia|].
    destruct queue as [|i q]; simpl; [discriminate|].
    assert (Hi : i < List.length nodes) by (apply HQ; left; reflexivity).
    destruct (nth_error nodes i) as [t|] eqn:Et; [|apply nth_error_None in Et; lia].
    destruct (expand excluded E i (edges_out (t_entry t)) nodes [] seen) as [[nodes' newq'] seen'] eqn:Ee.
    assert (Ht : In (t_entry t) E) by (apply HP; eapply nth_error_In; exact Et).
    assert (HA : forall c, In c (edges_out (t_entry t)) -> In c allcalls).
    { intros c Hc. unfold allcalls. apply in_flat_map. exists (t_entry t). split; [exact Ht|apply edges_out_in; exact Hc]. }
    destruct (expand_inv i _ _ _ _ _ _ _ Ee HP HA (fun j (H : In j []) => match H with end)) as (H1 & H2 & H3 & H4).
    apply IH; [exact H1| |].
    - intros j Hj. apply in_app_or in Hj. destruct Hj as [Hj|Hj]; [|apply H3; exact Hj].
      assert (j < List.length nodes) by (apply HQ; right; exact Hj). lia.
    - rewrite app_length. simpl in Hf, H4. lia.
  Qed.

  (* make_target_ir_call_tree always terminates, for any function of the environment *)
  Theorem build_tree_total root : In root E -> build_tree excluded E root <> None.
  Proof.
    intros Hr. unfold build_tree. apply bfs_total.
    - intros t [<-|[]]. exact Hr.
    - intros j [<-|[]]. simpl. lia.
    - unfold unseen. rewrite total_calls_length. simpl.
      pose proof (flen_le allcalls (fun _ => true) (fun c => negb (cmem c [])) (fun _ _ => eq_refl)) as Hle.
      assert (Hall : List.length (filter (fun _ : callrec => true) allcalls) = List.length allcalls).
      { clear. induction allcalls as [|x l IH]; simpl; [reflexivity|rewrite IH; reflexivity]. }
      lia.
  Qed.
End Fuel.
