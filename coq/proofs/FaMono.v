(* Unfolding equations for the FunctionAnalyser model, and: every visitor only adds to the IR and
   appends warnings, for every node, state and outcome. *)
From RattrV Require Import Base BaseFacts Str PyAst Naming Context FuncAn PyAstInd FaFacts.
Open Scope string_scope.
Open Scope list_scope.

(* P holds of a node and of all its descendants *)
Inductive All (P : node -> Prop) : node -> Prop :=
| all_intro n : P n -> Forall (All P) (children n) -> All P n.

Lemma all_here P n : All P n -> P n. Proof. destruct 1; assumption. Qed.
Lemma all_children P n : All P n -> Forall (All P) (children n). Proof. destruct 1; assumption. Qed.

Theorem all_ind_step (P : node -> Prop) :
  (forall n, Forall (All P) (children n) -> P n) -> forall n, All P n.
Proof.
  intros H. induction n using node_children_ind. constructor; [apply H; assumption|assumption].
Qed.

Section Visit.
  Variable mexists : string -> bool.
  Variable modulename : option string.
  Notation V := (visit mexists modulename).
  Notation R := (retval mexists modulename).
  Notation VL := (mapM_ V).

  (* the loop of visit_ReturnValue over container elements *)
  Fixpoint rlist_top (l : list node) : M unit :=
    match l with
    | [] => ret tt
    | ENoKey :: r => rlist_top r
    | x :: r => h <- R x ;; (if h then ret tt else V x) ;;; rlist_top r
    end.

  Lemma vlist_mapM l :
    (fix vlist (l : list node) : M unit :=
       match l with [] => ret tt | x :: r => V x ;;; vlist r end) l = VL l.
  Proof. induction l as [|x l IH]; simpl; [reflexivity|]. rewrite IH. reflexivity. Qed.

  Lemma vspine_eq m :
    (fix spine (m : node) : M unit :=
       match m with
       | ESub v sl _ _ => V sl ;;; spine v
       | EAttr v _ _ _ | EStar v _ _ => spine v
       | ECall f _ _ _ => spine f
       | _ => ret tt
       end) m = spine_with V m.
  Proof. induction m; cbn [spine_with]; try reflexivity; try assumption. rewrite IHm1. reflexivity. Qed.

  Ltac eqn := cbn [visit]; rewrite ?vlist_mapM, ?vspine_eq; reflexivity.

  (* ---- unfolding equations: one per node class ---- *)
  Lemma visit_name id c p :
    V (EName id c p) = (bf <- get_and_verify_name (EName id c p) c ;; update_results (snd bf, fst bf) c).
  Proof. reflexivity. Qed.
  Lemma visit_attr v a c p : V (EAttr v a c p) = compound_body (EAttr v a c p) v c (V v) (spine_with V v).
  Proof. cbn [visit]. rewrite vspine_eq. reflexivity. Qed.
  Lemma visit_sub v sl c p : V (ESub v sl c p) = compound_body (ESub v sl c p) v c (V v) (V sl ;;; spine_with V v).
  Proof. cbn [visit]. rewrite vspine_eq. reflexivity. Qed.
  Lemma visit_star v c p : V (EStar v c p) = compound_body (EStar v c p) v c (V v) (spine_with V v).
  Proof. cbn [visit]. rewrite vspine_eq. reflexivity. Qed.
  Lemma visit_call f args kws p :
    V (ECall f args kws p) = call_body mexists modulename (ECall f args kws p) args kws (VL args ;;; VL kws ;;; spine_with V f).
  Proof. eqn. Qed.
  Lemma visit_kw a v : V (EKw a v) = V v. Proof. reflexivity. Qed.
  Lemma visit_const sv : V (EConst sv) = ret tt. Proof. reflexivity. Qed.
  Lemma visit_nokey : V ENoKey = ret tt. Proof. reflexivity. Qed.
  Lemma visit_seq k es p : V (ESeq k es p) = VL es. Proof. eqn. Qed.
  Lemma visit_dict ks vs : V (EDict ks vs) = (VL ks ;;; VL vs). Proof. eqn. Qed.
  Lemma visit_other k cs : V (Other k [] cs) = VL cs. Proof. eqn. Qed.
  Lemma visit_other_gen k bs cs :
    V (Other k bs cs) =
    match bs with
    | [nm] => if String.eqb k "ExceptHandler"
              then mod_ctx (fun c => ctx_add c (mkSym nm KName) false) ;;; VL cs ;;; mod_ctx (fun c => ctx_remove c nm)
              else VL cs
    | _ => VL cs
    end.
  Proof. destruct bs as [|nm [|nm2 r]]; [eqn| |eqn]. cbn [visit]. rewrite ?vlist_mapM. destruct (String.eqb k "ExceptHandler"); reflexivity. Qed.
  Lemma visit_withitem c vs : V (EWithItem c vs) = (V c ;;; VL vs). Proof. eqn. Qed.
  Lemma visit_lambda ps d b p :
    V (ELambda ps d b p) = (mod_ctx ctx_push ;;; add_arguments ps ;;; V b ;;; mod_ctx ctx_pop).
  Proof. reflexivity. Qed.
  Lemma visit_funcdef name ps outer body p :
    V (SFuncDef name ps outer body p) =
    (mod_ctx (fun c => ctx_add c (mkSym name KFunc) false) ;;;
     mod_ctx ctx_push ;;; add_arguments ps ;;; VL body ;;; mod_ctx ctx_pop).
  Proof. eqn. Qed.
  Lemma visit_classdef name cs p : V (SClassDef name cs p) = ret tt. Proof. reflexivity. Qed.
  Lemma visit_forbidden k p : V (SForbidden k p) = fatal. Proof. reflexivity. Qed.
  Lemma visit_comp k es gs p :
    V (EComp k es gs p) = (mod_ctx ctx_push ;;; VL gs ;;; VL es ;;; mod_ctx ctx_pop).
  Proof. eqn. Qed.
  Lemma visit_gen t it ifs : V (EGen t it ifs) = (add_identifiers t ;;; V t ;;; V it ;;; VL ifs).
  Proof. eqn. Qed.
  Lemma visit_delete ts p : V (SDelete ts p) = (VL ts ;;; mapM_ remove_identifiers ts).
  Proof. eqn. Qed.
  Lemma visit_for t it b o p :
    V (SFor t it b o p) = (add_identifiers t ;;; V t ;;; V it ;;; VL b ;;; VL o).
  Proof. eqn. Qed.
  Lemma visit_with its b p :
    V (SWith its b p) =
    (mapM_ (fun item => match item with EWithItem _ [vars] => add_identifiers vars | _ => ret tt end) its ;;;
     VL its ;;; VL b).
  Proof. eqn. Qed.
  Lemma visit_return0 p : V (SReturn [] p) = ret tt. Proof. reflexivity. Qed.
  Lemma visit_return1 v p : V (SReturn [v] p) = (handled <- R v ;; if handled then ret tt else V v).
  Proof. reflexivity. Qed.
  Lemma visit_return2 v w r p : V (SReturn (v :: w :: r) p) = ret tt. Proof. reflexivity. Qed.
  Lemma visit_assign ts v p :
    V (SAssign ts v p) =
    assign_body mexists ts (Some v) (ret tt)
      (match ts, v with
       | t :: _, ECall f a k p => class_assign_pre mexists t f a k p ts ;;; VL a ;;; VL k
       | _, _ => raise "RuntimeError"
       end)
      (VL ts ;;; V v).
  Proof. cbn [visit]. rewrite ?vlist_mapM. destruct ts, v; try reflexivity; rewrite ?vlist_mapM; reflexivity. Qed.
  Lemma visit_annassign t ann vs p :
    V (SAnnAssign t ann vs p) =
    assign_body mexists [t] (match vs with [v] => Some v | _ => None end) (ret tt)
      (match vs with
       | [ECall f a k p] => class_assign_pre mexists t f a k p [t] ;;; VL a ;;; VL k
       | _ => raise "RuntimeError"
       end)
      (V t ;;; V ann ;;; VL vs).
  Proof.
    cbn [visit]. rewrite ?vlist_mapM. destruct vs as [|v [|w r]]; try reflexivity.
    destruct v; try reflexivity; rewrite ?vlist_mapM; reflexivity.
  Qed.
  Lemma visit_augassign t v p :
    V (SAugAssign t v p) =
    assign_body mexists [t] (Some v) (ret tt)
      (match v with
       | ECall f a k p => class_assign_pre mexists t f a k p [t] ;;; VL a ;;; VL k
       | _ => raise "RuntimeError"
       end)
      (V t ;;; V v).
  Proof. cbn [visit]. destruct v; try reflexivity; rewrite ?vlist_mapM; reflexivity. Qed.
  Lemma visit_named t v p :
    V (ENamed t v p) =
    assign_body mexists [t] (Some v)
      (bf <- lift_names (names_of false true t) ;;
       add_set (fst bf, snd bf) ;;;
       (if lambda_in_rhs (Some v) then V v else ret tt))
      (match v with
       | ECall f a k p => class_assign_pre mexists t f a k p [t] ;;; VL a ;;; VL k
       | _ => raise "RuntimeError"
       end)
      (V t ;;; V v).
  Proof. cbn [visit]. destruct v; try reflexivity; rewrite ?vlist_mapM; reflexivity. Qed.

  Lemma retval_seq k es p : R (ESeq k es p) = (rlist_top es ;;; ret true).
  Proof. reflexivity. Qed.
  Lemma retval_dict ks vs : R (EDict ks vs) = (rlist_top ks ;;; rlist_top vs ;;; ret true).
  Proof. reflexivity. Qed.
  Lemma retval_call f args kws p :
    R (ECall f args kws p) = retcall_body mexists (ECall f args kws p) args kws (VL args ;;; VL kws).
  Proof. cbn [retval]. rewrite <- !vlist_mapM. reflexivity. Qed.

  (* ---- monotonicity of the bodies ---- *)
  Lemma mono_compound_body n v c m m2 : mono m -> mono m2 -> mono (compound_body n v c m m2).
  Proof.
    intros Hm Hm2. unfold compound_body. apply mono_bind; [apply mono_get_and_verify|]. intros.
    apply mono_bind; [destruct (is_nameable v); [apply mono_ret|exact Hm]|]. intros.
    apply mono_bind; [exact Hm2|]. intros. apply mono_update_results.
  Qed.

  Lemma mono_call_body n args kws m : mono m -> mono (call_body mexists modulename n args kws m).
  Proof.
    intros Hm. unfold call_body. apply mono_bind; [apply reader_mono, reader_lift|]. intros bf0.
    apply mono_bind; [apply reader_mono, reader_call_target|]. intros tsym.
    destruct (analyser_for modulename tsym); [|apply mono_attr_analyser|apply mono_unmodelled].
    apply mono_bind; [apply mono_get_and_verify|]. intros bf.
    apply mono_bind; [apply reader_mono, reader_call_target|]. intros target.
    apply mono_bind; [apply mono_mapM_; intros; apply mono_add_get|]. intros.
    apply mono_bind; [apply reader_mono, reader_make_call|]. intros cr.
    apply mono_bind; [apply mono_add_call|]. intros. exact Hm.
  Qed.

  Lemma mono_assign_body ts value pro cls gen :
    mono pro -> mono cls -> mono gen -> mono (assign_body mexists ts value pro cls gen).
  Proof.
    intros Hp Hc Hg. unfold assign_body. apply mono_bind; [exact Hp|]. intros _.
    destruct (lambda_in_rhs value).
    - destruct (negb (one_to_one ts value)); [apply mono_fatal|].
      destruct ts; [apply mono_fatal|].
      apply mono_bind; [apply reader_mono, reader_lift|]. intros. apply mono_mod_ctx.
    - apply mono_bind; [apply reader_mono, reader_namedtuple_in_rhs|]. intros nt. destruct nt.
      + destruct (negb (one_to_one ts value)); [apply mono_fatal|].
        destruct ts; [apply mono_fatal|]. destruct value; [|apply mono_fatal].
        apply mono_bind; [apply reader_mono, reader_lift|]. intros.
        destruct (namedtuple_declaration_ok n0); [apply mono_mod_ctx|apply mono_ret].
      + apply mono_bind; [apply reader_mono, reader_class_in_rhs|]. intros cl. destruct cl.
        * destruct (negb (one_to_one ts value)); [apply mono_fatal|exact Hc].
        * apply mono_bind; [apply mono_mapM_; intros; apply mono_add_identifiers|]. intros. exact Hg.
  Qed.

  Lemma mono_retcall_body n args kws m : mono m -> mono (retcall_body mexists n args kws m).
  Proof.
    intros Hm. unfold retcall_body. destruct (existsb _ _); [apply mono_ret|].
    apply mono_bind; [apply reader_mono, reader_lift|]. intros.
    apply mono_bind; [apply reader_mono, reader_call_target|]. intros t.
    destruct (negb (is_class t)); [apply mono_ret|].
    apply mono_bind; [apply reader_mono, reader_lift|]. intros.
    apply mono_bind; [apply reader_mono, reader_call_target|]. intros.
    apply mono_bind; [apply reader_mono, reader_make_call|]. intros.
    apply mono_bind; [apply mono_add_call|]. intros.
    apply mono_bind; [exact Hm|]. intros. apply mono_ret.
  Qed.

  Definition MonoVR (n : node) : Prop := mono (V n) /\ mono (R n).

  Lemma mono_VL l : Forall (All MonoVR) l -> mono (VL l).
  Proof.
    induction 1 as [|x l Hx _ IH]; simpl; [apply mono_ret|].
    apply mono_bind; [apply (all_here _ _ Hx)|intros; exact IH].
  Qed.

  Lemma mono_rlist l : Forall (All MonoVR) l -> mono (rlist_top l).
  Proof.
    induction 1 as [|x l Hx _ IH]; simpl; [apply mono_ret|].
    destruct (all_here _ _ Hx) as [Hv Hr].
    assert (Hstep : mono (h <- R x ;; (if h then ret tt else V x) ;;; rlist_top l)).
    { apply mono_bind; [exact Hr|]. intros h. apply mono_bind; [destruct h; [apply mono_ret|exact Hv]|]. intros; exact IH. }
    destruct x; first [exact Hstep | exact IH].
  Qed.

  (* Forall over an appended / consed children list, split *)
  Ltac split_children H :=
    simpl children in H;
    repeat match type of H with
           | Forall _ (_ ++ _) => apply Forall_app in H; destruct H as [? H]
           | Forall _ (_ :: _) => let a := fresh "Hc" in let b := fresh "Hr" in
                                  inversion H as [|? ? a b]; subst; clear H; rename b into H
           end.

  Lemma class_branch_mono t f a k p ts :
    Forall (All MonoVR) a -> Forall (All MonoVR) k ->
    mono (class_assign_pre mexists t f a k p ts ;;; VL a ;;; VL k).
  Proof.
    intros Ha Hk. apply mono_bind; [apply mono_class_assign_pre|]. intros.
    apply mono_bind; [apply mono_VL, Ha|]. intros. apply mono_VL, Hk.
  Qed.

  Lemma call_children f a k p :
    All MonoVR (ECall f a k p) -> Forall (All MonoVR) a /\ Forall (All MonoVR) k.
  Proof.
    intros H. apply all_children in H. simpl in H. inversion H as [|? ? _ H']; subst.
    apply Forall_app in H'. exact H'.
  Qed.

  Lemma mono_spine : forall m, All MonoVR m -> mono (spine_with V m).
  Proof.
    induction m; intros Hm; cbn [spine_with]; try apply mono_ret;
      pose proof (all_children _ _ Hm) as Hk; simpl in Hk.
    - apply IHm. exact (Forall_inv Hk).
    - apply mono_bind; [exact (proj1 (all_here _ _ (Forall_inv (Forall_inv_tail Hk))))|]. intros. apply IHm1. exact (Forall_inv Hk).
    - apply IHm. exact (Forall_inv Hk).
    - apply IHm. exact (Forall_inv Hk).
  Qed.

  Theorem visit_retval_mono : forall n, All MonoVR n.
  Proof.
    apply all_ind_step. intros n IH. split.
    - (* visit *)
      destruct n as [id c p|v a c p|v sl c p|v c p|f args kws p|arg v|sv|k es p|ks vs| |ps dflts body p|tgt val p|k elts gens p|tgt it ifs|tgts val p|tgt ann val p|tgt val p|tgts p|tgt it body orelse p|items body p|ctxe vars|val p|name ps outer body p|name cs p|kind p|kind binds cs].
      + rewrite visit_name. apply mono_bind; [apply mono_get_and_verify|intros; apply mono_update_results].
      + rewrite visit_attr. split_children IH. apply mono_compound_body; [apply (all_here _ _ Hc) | apply mono_spine; exact Hc].
      + rewrite visit_sub. split_children IH. apply mono_compound_body; [apply (all_here _ _ Hc)|].
        apply mono_bind; [apply (all_here _ _ Hc0) | intros; apply mono_spine; exact Hc].
      + rewrite visit_star. split_children IH. apply mono_compound_body; [apply (all_here _ _ Hc) | apply mono_spine; exact Hc].
      + rewrite visit_call. apply mono_call_body. split_children IH.
        apply mono_bind; [apply mono_VL; assumption|]. intros. apply mono_bind; [apply mono_VL; assumption|]. intros.
        apply mono_spine; exact Hc.
      + rewrite visit_kw. split_children IH. apply (all_here _ _ Hc).
      + rewrite visit_const. apply mono_ret.
      + rewrite visit_seq. apply mono_VL. exact IH.
      + rewrite visit_dict. split_children IH. apply mono_bind; [apply mono_VL; assumption|intros; apply mono_VL; assumption].
      + rewrite visit_nokey. apply mono_ret.
      + rewrite visit_lambda. split_children IH.
        apply mono_bind; [apply mono_mod_ctx|]. intros. apply mono_bind; [apply mono_add_arguments|]. intros.
        apply mono_bind; [apply (all_here _ _ Hc)|]. intros. apply mono_mod_ctx.
      + (* NamedExpr *)
        rewrite visit_named. split_children IH.
        apply mono_assign_body.
        * apply mono_bind; [apply reader_mono, reader_lift|]. intros. apply mono_bind; [apply mono_add_set|]. intros.
          destruct (lambda_in_rhs _); [apply (all_here _ _ Hc0)|apply mono_ret].
        * destruct val; try apply mono_raise. destruct (call_children _ _ _ _ Hc0). apply class_branch_mono; assumption.
        * apply mono_bind; [apply (all_here _ _ Hc)|intros; apply (all_here _ _ Hc0)].
      + rewrite visit_comp. split_children IH.
        apply mono_bind; [apply mono_mod_ctx|]. intros. apply mono_bind; [apply mono_VL; assumption|]. intros.
        apply mono_bind; [apply mono_VL; assumption|]. intros. apply mono_mod_ctx.
      + rewrite visit_gen. split_children IH.
        apply mono_bind; [apply mono_add_identifiers|]. intros. apply mono_bind; [apply (all_here _ _ Hc)|]. intros.
        apply mono_bind; [apply (all_here _ _ Hc0)|]. intros. apply mono_VL. exact IH.
      + (* Assign *)
        rewrite visit_assign. split_children IH.
        apply mono_assign_body; [apply mono_ret| |].
        * destruct tgts; [apply mono_raise|]. destruct val; try apply mono_raise.
          destruct (call_children _ _ _ _ Hc). apply class_branch_mono; assumption.
        * apply mono_bind; [apply mono_VL; assumption|intros; apply (all_here _ _ Hc)].
      + (* AnnAssign *)
        rewrite visit_annassign. split_children IH.
        apply mono_assign_body; [apply mono_ret| |].
        * destruct val as [|v [|w r]]; try apply mono_raise; destruct v; try apply mono_raise.
          inversion IH; subst. destruct (call_children _ _ _ _ H1). apply class_branch_mono; assumption.
        * apply mono_bind; [apply (all_here _ _ Hc)|]. intros. apply mono_bind; [apply (all_here _ _ Hc0)|]. intros.
          apply mono_VL. exact IH.
      + (* AugAssign *)
        rewrite visit_augassign. split_children IH.
        apply mono_assign_body; [apply mono_ret| |].
        * destruct val; try apply mono_raise. destruct (call_children _ _ _ _ Hc0). apply class_branch_mono; assumption.
        * apply mono_bind; [apply (all_here _ _ Hc)|intros; apply (all_here _ _ Hc0)].
      + rewrite visit_delete. apply mono_bind; [apply mono_VL; exact IH|].
        intros. apply mono_mapM_; intros; apply mono_remove_identifiers.
      + rewrite visit_for. split_children IH.
        apply mono_bind; [apply mono_add_identifiers|]. intros. apply mono_bind; [apply (all_here _ _ Hc)|]. intros.
        apply mono_bind; [apply (all_here _ _ Hc0)|]. intros. apply mono_bind; [apply mono_VL; assumption|]. intros.
        apply mono_VL. assumption.
      + rewrite visit_with. split_children IH.
        apply mono_bind.
        { apply mono_mapM_. intros item. destruct item; try apply mono_ret.
          destruct vars as [|x [|y r]]; try apply mono_ret. apply mono_add_identifiers. }
        intros. apply mono_bind; [apply mono_VL; assumption|intros; apply mono_VL; assumption].
      + rewrite visit_withitem. split_children IH. apply mono_bind; [apply (all_here _ _ Hc)|intros; apply mono_VL; exact IH].
      + (* Return *)
        destruct val as [|v [|w r]].
        * rewrite visit_return0. apply mono_ret.
        * rewrite visit_return1. split_children IH. destruct (all_here _ _ Hc) as [Hv Hr0].
          apply mono_bind; [exact Hr0|]. intros h. destruct h; [apply mono_ret|exact Hv].
        * rewrite visit_return2. apply mono_ret.
      + rewrite visit_funcdef. split_children IH.
        apply mono_bind; [apply mono_mod_ctx|]. intros. apply mono_bind; [apply mono_mod_ctx|]. intros.
        apply mono_bind; [apply mono_add_arguments|]. intros. apply mono_bind; [apply mono_VL; assumption|]. intros.
        apply mono_mod_ctx.
      + rewrite visit_classdef. apply mono_ret.
      + rewrite visit_forbidden. apply mono_fatal.
      + rewrite visit_other_gen. destruct binds as [|nm [|nm2 r]]; try (apply mono_VL; exact IH).
        destruct (String.eqb kind "ExceptHandler"); [|apply mono_VL; exact IH].
        apply mono_bind; [apply mono_mod_ctx|]. intros. apply mono_bind; [apply mono_VL; exact IH|]. intros. apply mono_mod_ctx.
    - (* retval *)
      destruct n as [id c p|v a c p|v sl c p|v c p|f args kws p|arg v|sv|k es p|ks vs| |ps dflts body p|tgt val p|k elts gens p|tgt it ifs|tgts val p|tgt ann val p|tgt val p|tgts p|tgt it body orelse p|items body p|ctxe vars|val p|name ps outer body p|name cs p|kind p|kind binds cs]; try (cbn [retval]; apply mono_ret).
      + rewrite retval_call. apply mono_retcall_body. split_children IH.
        apply mono_bind; [apply mono_VL; assumption|intros; apply mono_VL; assumption].
      + rewrite retval_seq. apply mono_bind; [apply mono_rlist; exact IH|intros; apply mono_ret].
      + rewrite retval_dict. split_children IH.
        apply mono_bind; [apply mono_rlist; assumption|]. intros.
        apply mono_bind; [apply mono_rlist; assumption|intros; apply mono_ret].
  Qed.

  (* the IR only grows, whatever the outcome *)
  Corollary visit_only_adds n s : ext s (snd (V n s)).
  Proof. apply (all_here _ _ (visit_retval_mono n)). Qed.

  Corollary analyse_only_adds fn s : ext s (snd (analyse mexists modulename fn s)).
  Proof.
    destruct fn; try (apply reader_mono, reader_raise).
    - simpl. apply mono_bind; [apply mono_mod_ctx|]. intros. apply mono_bind; [apply mono_add_arguments|]. intros.
      apply mono_bind; [apply (all_here _ _ (visit_retval_mono fn))|]. intros. apply mono_mod_ctx.
    - simpl. apply mono_bind; [apply mono_mod_ctx|]. intros. apply mono_bind; [apply mono_add_arguments|]. intros.
      apply mono_bind; [|intros; apply mono_mod_ctx].
      apply mono_mapM_. intros x. apply (all_here _ _ (visit_retval_mono x)).
  Qed.
End Visit.
