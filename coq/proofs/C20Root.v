(* C20: which TOML file is selected. *)
From RattrV Require Import Base ProjRoot.
From Coq Require Import Lia.
Open Scope list_scope.

Lemma first_root_spec chain : forall i r,
  first_root chain i = Some r ->
  i <= r /\ (exists d, nth_error chain (r - i) = Some d /\ is_root d = true)
  /\ (forall j d, j < r - i -> nth_error chain j = Some d -> is_root d = false).
Proof.
  induction chain as [|d rest IH]; intros i r H; cbn [first_root] in H; [discriminate|].
  destruct (is_root d) eqn:Hd.
  - injection H as <-. split; [lia|]. replace (i - i) with 0 by lia. split.
    + exists d. split; [reflexivity | exact Hd].
    + intros j d' Hj. lia.
  - destruct (IH _ _ H) as (Hle & (d' & Hn & Hr) & Hbefore). split; [lia|]. split.
    + exists d'. split; [|exact Hr]. replace (r - i) with (S (r - S i)) by lia. exact Hn.
    + intros j dj Hj Hnth. destruct j as [|j].
      * cbn in Hnth. injection Hnth as <-. exact Hd.
      * cbn in Hnth. apply (Hbefore j dj); [lia | exact Hnth].
Qed.

Lemma first_root_none chain : forall i, first_root chain i = None -> forall d, In d chain -> is_root d = false.
Proof.
  induction chain as [|d rest IH]; intros i H d' Hin; [destruct Hin|].
  cbn [first_root] in H. destruct (is_root d) eqn:Hd; [discriminate|].
  destruct Hin as [<-|Hin]; [exact Hd | exact (IH _ H _ Hin)].
Qed.

(* the project root is the NEAREST directory, starting at the working directory, that carries a marker; when no
   directory does it is the working directory *)
Theorem root_is_nearest_marked_directory chain :
  (exists d, nth_error chain (find_root chain) = Some d /\ is_root d = true
             /\ forall j dj, j < find_root chain -> nth_error chain j = Some dj -> is_root dj = false)
  \/ (find_root chain = 0 /\ forall d, In d chain -> is_root d = false).
Proof.
  unfold find_root. destruct (first_root chain 0) as [r|] eqn:H.
  - left. destruct (first_root_spec _ _ _ H) as (_ & (d & Hn & Hr) & Hb).
    replace (r - 0) with r in * by lia. exists d. repeat split; try assumption.
  - right. split; [reflexivity | exact (first_root_none _ _ H)].
Qed.

(* the project's TOML is the pyproject.toml FILE of the project root itself - never one of a directory further up *)
Theorem project_toml_is_in_the_root chain i :
  project_toml chain = Some i ->
  i = find_root chain /\ exists d, nth_error chain i = Some d /\ d_pyproject d = IsFile.
Proof.
  unfold project_toml. destruct (nth_error chain (find_root chain)) as [d|] eqn:Hn; [|discriminate].
  destruct (entry_eqb (d_pyproject d) IsFile) eqn:He; [|discriminate].
  intros H. injection H as <-. split; [reflexivity|]. exists d. split; [exact Hn|].
  destruct (d_pyproject d); try discriminate; reflexivity.
Qed.

(* a working directory that is itself a marked directory without a pyproject.toml file (a nested checkout, a git
   worktree or submodule - whose .git is a FILE) hides every configuration further up *)
Theorem nested_checkout_hides_outer_configuration d rest :
  is_root d = true -> d_pyproject d <> IsFile -> project_toml (d :: rest) = None.
Proof.
  intros Hr Hp. unfold project_toml, find_root. cbn [first_root]. rewrite Hr. cbn [nth_error].
  destruct (d_pyproject d); try reflexivity. contradiction Hp; reflexivity.
Qed.
Example worktree_git_file_is_a_marker :
  project_toml [mkDir Absent IsFile Absent Absent; mkDir IsFile Absent Absent Absent] = None
  /\ project_toml [mkDir Absent Absent IsFile Absent; mkDir IsFile Absent Absent Absent] = Some 1.
Proof. split; reflexivity. Qed.

(* the -c override wins exactly when it was given and exists; otherwise the project's file; the override being
   given but missing falls back to the project's file *)
Theorem override_wins_when_it_exists chain : select_toml true true chain = TOverride.
Proof. reflexivity. Qed.
Theorem missing_override_falls_back chain given :
  select_toml given false chain = match project_toml chain with Some i => TProject i | None => TNothing end.
Proof. unfold select_toml. destruct given; reflexivity. Qed.
Theorem no_override_selects_project_file chain exists_ :
  select_toml false exists_ chain = match project_toml chain with Some i => TProject i | None => TNothing end.
Proof. reflexivity. Qed.
