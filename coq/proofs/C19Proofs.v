(* C19: a cache hit is declared only when a fresh run would give the cached results - for every history
   of edits, option changes, corruptions and runs. *)
From RattrV Require Import Base BaseFacts Str Cache.
Open Scope string_scope.
Open Scope list_scope.

Section Sound.
  Variable content : Type.
  Variable empty : content.
  Variable hash : content -> string.
  Variable results : Type.
  Variable analysis : world content -> results.
  Variable recorded : world content -> list string.

  Notation utd := (up_to_date content hash results).
  Notation snap := (snapshot content hash results analysis recorded).
  Notation rstep := (run_step content hash results analysis recorded).
  Notation stp := (step content hash results analysis recorded).
  Notation rhist := (run_history content hash results analysis recorded).

  (* md5 is assumed injective on the contents that occur *)
  Hypothesis hash_injective : forall a b, hash a = hash b -> a = b.

  (* two worlds agree on what the cache records about w0 *)
  Definition agree (w0 w : world content) : Prop :=
    w_version w = w_version w0 /\ w_args_hash w = w_args_hash w0 /\ w_plugins_hash w = w_plugins_hash w0
    /\ w_target w = w_target w0 /\ w_files w (w_target w0) = w_files w0 (w_target w0)
    /\ forall p, In p (recorded w0) -> w_files w p = w_files w0 p.

  (* FRAME: the analysis (and the set of origins it records) depends only on the rattr version, the
     analysis-relevant options, the plugin set, the target's content and the contents of the recorded
     origins.  This is the definition of "every module whose analysis fed the cached results" - that the
     recorded origins really cover the analysed modules is checked on every real run by ./check C19. *)
  Hypothesis frame : forall w0 w, agree w0 w -> analysis w = analysis w0.

  Lemma up_to_date_agree w0 w :
    utd w (snap w0) = true -> agree w0 w.
  Proof.
    unfold up_to_date, snapshot. simpl. intros H.
    repeat (apply andb_prop in H; destruct H as [H ?]).
    repeat match goal with E : String.eqb _ _ = true |- _ => apply String.eqb_eq in E end.
    unfold agree. repeat split; try congruence.
    - apply hash_injective. rewrite H2 at 1. symmetry. exact H1.
    - intros p Hp. rewrite forallb_forall in H0.
      specialize (H0 (p, hash (w_files w0 p))). simpl in H0.
      apply hash_injective. symmetry. apply String.eqb_eq. apply H0.
      apply in_map_iff. exists p. split; [reflexivity|exact Hp].
  Qed.

  (* a hit on a cache written by a fresh run in an earlier world returns what a fresh run would give now *)
  Theorem hit_sound w0 w :
    utd w (snap w0) = true ->
    c_results (snap w0) = analysis w.
  Proof. intros H. simpl. symmetry. apply frame. apply up_to_date_agree. exact H. Qed.

  (* ---- histories ---- *)
  (* the cache on disk is absent, malformed, or was written by a fresh run in some earlier world *)
  Definition Inv (cf : cache_file results) : Prop :=
    match cf with
    | CDoc c => exists w0, c = snap w0
    | _ => True
    end.

  Lemma run_step_inv refresh w cf :
    Inv cf -> Inv (fst (rstep refresh w cf)).
  Proof.
    intros H. unfold run_step. destruct refresh; simpl.
    - exists w. reflexivity.
    - destruct cf as [| |c]; simpl; try (exists w; reflexivity).
      destruct (utd w c); simpl; [exact H|exists w; reflexivity].
  Qed.

  Lemma run_step_correct refresh w cf :
    Inv cf -> r_results (snd (rstep refresh w cf)) = analysis w.
  Proof.
    intros H. unfold run_step. destruct refresh; simpl; [reflexivity|].
    destruct cf as [| |c]; simpl; try reflexivity.
    destruct (utd w c) eqn:E; simpl; [|reflexivity].
    destruct H as (w0 & ->). apply hit_sound. exact E.
  Qed.

  (* what may happen to the cache file from outside between runs: it is deleted, truncated or replaced by
     something that does not structure, or replaced by a document some run wrote earlier (a restored backup) *)
  Definition benign (o : op content results) : Prop :=
    match o with Overwrite cf => Inv cf | _ => True end.

  Lemma step_inv st o : benign o -> Inv (snd st) -> Inv (snd (fst (stp st o))).
  Proof.
    destruct st as [w cf]. cbn [snd]. intros Hb H. destruct o; cbn [step fst snd]; auto; try exact I.
    - pose proof (run_step_inv false w cf H) as H'. destruct (rstep false w cf). exact H'.
    - pose proof (run_step_inv true w cf H) as H'. destruct (rstep true w cf). exact H'.
  Qed.

  (* every run of every history - whatever was edited, changed, corrupted or removed in between, and
     whether or not it declared a hit - reports exactly what a from-scratch analysis of the world at that
     moment gives *)
  Theorem every_run_reports_fresh_results ops : forall st,
    Forall benign ops -> Inv (snd st) ->
    Forall (fun wr => r_results (snd wr) = analysis (fst wr))
           (snd (rhist st ops)).
  Proof.
    induction ops as [|o ops IH]; intros st Hb Hinv; simpl; [constructor|].
    inversion Hb as [|? ? Hbo Hbr]; subst.
    pose proof (step_inv st o Hbo Hinv) as Hinv'.
    destruct (stp st o) as [st' obs] eqn:Es.
    specialize (IH st' Hbr Hinv').
    destruct (rhist st' ops) as [st'' rest]. simpl in *.
    destruct obs as [ob|]; [|exact IH]. constructor; [|exact IH].
    destruct st as [w cf]. cbn [snd] in Hinv. destruct o; cbn [step] in Es; try (injection Es as _ Es; discriminate).
    - pose proof (run_step_correct false w cf Hinv) as Hc.
      destruct (rstep false w cf) as [cf' r]. injection Es as <- <-. exact Hc.
    - pose proof (run_step_correct true w cf Hinv) as Hc.
      destruct (rstep true w cf) as [cf' r]. injection Es as <- <-. exact Hc.
  Qed.

  (* a malformed or missing cache file is never trusted: the run re-analyses and rewrites it *)
  Theorem malformed_is_stale w cf :
    (cf = CMalformed \/ cf = CAbsent) ->
    r_hit (snd (rstep false w cf)) = false
    /\ fst (rstep false w cf) = CDoc (snap w).
  Proof. intros [-> | ->]; split; reflexivity. Qed.

  (* after any relevant change a run re-analyses: it cannot declare a hit unless the worlds agree *)
  Theorem change_is_detected w0 w :
    ~ agree w0 w ->
    r_hit (snd (rstep false w (CDoc (snap w0)))) = false.
  Proof.
    intros Hn. unfold run_step. simpl.
    destruct (utd w (snap w0)) eqn:E; [|reflexivity].
    exfalso. apply Hn. apply up_to_date_agree. exact E.
  Qed.
End Sound.

(* ---------- a concrete instance: the hypotheses are satisfiable, the protocol hits and misses ---------- *)
Definition ex_analysis (w : world string) : list string := [w_args_hash w; w_files w (w_target w); w_files w "lib.py"].
Definition ex_recorded (w : world string) : list string := ["lib.py"].
Definition ex_hash (c : string) : string := c.
Definition ex_world : world string :=
  mkWorld "t.py" (fun p => if String.eqb p "t.py" then "T0" else if String.eqb p "lib.py" then "L0" else "") "A0" "P0" "V0".

Lemma ex_hash_injective : forall a b, ex_hash a = ex_hash b -> a = b.
Proof. intros a b H. exact H. Qed.

Lemma ex_frame : forall w0 w, agree string ex_recorded w0 w -> ex_analysis w = ex_analysis w0.
Proof.
  intros w0 w (Hv & Ha & Hp & Ht & Hf & Hr). unfold ex_analysis.
  rewrite Ha, Ht, Hf, (Hr "lib.py" (or_introl eq_refl)). reflexivity.
Qed.

Definition ex_ops : list (op string (list string)) :=
  [Run; Run; Edit "lib.py" "L1"; Run; Run; Edit "other.py" "X"; Run; SetArgs "A1"; Run; Overwrite CMalformed; Run;
   Edit "t.py" "T1"; Run; Edit "t.py" "T0"; Run; RunRefresh].

(* hits: miss, hit, miss (import edited), hit, hit (unrelated file), miss (option), miss (corrupt), miss (target),
   miss (target reverted: the cache now records T1), miss (forced) *)
Example ex_history_hits :
  map (fun wr => r_hit (snd wr)) (snd (run_history string ex_hash (list string) ex_analysis ex_recorded (ex_world, CAbsent) ex_ops))
  = [false; true; false; true; true; false; false; false; false; false].
Proof. vm_compute. reflexivity. Qed.

Example ex_history_fresh :
  Forall (fun wr => r_results (snd wr) = ex_analysis (fst wr))
         (snd (run_history string ex_hash (list string) ex_analysis ex_recorded (ex_world, CAbsent) ex_ops)).
Proof.
  apply every_run_reports_fresh_results.
  - exact ex_hash_injective.
  - exact ex_frame.
  - unfold ex_ops. repeat constructor.
  - exact I.
Qed.

(* ---------- refutations: what the hypotheses exclude really does break the property ---------- *)
(* (1) a document that no run wrote - here a real one with its imports emptied, which rattr's structuring
       accepts (finding KF_C19_2) - makes a later run declare a hit on stale results *)
Definition tampered : cdoc (list string) :=
  let c := snapshot string ex_hash (list string) ex_analysis ex_recorded ex_world in
  mkDoc (c_version c) (c_args_hash c) (c_plugins_hash c) (c_filepath c) (c_filehash c) [] (c_results c).

Lemma tampered_document_refuted :
  exists ops, ~ Forall (fun wr => r_results (snd wr) = ex_analysis (fst wr))
                       (snd (run_history string ex_hash (list string) ex_analysis ex_recorded (ex_world, CAbsent) ops)).
Proof.
  exists [Run; Overwrite (CDoc tampered); Edit "lib.py" "L1"; Run].
  intros H. inversion H as [|? ? _ H1]; subst. inversion H1 as [|? ? H2 _]; subst.
  vm_compute in H2. discriminate.
Qed.

(* (2) an analysis that depends on a file the cache does not record (the frame hypothesis fails):
       the run after editing that file declares a hit on stale results *)
Definition leaky_analysis (w : world string) : list string := [w_files w (w_target w); w_files w "late.py"].
Definition leaky_recorded (w : world string) : list string := [].
Lemma unrecorded_dependency_refuted :
  exists ops, Forall (benign string ex_hash (list string) leaky_analysis leaky_recorded) ops /\
              ~ Forall (fun wr => r_results (snd wr) = leaky_analysis (fst wr))
                       (snd (run_history string ex_hash (list string) leaky_analysis leaky_recorded (ex_world, CAbsent) ops)).
Proof.
  exists [Run; Edit "late.py" "NEW"; Run]. split; [repeat constructor|].
  intros H. inversion H as [|? ? _ H1]; subst. inversion H1 as [|? ? H2 _]; subst.
  vm_compute in H2. discriminate.
Qed.
