(* C08: the target a call site gets from the scope chain, for every chain and every name. *)
From RattrV Require Import Base BaseFacts Str Context CallSwaps FuncAn Results.
Open Scope string_scope.
Open Scope list_scope.

Lemma append_neq_self (a b : string) : b <> "" -> (a ++ b)%string <> a.
Proof.
  intros Hb. induction a as [|ch a IH]; simpl; [exact Hb|]. intros H. injection H as H. exact (IH H).
Qed.

Section C08.
  Variable mexists : string -> bool.
  Notation gct := (get_call_target mexists).

  (* plain identifiers: no dot, no brackets, no star, no stand-in marker *)
  Definition plain (n : string) : Prop :=
    replace_all "*" "" (without_call_brackets n) = n /\ split_dot n = [n] /\ starts_with "@" n = false
    /\ contains "[]" n = false /\ contains "." n = false.

  (* a bare call gets whatever the scope chain holds for the name - innermost scope first *)
  Theorem bare_call_follows_scope_chain c n : plain n -> gct c n = ctx_get c n.
  Proof.
    intros (Hn & Hs & Ha & Hb & Hd). unfold get_call_target. rewrite Hn, Hs, Ha, Hb, Hd.
    rewrite String.eqb_refl. simpl. reflexivity.
  Qed.

  (* only functions and classes (and followed imports) are ever expanded: a call whose target is a plain
     variable - a parameter, a local - or a builtin contributes only itself *)
  Theorem variable_or_builtin_target_never_inlined excluded (E : env) c nm :
    c_target c = Some (mkSym nm KName) \/ c_target c = Some (mkSym nm KBuiltin) \/ c_target c = None ->
    resolve excluded E c = None.
  Proof. intros [H|[H|H]]; unfold resolve; rewrite H; reflexivity. Qed.

  (* a parameter registered in the function's own scope wins over the module level *)
  Theorem parameter_in_own_scope_shadows params root n :
    plain n -> scope_get params n = Some (mkSym n KName) -> gct [params; root] n = Some (mkSym n KName).
  Proof. intros Hp Hs. rewrite (bare_call_follows_scope_chain _ _ Hp). simpl. rewrite Hs. reflexivity. Qed.

  (* a method call on anything that is not an import resolves to nothing, whatever the module level defines *)
  Theorem method_on_non_import_has_no_target c obj f :
    let name := (obj ++ "." ++ f)%string in
    replace_all "*" "" (without_call_brackets name) = name -> split_dot name = [obj; f] ->
    starts_with "@" name = false -> contains "[]" name = false ->
    ctx_get c name = None -> is_import (ctx_get c obj) = false ->
    gct c name = None.
  Proof.
    intros name Hn Hs Ha Hb Hg Hi. unfold get_call_target. fold name. rewrite Hn, Hs, Ha, Hb, Hg, Hi. simpl.
    assert (Hne : String.eqb name obj = false).
    { apply String.eqb_neq. unfold name. apply append_neq_self. discriminate. }
    rewrite Hne. reflexivity.
  Qed.

  (* subscripted and stand-in callees have no target *)
  Theorem special_callee_has_no_target c callee :
    (starts_with "@" (replace_all "*" "" (without_call_brackets callee)) = true
     \/ contains "[]" (replace_all "*" "" (without_call_brackets callee)) = true) -> gct c callee = None.
  Proof.
    intros [H|H]; unfold get_call_target; [rewrite H; reflexivity|].
    destruct (starts_with "@" _); [reflexivity|]. rewrite H. reflexivity.
  Qed.
End C08.

(* Parameters are registered with is_argument=True (add_arguments_to_context; it was a plain add before fix 1134bd3,
   finding KF_C08_1): a parameter spelled like a module-level function shadows it, at any depth of the scope chain *)
Definition root_ex : scope := [mkSym "helper" KFunc].
Definition after_params : ctx := ctx_add (ctx_add (ctx_push [root_ex]) (mkSym "helper" KName) true) (mkSym "x" KName) true.
Lemma parameter_named_like_function_shadows :
  get_call_target (fun _ => false) after_params "helper" = Some (mkSym "helper" KName)
  /\ get_call_target (fun _ => false) after_params "x" = Some (mkSym "x" KName).
Proof. split; reflexivity. Qed.
(* for every context: after adding a parameter p, a bare call to p gets the parameter *)
Lemma scope_get_set sc s : scope_get (scope_set sc s) (s_name s) = Some s.
Proof.
  induction sc as [|x r IH]; cbn [scope_set scope_get]; [rewrite String.eqb_refl; reflexivity|].
  destruct (String.eqb (s_name x) (s_name s)) eqn:He; cbn [scope_get]; [rewrite String.eqb_refl; reflexivity|].
  rewrite He. exact IH.
Qed.
Lemma argument_add_shadows mexists c p :
  replace_all "*" "" (without_call_brackets p) = p -> split_dot p = [p] -> starts_with "@" p = false ->
  contains "[]" p = false -> contains "." p = false ->
  get_call_target mexists (ctx_add (ctx_push c) (mkSym p KName) true) p = Some (mkSym p KName).
Proof.
  intros H1 H2 H3 H4 H5.
  assert (Hget : ctx_get (ctx_add (ctx_push c) (mkSym p KName) true) p = Some (mkSym p KName)).
  { unfold ctx_add, ctx_push. rewrite Bool.andb_false_r. cbn [ctx_get]. cbn [scope_set scope_get s_name]. rewrite String.eqb_refl. reflexivity. }
  unfold get_call_target. rewrite H1, H3, H4, H2. rewrite String.eqb_refl. cbn [negb andb]. rewrite H5. cbn [andb]. exact Hget.
Qed.
(* a plain add (the behaviour before the fix) would not shadow *)
Lemma plain_add_would_not_shadow :
  get_call_target (fun _ => false) (ctx_add (ctx_push [root_ex]) (mkSym "helper" KName) false) "helper" = Some (mkSym "helper" KFunc).
Proof. reflexivity. Qed.

(* REFUTED (finding KF_C08_2): the target depends on the callee only through its name without ANY call brackets, so
   the call on a call result helper(x)(y) - spelled "helper()()" - gets helper itself as target and is expanded *)
Lemma target_depends_only_on_the_unbracketed_name :
  forall mexists c a b, without_call_brackets a = without_call_brackets b ->
    get_call_target mexists c a = get_call_target mexists c b.
Proof. intros mexists c a b H. unfold get_call_target. rewrite H. reflexivity. Qed.
Lemma call_on_call_result_targets_the_function_refuted :
  without_call_brackets "helper()()" = without_call_brackets "helper"
  /\ get_call_target (fun _ => false) [root_ex] "helper()()" = Some (mkSym "helper" KFunc).
Proof. split; reflexivity. Qed.
