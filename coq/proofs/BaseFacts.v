(* Facts about the executable helpers of model/Base.v *)
From RattrV Require Import Base.
From Coq Require Import Lia.
Open Scope string_scope.
Open Scope list_scope.

Lemma eqb_sym (a b : string) : String.eqb a b = String.eqb b a.
Proof. destruct (String.eqb_spec a b), (String.eqb_spec b a); congruence. Qed.

Lemma dget_dset d k v x :
  dget (dset d k v) x = if String.eqb x k then Some v else dget d x.
Proof.
  induction d as [|[k' v'] d IH]; simpl.
  - reflexivity.
  - destruct (String.eqb_spec k k') as [->|Hk]; simpl.
    + destruct (String.eqb_spec x k'); reflexivity.
    + rewrite IH. destruct (String.eqb_spec x k') as [->|Hx].
      * destruct (String.eqb_spec k' k); [congruence|reflexivity].
      * reflexivity.
Qed.

Lemma dmem_dset d k v x :
  dmem x (dset d k v) = String.eqb x k || dmem x d.
Proof. unfold dmem. rewrite dget_dset. destruct (String.eqb x k); reflexivity. Qed.

Lemma dmem_nil x : dmem x [] = false.
Proof. reflexivity. Qed.

Lemma mem_app x a b : mem x (a ++ b) = mem x a || mem x b.
Proof. induction a as [|y a IH]; simpl; [reflexivity|]. destruct (String.eqb x y); auto. Qed.

Lemma mem_true_iff x l : mem x l = true <-> In x l.
Proof.
  induction l as [|y l IH]; simpl; [split; [discriminate|tauto]|].
  destruct (String.eqb_spec x y) as [->|H]; split; auto.
  - intros H1. right. apply IH, H1.
  - intros [H1|H1]; [congruence|apply IH, H1].
Qed.

Lemma mem_remove_first x k l :
  nodupb l = true -> mem x (remove_first k l) = mem x l && negb (String.eqb x k).
Proof.
  induction l as [|y l IH]; simpl; intros Hn; [reflexivity|].
  apply andb_prop in Hn as [Hy Hl].
  destruct (String.eqb_spec k y) as [->|Hk].
  - destruct (String.eqb_spec x y) as [->|Hx]; simpl.
    + apply negb_true_iff in Hy. rewrite Hy. reflexivity.
    + rewrite andb_true_r. reflexivity.
  - simpl. destruct (String.eqb_spec x y) as [->|Hx].
    + destruct (String.eqb_spec y k); [congruence|reflexivity].
    + apply IH, Hl.
Qed.

Lemma nodupb_remove_first k l : nodupb l = true -> nodupb (remove_first k l) = true.
Proof.
  induction l as [|y l IH]; simpl; intros Hn; [reflexivity|].
  apply andb_prop in Hn as [Hy Hl].
  destruct (String.eqb_spec k y) as [->|Hk]; [exact Hl|].
  simpl. rewrite (IH Hl), andb_true_r.
  rewrite mem_remove_first by exact Hl.
  apply negb_true_iff in Hy. rewrite Hy. reflexivity.
Qed.

Lemma nodupb_app a b :
  nodupb (a ++ b) = true ->
  nodupb a = true /\ nodupb b = true /\ (forall x, mem x a = true -> mem x b = false).
Proof.
  induction a as [|y a IH]; simpl; intros H.
  - repeat split; auto. discriminate.
  - apply andb_prop in H as [Hy H]. destruct (IH H) as (Ha & Hb & Hab).
    rewrite mem_app in Hy. apply negb_true_iff, orb_false_iff in Hy as [Hya Hyb].
    repeat split; auto.
    + rewrite Ha, Hya. reflexivity.
    + intros x. destruct (String.eqb_spec x y) as [->|Hx]; auto.
Qed.

Lemma list_eqb_refl {A} (eq : A -> A -> bool) (l : list A) :
  (forall x, eq x x = true) -> list_eqb eq l l = true.
Proof. intros H. induction l; simpl; [reflexivity|]. rewrite H, IHl. reflexivity. Qed.

Lemma is_nil_app {A} (a b : list A) : is_nil (a ++ b) = is_nil a && is_nil b.
Proof. destruct a; reflexivity. Qed.
