(* Facts about the tables regenerated from /repo (gen/Tables.v) that the hand-written models and
   the property statements rely on.  A realistic edit to the source (a weight, a tuple member, a
   new visit_* method, a new reader of a verbosity flag) makes one of these lemmas fail to check. *)
From Coq Require Import List String ZArith Bool.
From RattrV Require Import Tables.
Import ListNotations.
Open Scope string_scope.

(* C15: the only diagnostic emitted with an explicit (non-default) weight is the documented weightless one *)
Lemma explicit_weights_documented :
  explicit_badness_sites = [("rattr/analyser/file.py", "error", 0%Z, "unable to resolve builtin module ")].
Proof. reflexivity. Qed.

(* C16: no module other than the diagnostics printer and the option record reads a verbosity /
   path-format option (direct attribute reads and getattr with a literal name) *)
Lemma flag_readers_confined :
  forallb (fun f => existsb (String.eqb f) ["rattr/config/_types.py"; "rattr/error/error.py"]) verbosity_reader_files = true.
Proof. reflexivity. Qed.

(* C01 / C02 / C10: the constant tables the naming and visitor models hard-code *)
Lemma nameable_kinds : tbl_AstNodeWithName = ["Name"; "Attribute"; "Subscript"; "Starred"; "Call"].
Proof. reflexivity. Qed.
Lemma literal_kinds : tbl_AstLiterals = ["JoinedStr"; "List"; "Tuple"; "Set"; "Dict"].
Proof. reflexivity. Qed.
Lemma comprehension_kinds : tbl_AstComprehensions = ["ListComp"; "SetComp"; "GeneratorExp"; "DictComp"].
Proof. reflexivity. Qed.
Lemma attr_access_builtins : tbl_PYTHON_ATTR_ACCESS_BUILTINS = ["delattr"; "getattr"; "hasattr"; "setattr"].
Proof. reflexivity. Qed.
Lemma literal_prefix : tbl_LITERAL_VALUE_PREFIX = "@".
Proof. reflexivity. Qed.

(* the visit_* methods each analyser defines are exactly the ones the models special-case *)
Lemma function_analyser_visitors :
  visitors_FunctionAnalyser =
  ["AnnAssign"; "AnyAssign"; "AnyFunctionDef"; "Assign"; "AsyncFor"; "AsyncFunctionDef"; "AsyncWith"; "Attribute";
   "AugAssign"; "Call"; "ClassAssign"; "ClassDef"; "Delete"; "DictComp"; "ExceptHandler"; "For"; "FunctionDef"; "GeneratorExp";
   "Global"; "Import"; "ImportFrom"; "Lambda"; "LambdaAssign"; "ListComp"; "Name"; "NamedExpr"; "NamedTupleAssign";
   "Nonlocal"; "Return"; "ReturnValue"; "SetComp"; "Starred"; "Subscript"; "With";
   "call_to_target_with_custom_analyser"; "compound_name"; "comprehension"; "slices_passed_over_by_name"].
Proof. reflexivity. Qed.
Lemma root_context_visitors :
  visitors_RootContextBuilder =
  ["AnnAssign"; "Assign"; "AsyncFor"; "AsyncFunctionDef"; "AsyncWith"; "AugAssign"; "ClassDef"; "Delete"; "Expr";
   "For"; "FunctionDef"; "If"; "Import"; "ImportFrom"; "NamedExpr"; "Try"; "While"; "With"; "assignment";
   "named_import"; "relative_import"; "starred_import"; "starred_relative_import"].
Proof. reflexivity. Qed.
