(* C20: the two-pass parse gives "command line, else TOML, else default" per option, independently of
   the other options; list options accumulate; defaults never overwrite.  Generic in the option table. *)
From RattrV Require Import Base BaseFacts Str Cli Precedence.
Open Scope string_scope.
Open Scope list_scope.

Lemma ns_get_set_same n d v : ns_get (ns_set n d v) d = Some v.
Proof.
  induction n as [|[k w] n IH]; simpl.
  - rewrite String.eqb_refl. reflexivity.
  - destruct (String.eqb_spec k d) as [->|H]; simpl.
    + rewrite String.eqb_refl. reflexivity.
    + destruct (String.eqb_spec k d); [contradiction|exact IH].
Qed.

Lemma ns_get_set_other n d d' v : d <> d' -> ns_get (ns_set n d v) d' = ns_get n d'.
Proof.
  intros Hn. induction n as [|[k w] n IH]; simpl.
  - destruct (String.eqb_spec d d'); [contradiction|reflexivity].
  - destruct (String.eqb_spec k d) as [->|H]; simpl.
    + destruct (String.eqb_spec d d'); [contradiction|reflexivity].
    + destruct (String.eqb k d'); [reflexivity|exact IH].
Qed.

Section Generic.
  Variable descs : list odesc.

  (* the table is well formed: two different actions share no option string and no dest *)
  Definition disjoint_flags (a b : odesc) : bool := forallb (fun f => negb (mem f (od_flags b))) (od_flags a).
  Fixpoint wf_table (l : list odesc) : bool :=
    match l with
    | [] => true
    | d :: r => forallb (fun e => disjoint_flags d e && disjoint_flags e d && negb (String.eqb (od_dest d) (od_dest e))) r && wf_table r
    end.

  (* ---- defaults never overwrite a value that is already there ---- *)
  Lemma apply_defaults_keeps_aux l : forall n d v,
    ns_get n d = Some v ->
    ns_get (fold_left (fun acc e => match ns_get acc (od_dest e) with Some _ => acc | None => ns_set acc (od_dest e) (od_default e) end) l n) d = Some v.
  Proof.
    induction l as [|e l IH]; intros n d v H; simpl; [exact H|].
    apply IH. destruct (ns_get n (od_dest e)) eqn:E; [exact H|].
    destruct (String.eqb_spec (od_dest e) d) as [<-|Hn]; [congruence|].
    rewrite ns_get_set_other by exact Hn. exact H.
  Qed.

  Theorem defaults_never_overwrite n d v : ns_get n d = Some v -> ns_get (apply_defaults descs n) d = Some v.
  Proof. apply apply_defaults_keeps_aux. Qed.

  (* ---- one item touches only the dest of the option it names ---- *)
  Lemma parse_item_other st it st' e dst :
    parse_item descs st it = Some st' -> find_desc descs (it_flag it) = Some e -> od_dest e <> dst ->
    ns_get (p_ns st') dst = ns_get (p_ns st) dst.
  Proof.
    unfold parse_item. intros H He Hn. rewrite He in H.
    destruct (mutex_ok e (it_value it) st) as [st1|] eqn:Em; [|discriminate].
    assert (Hns : p_ns st1 = p_ns st).
    { unfold mutex_ok in Em. destruct (is_default_value e (it_value it)); [congruence|].
      destruct (od_mutex e); [|congruence].
      destruct (find _ (p_seen_mutex st)) as [[g dest]|].
      - destruct (String.eqb dest (od_dest e)); [congruence|discriminate].
      - injection Em as <-. reflexivity. }
    destruct (od_action e), (it_value it) as [s|]; try discriminate.
    - destruct (convert ty choices s); [|discriminate].
      injection H as <-. simpl. rewrite ns_get_set_other by exact Hn. congruence.
    - injection H as <-. simpl.
      rewrite ns_get_set_other by exact Hn. congruence.
    - injection H as <-. simpl. rewrite ns_get_set_other by exact Hn. congruence.
  Qed.

  (* a store item that is accepted leaves exactly its value *)
  Lemma parse_item_store st it st' e ty ch :
    parse_item descs st it = Some st' -> find_desc descs (it_flag it) = Some e -> od_action e = AStore ty ch ->
    exists s, it_value it = Some s /\ ns_get (p_ns st') (od_dest e) = Some (VStr s)
              /\ convert ty ch s = Some (VStr s).
  Proof.
    unfold parse_item. intros H He Ha. rewrite He in H.
    destruct (mutex_ok e (it_value it) st) as [st1|]; [|discriminate]. rewrite Ha in H.
    destruct (it_value it) as [s|]; [|discriminate].
    destruct (convert ty ch s) as [v|] eqn:Ec; [|discriminate].
    injection H as <-. exists s. simpl. rewrite ns_get_set_same.
    assert (Hv : v = VStr s).
    { unfold convert in Ec. destruct (_ && _) in Ec; [congruence|discriminate]. }
    subst v. repeat split; auto.
  Qed.

  (* ---- well-formed tables: an option string names exactly one action ---- *)
  Lemma disjoint_flags_spec a b f : disjoint_flags a b = true -> mem f (od_flags a) = true -> mem f (od_flags b) = false.
  Proof.
    unfold disjoint_flags. rewrite forallb_forall. intros H Hf.
    apply mem_true_iff in Hf. specialize (H f Hf). apply negb_true_iff in H. exact H.
  Qed.

  Lemma find_desc_unique_aux l d f :
    wf_table l = true -> In d l -> mem f (od_flags d) = true ->
    find (fun e => mem f (od_flags e)) l = Some d.
  Proof.
    induction l as [|e l IH]; intros Hwf Hin Hf; [contradiction|].
    simpl in Hwf. apply andb_prop in Hwf as [He Hl]. simpl.
    destruct Hin as [->|Hin].
    - rewrite Hf. reflexivity.
    - rewrite forallb_forall in He. specialize (He d Hin).
      apply andb_prop in He as [He _]. apply andb_prop in He as [_ Hde].
      rewrite (disjoint_flags_spec d e f Hde Hf). apply IH; assumption.
  Qed.

  Lemma wf_dest_distinct l a b :
    wf_table l = true -> In a l -> In b l -> a <> b -> od_dest a <> od_dest b.
  Proof.
    induction l as [|e l IH]; intros Hwf Ha Hb Hne; [contradiction|].
    simpl in Hwf. apply andb_prop in Hwf as [He Hl]. rewrite forallb_forall in He.
    destruct Ha as [->|Ha], Hb as [->|Hb].
    - congruence.
    - specialize (He b Hb). apply andb_prop in He as [_ Hd]. apply negb_true_iff in Hd.
      destruct (String.eqb_spec (od_dest a) (od_dest b)); [discriminate|assumption].
    - specialize (He a Ha). apply andb_prop in He as [_ Hd]. apply negb_true_iff in Hd.
      destruct (String.eqb_spec (od_dest b) (od_dest a)); [discriminate|congruence].
    - apply IH; assumption.
  Qed.

  Hypothesis Hwf : wf_table descs = true.

  Lemma find_desc_unique d f : In d descs -> mem f (od_flags d) = true -> find_desc descs f = Some d.
  Proof. intros. unfold find_desc. apply find_desc_unique_aux; assumption. Qed.

  Lemma find_desc_sound f e : find_desc descs f = Some e -> In e descs /\ mem f (od_flags e) = true.
  Proof. unfold find_desc. intros H. apply find_some in H. exact H. Qed.

  Lemma parse_items_none items : parse_items descs None items = None.
  Proof. destruct items; reflexivity. Qed.

  (* the last value an item list gives for option d *)
  Fixpoint last_named (d : odesc) (items : list item) : option string :=
    match items with
    | [] => None
    | it :: r => match last_named d r with
                 | Some s => Some s
                 | None => if mem (it_flag it) (od_flags d) then it_value it else None
                 end
    end.

  (* within one pass: the last occurrence wins, otherwise the namespace entry is untouched *)
  Theorem pass_last_wins d ty ch :
    In d descs -> od_action d = AStore ty ch ->
    forall items st st', parse_items descs (Some st) items = Some st' ->
      ns_get (p_ns st') (od_dest d) =
      match last_named d items with Some s => Some (VStr s) | None => ns_get (p_ns st) (od_dest d) end.
  Proof.
    intros Hin Hact. induction items as [|it r IH]; intros st st' H; simpl in H.
    - injection H as <-. reflexivity.
    - destruct (parse_item descs st it) as [st1|] eqn:E1.
      2:{ rewrite parse_items_none in H. discriminate. }
      rewrite (IH _ _ H). simpl. destruct (last_named d r) as [s|]; [reflexivity|].
      assert (Hfd : exists e, find_desc descs (it_flag it) = Some e).
      { unfold parse_item in E1. destruct (find_desc descs (it_flag it)); [eauto|discriminate]. }
      destruct Hfd as (e & He). destruct (find_desc_sound _ _ He) as (Hein & Hef).
      destruct (mem (it_flag it) (od_flags d)) eqn:Em.
      + (* the item names d *)
        assert (e = d) by (rewrite (find_desc_unique d _ Hin Em) in He; congruence). subst e.
        destruct (parse_item_store _ _ _ _ _ _ E1 He Hact) as (s & Hv & Hget & _).
        rewrite Hv. exact Hget.
      + (* it names another option *)
        assert (Hne : e <> d) by (intros ->; congruence).
        apply (parse_item_other _ _ _ _ _ E1 He). apply (wf_dest_distinct descs); assumption.
  Qed.

  (* defaults are installed for options the namespace does not have yet *)
  Lemma apply_defaults_installs_aux l : forall n d,
    wf_table l = true -> In d l -> ns_get n (od_dest d) = None ->
    ns_get (fold_left (fun acc e => match ns_get acc (od_dest e) with Some _ => acc | None => ns_set acc (od_dest e) (od_default e) end) l n)
           (od_dest d) = Some (od_default d).
  Proof.
    induction l as [|e l IH]; intros n d Hw Hin Hn; [contradiction|].
    simpl in Hw. apply andb_prop in Hw as [He Hl]. simpl. destruct Hin as [->|Hin].
    - rewrite Hn. apply apply_defaults_keeps_aux. apply ns_get_set_same.
    - apply IH; auto.
      destruct (ns_get n (od_dest e)) eqn:E; [exact Hn|].
      rewrite forallb_forall in He. specialize (He d Hin). apply andb_prop in He as [_ Hd]. apply negb_true_iff in Hd.
      rewrite ns_get_set_other; [exact Hn|]. destruct (String.eqb_spec (od_dest e) (od_dest d)); [discriminate|assumption].
  Qed.

  Theorem defaults_installed n d :
    In d descs -> ns_get n (od_dest d) = None -> ns_get (apply_defaults descs n) (od_dest d) = Some (od_default d).
  Proof. intros. apply apply_defaults_installs_aux; assumption. Qed.

  (* one whole pass, for a store option *)
  Corollary pass_store d ty ch n items n' :
    In d descs -> od_action d = AStore ty ch -> parse_pass descs n items = Some n' ->
    ns_get n' (od_dest d) =
    match last_named d items with
    | Some s => Some (VStr s)
    | None => match ns_get n (od_dest d) with Some v => Some v | None => Some (od_default d) end
    end.
  Proof.
    intros Hin Hact H. unfold parse_pass in H.
    destruct (parse_items descs (Some (mkP (apply_defaults descs n) [])) items) as [st|] eqn:E; [|discriminate].
    injection H as <-. rewrite (pass_last_wins d ty ch Hin Hact _ _ _ E). simpl.
    destruct (last_named d items); [reflexivity|].
    destruct (ns_get n (od_dest d)) as [v|] eqn:En.
    - apply defaults_never_overwrite. exact En.
    - apply defaults_installed; assumption.
  Qed.
  (* ---- list options accumulate ---- *)
  Definition list_of (o : option oval) : list string := match o with Some (VList l) => l | _ => [] end.

  Fixpoint named_values (d : odesc) (items : list item) : list string :=
    match items with
    | [] => []
    | it :: r => (if mem (it_flag it) (od_flags d) then match it_value it with Some s => [s] | None => [] end else [])
                 ++ named_values d r
    end.

  Lemma parse_item_append st it st' e :
    parse_item descs st it = Some st' -> find_desc descs (it_flag it) = Some e -> od_action e = AAppend ->
    exists s, it_value it = Some s /\ list_of (ns_get (p_ns st') (od_dest e)) = list_of (ns_get (p_ns st) (od_dest e)) ++ [s].
  Proof.
    unfold parse_item. intros H He Ha. rewrite He in H.
    destruct (mutex_ok e (it_value it) st) as [st1|] eqn:Em; [|discriminate].
    assert (Hns : p_ns st1 = p_ns st).
    { unfold mutex_ok in Em. destruct (is_default_value e (it_value it)); [congruence|].
      destruct (od_mutex e); [|congruence].
      destruct (find _ (p_seen_mutex st)) as [[g dest]|].
      - destruct (String.eqb dest (od_dest e)); [congruence|discriminate].
      - injection Em as <-. reflexivity. }
    rewrite Ha in H. destruct (it_value it) as [s|]; [|discriminate].
    injection H as <-. exists s. split; [reflexivity|].
    simpl. rewrite ns_get_set_same, Hns. simpl. unfold list_of.
    destruct (ns_get (p_ns st) (od_dest e)) as [[| |l|]|]; reflexivity.
  Qed.

  Theorem pass_append_accumulates d :
    In d descs -> od_action d = AAppend ->
    forall items st st', parse_items descs (Some st) items = Some st' ->
      list_of (ns_get (p_ns st') (od_dest d)) = list_of (ns_get (p_ns st) (od_dest d)) ++ named_values d items.
  Proof.
    intros Hin Hact. induction items as [|it r IH]; intros st st' H; simpl in H.
    - injection H as <-. simpl. rewrite app_nil_r. reflexivity.
    - destruct (parse_item descs st it) as [st1|] eqn:E1.
      2:{ rewrite parse_items_none in H. discriminate. }
      rewrite (IH _ _ H). simpl.
      assert (Hfd : exists e, find_desc descs (it_flag it) = Some e).
      { unfold parse_item in E1. destruct (find_desc descs (it_flag it)); [eauto|discriminate]. }
      destruct Hfd as (e & He). destruct (find_desc_sound _ _ He) as (Hein & Hef).
      destruct (mem (it_flag it) (od_flags d)) eqn:Em.
      + assert (e = d) by (rewrite (find_desc_unique d _ Hin Em) in He; congruence). subst e.
        destruct (parse_item_append _ _ _ _ E1 He Hact) as (s & Hv & Hl). rewrite Hv, Hl, <- app_assoc. reflexivity.
      + assert (Hne : e <> d) by (intros ->; congruence).
        rewrite (parse_item_other _ _ _ _ _ E1 He (wf_dest_distinct descs _ _ Hwf Hein Hin Hne)). reflexivity.
  Qed.
End Generic.

(* ---- the two passes: command line, else TOML, else default ---- *)
Theorem two_pass_precedence toml_descs cli_descs d ty ch titems citems n1 n2 :
  wf_table toml_descs = true -> wf_table cli_descs = true ->
  In d toml_descs -> In d cli_descs -> od_action d = AStore ty ch ->
  parse_pass toml_descs [] titems = Some n1 ->
  parse_pass cli_descs n1 citems = Some n2 ->
  ns_get n2 (od_dest d) =
  Some (match last_named d citems with
        | Some s => VStr s
        | None => match last_named d titems with
                  | Some s => VStr s
                  | None => od_default d
                  end
        end).
Proof.
  intros Hw1 Hw2 Hi1 Hi2 Hact H1 H2.
  rewrite (pass_store cli_descs Hw2 d ty ch _ _ _ Hi2 Hact H2).
  destruct (last_named d citems); [reflexivity|].
  rewrite (pass_store toml_descs Hw1 d ty ch _ _ _ Hi1 Hact H1). simpl.
  destruct (last_named d titems); reflexivity.
Qed.
